#!/usr/bin/env python
"""
Differential check for refactoring C14/k: CassetteFile.append_header() and append_name() with the checksum threaded through put().

usage: equiv.py <treeA> <treeB>   (exit 0 = every observable result agrees)
Each tree is exercised in its own subprocess with the tree first on sys.path.
"""
import sys, os, json, subprocess, tempfile

PRELUDE = r'''
# ---- driver prelude: runs inside ONE tree (argv[1]) with a scratch dir (argv[2]) ----
import sys, os, io, json, hashlib, contextlib, importlib, shutil, traceback

TREE = os.path.realpath(sys.argv[1])
SCRATCH = os.path.realpath(sys.argv[2])
sys.path.insert(0, TREE)
os.chdir(TREE)

import cocoasm
assert os.path.realpath(cocoasm.__file__).startswith(TREE + os.sep), cocoasm.__file__

RESULTS = []
_case_no = [0]


def norm(value):
    """Turns any result into something JSON can carry, without losing what is observable."""
    if isinstance(value, (bytes, bytearray)):
        return {"bytes": bytes(value).hex()}
    if isinstance(value, (list, tuple)):
        if len(value) > 64 and all(isinstance(x, int) and not isinstance(x, bool) for x in value):
            blob = ",".join(str(x) for x in value).encode()
            return {"ints": len(value), "sha1": hashlib.sha1(blob).hexdigest()}
        return [norm(x) for x in value]
    if isinstance(value, dict):
        return {str(k): norm(v) for k, v in value.items()}
    if value is None or isinstance(value, (bool, int, float, str)):
        return value
    if hasattr(value, "_asdict"):
        return {"nt": type(value).__name__, "fields": norm(value._asdict())}
    if hasattr(value, "hex") and hasattr(value, "hex_len"):
        try:
            return {"value": type(value).__name__, "hex": value.hex(), "int": getattr(value, "int", None)}
        except Exception as error:      # noqa
            return {"value": type(value).__name__, "hex_error": repr(error)}
    return {"repr": type(value).__name__ + ":" + str(value)}


def snapshot(directory):
    files = {}
    for root, _, names in os.walk(directory):
        for name in sorted(names):
            path = os.path.join(root, name)
            with open(path, "rb") as handle:
                blob = handle.read()
            files[os.path.relpath(path, directory)] = [len(blob), hashlib.sha1(blob).hexdigest()]
    return files


def case(name, fn, workdir=None):
    """Runs fn(), records value / exception / stdout / stderr / files left in workdir."""
    out, err = io.StringIO(), io.StringIO()
    record = {"name": name}
    old_cwd = os.getcwd()
    if workdir:
        os.chdir(workdir)
    try:
        with contextlib.redirect_stdout(out), contextlib.redirect_stderr(err):
            try:
                record["value"] = norm(fn())
            except SystemExit as error:
                record["exit"] = norm(error.code)
            except BaseException as error:      # noqa
                record["exc"] = [type(error).__name__, str(error)]
    finally:
        os.chdir(old_cwd)
    record["stdout"] = out.getvalue()
    record["stderr"] = err.getvalue()
    if workdir:
        record["files"] = snapshot(workdir)
    RESULTS.append(record)
    return record


def fresh_dir(files=None):
    _case_no[0] += 1
    path = os.path.join(SCRATCH, "c%04d" % _case_no[0])
    os.makedirs(path)
    for name, content in (files or {}).items():
        mode = "wb" if isinstance(content, (bytes, bytearray)) else "w"
        os.makedirs(os.path.dirname(os.path.join(path, name)), exist_ok=True)
        with open(os.path.join(path, name), mode) as handle:
            handle.write(content)
    return path


def cli(module_name, argv):
    """Runs a command-line front end the way `python module.py argv...` would."""
    def run():
        module = importlib.import_module(module_name)
        assert os.path.realpath(module.__file__).startswith(TREE + os.sep)
        old = sys.argv
        sys.argv = [module_name + ".py"] + list(argv)
        try:
            module.main(module.parse_arguments())
        finally:
            sys.argv = old
    return run


def cli_case(name, module_name, argv, files=None, workdir=None, then=()):
    """One CLI run in a fresh (or given) directory, optionally followed by more runs in the same directory."""
    workdir = workdir or fresh_dir(files)
    case(name, cli(module_name, argv), workdir)
    for index, (module2, argv2) in enumerate(then):
        case("%s/then%d" % (name, index), cli(module2, argv2), workdir)
    return workdir


def finish():
    json.dump(RESULTS, sys.stdout)
    sys.stdout.write("\n")
# ---- end of prelude ----
'''

CASES = r'''# ---- shared C14 helpers: run a writer call on a CassetteFile and report the result AND the buffer, also after a failure ----
from cocoasm.virtualfiles.cassette import CassetteFile
from cocoasm.virtualfiles.coco_file import CoCoFile
from cocoasm.virtualfiles.virtual_file import VirtualFile, VirtualFileType
from cocoasm.virtualfiles.source_file import SourceFile, SourceFileType
from cocoasm.values import NumericValue, NoneValue, AddressValue


def safe(value):
    """Buffer contents can be anything once bad data has been fed in."""
    if isinstance(value, (list, tuple)):
        return [safe(x) for x in value]
    if value is None or isinstance(value, (bool, int, str)):
        return value if not isinstance(value, bool) else {"bool": value}
    if isinstance(value, float):
        return {"float": repr(value)}
    return {"repr": type(value).__name__ + ":" + repr(value)[:60]}


def digest(buffer):
    items = safe(list(buffer))
    if len(items) > 80 and all(isinstance(x, int) for x in items):
        return {"ints": len(items), "sha1": hashlib.sha1(",".join(map(str, items)).encode()).hexdigest(), "head": items[:24], "tail": items[-12:]}
    return items


def tape_op(operation, start=None):
    """operation(cassette) -> anything. Reports its value or exception together with the buffer it leaves behind."""
    def run():
        cassette = CassetteFile(buffer=list(start)) if start else CassetteFile()
        out = {}
        try:
            out["returned"] = safe(operation(cassette))
        except BaseException as error:      # noqa
            out["raised"] = [type(error).__name__, str(error)]
        out["buffer"] = digest(cassette.get_buffer())
        out["same_buffer_object"] = cassette.get_buffer() is cassette.buffer
        return out
    return run


def pattern(size, seed=7):
    return [(seed * i + 3) % 256 for i in range(size)]


def ml_file(size, name="PROGRAM", load=0x0E00, execute=0x0E10, seed=7, **extra):
    fields = dict(name=name, extension="BIN", type=NumericValue(2), data_type=NumericValue(0),
                  load_addr=NumericValue(load), exec_addr=NumericValue(execute), data=pattern(size, seed))
    fields.update(extra)
    return CoCoFile(**fields)


def basic_file(size, name="BASIC", ascii_flag=0x00, seed=5):
    return CoCoFile(name=name, extension="BAS", type=NumericValue(0), data_type=NumericValue(ascii_flag), data=pattern(size, seed))


SIZES = [0, 1, 2, 127, 128, 253, 254, 255, 256, 257, 509, 510, 511, 512, 764, 765, 766, 1000, 1020, 4096, 65535, 70125]


def asm_program(size, name="prog", origin="$0E00"):
    lines = []
    if name is not None:
        lines.append("        NAM %s\n" % name)
    if origin is not None:
        lines.append("        ORG %s\n" % origin)
    lines.append("START   LDA #$01\n")
    left, value = size - 2, 0
    while left > 0:
        chunk = min(left, 40)
        lines.append("        FCB %s\n" % ",".join(str((value + i) % 251) for i in range(chunk)))
        value += chunk
        left -= chunk
    lines.append("        END START\n")
    return "".join(lines)
# ---- end of shared C14 helpers ----
# ---- cases for C14/k: CassetteFile.append_header() / append_name() threading the checksum through put() ----
NAMES = ["", "A", "AB", "SEVENCH", "EIGHTCHR", "NINECHARS", "TWELVECHARS1", "lower", "MiXeD", "WITH SP", "  LEAD", "TRAIL  ", "12345678", "!@#$%^&*", "\0\0\0\0", "A\0B",
         "café", "€uro", "ÿÿÿÿÿÿÿÿ", "\U0001F600", "TAB\tX", "NL\nX", "~" * 8, " " * 8, " " * 9, "\x7f\x80\x81"]
for name in NAMES:
    case("name %r" % name, tape_op(lambda c, name=name: c.append_name(name)))
    case("header name %r" % name, tape_op(lambda c, name=name: c.append_header(ml_file(3, name))))
    case("add_file name %r" % name, tape_op(lambda c, name=name: c.add_file(ml_file(300, name))))

ADDRESSES = [0x0000, 0x0001, 0x00FF, 0x0100, 0x0E00, 0x7FFF, 0x8000, 0xFF00, 0xFFFE, 0xFFFF]
for load in ADDRESSES:
    for execute in ADDRESSES[::3] + [load]:
        case("header addresses %04X %04X" % (load, execute), tape_op(lambda c, load=load, execute=execute: c.append_header(ml_file(1, "ADDR", load, execute))))

VALUES = {
    "none-value": lambda: NoneValue(), "zero": lambda: NumericValue(0), "byte": lambda: NumericValue(0x7F), "hex2": lambda: NumericValue("$7F"),
    "hex4": lambda: NumericValue("$007F"), "hex4-big": lambda: NumericValue("$ABCD"), "hinted": lambda: NumericValue(5, size_hint=4), "negative": lambda: NumericValue(-2),
    "negative-word": lambda: NumericValue(-300), "address": lambda: AddressValue(0x1234), "address-small": lambda: AddressValue(5), "address-odd": lambda: AddressValue(0x123),
    "char": lambda: NumericValue("'A"), "binary8": lambda: NumericValue("%10101010"), "binary16": lambda: NumericValue("%1010101001010101"), "max": lambda: NumericValue(65535),
}
for label, maker in VALUES.items():
    case("header load %s" % label, tape_op(lambda c, maker=maker: c.append_header(ml_file(1, "V", 0, 0, load_addr=maker()))))
    case("header exec %s" % label, tape_op(lambda c, maker=maker: c.append_header(ml_file(1, "V", 0, 0, exec_addr=maker()))))
    case("header type %s" % label, tape_op(lambda c, maker=maker: c.append_header(ml_file(1, "V", 0, 0, type=maker()))))
    case("header data_type %s" % label, tape_op(lambda c, maker=maker: c.append_header(ml_file(1, "V", 0, 0, data_type=maker()))))
for file_type in [0, 1, 2, 3, 0xFF]:
    for data_type in [0x00, 0xFF, 0x7F]:
        case("header type %02X data %02X" % (file_type, data_type),
             tape_op(lambda c, file_type=file_type, data_type=data_type: c.append_header(ml_file(1, "T", type=NumericValue(file_type), data_type=NumericValue(data_type)))))
case("header default CoCoFile", tape_op(lambda c: c.append_header(CoCoFile())))
case("header name only", tape_op(lambda c: c.append_header(CoCoFile(name="ONLY"))))
case("header onto existing tape", tape_op(lambda c: c.append_header(ml_file(1, "NEXT")), start=[9, 9, 9]))
case("two headers", tape_op(lambda c: [c.append_header(ml_file(1, "ONE")), c.append_header(ml_file(1, "TWO", 0xFFFF, 0xFFFF))]))

# names that are not strings, fields that are missing
POISON = {
    "none": None, "int": 5, "bytes": b"ABC", "bytes-long": b"ABCDEFGHIJ", "empty-bytes": b"", "list-of-chars": ["A", "B", "C"], "list-long": list("ABCDEFGHIJ"),
    "list-bad-third": ["A", "B", 3, "D"], "list-bad-ninth": list("ABCDEFGH") + [9], "list-two-char-item": ["A", "BC"], "list-none-item": ["A", None],
    "tuple": ("X", "Y"), "empty-list": [], "float": 1.5, "dict": {"A": 1}, "bytearray": bytearray(b"AB"),
}
for label, name in POISON.items():
    case("name poison %s" % label, tape_op(lambda c, name=name: c.append_name(name)))
    case("header poison name %s" % label, tape_op(lambda c, name=name: c.append_header(ml_file(1, name))))
    case("add_file poison name %s" % label, tape_op(lambda c, name=name: c.add_file(ml_file(1, name))))
for field in ["type", "data_type", "load_addr", "exec_addr"]:
    case("header %s None" % field, tape_op(lambda c, field=field: c.append_header(ml_file(1, "F", **{field: None}))))
    case("header %s plain int" % field, tape_op(lambda c, field=field: c.append_header(ml_file(1, "F", **{field: 5}))))
case("header None", tape_op(lambda c: c.append_header(None)))
case("header missing argument", tape_op(lambda c: c.append_header()))
case("name missing argument", tape_op(lambda c: c.append_name()))

# whole tapes and the reader's view of them
for label, files in [
    ("three", [ml_file(10, "ALPHA"), ml_file(700, "beta", 0x3F00, 0x3F01, 11), basic_file(255, "GAMMA")]),
    ("names", [ml_file(4, name) for name in NAMES[:12]]),
    ("basic+ascii", [basic_file(20, "B"), basic_file(20, "T", 0xFF)]),
]:
    def tape(c, files=files):
        c.add_files(files)
        listed = CassetteFile(buffer=list(c.get_buffer())).list_files()
        return [[f.name, f.extension, f.type.hex(), f.data_type.hex(), f.gaps.hex(), f.load_addr.hex(), f.exec_addr.hex(), len(f.data)] for f in listed]
    case("tape " + label, tape_op(tape))

for name in ["a", "EightChr", "twelvechars1"]:
    cli_case("cli cas name %s" % name, "assembler", ["p.asm", "--to_cas", "p.cas"], files={"p.asm": asm_program(300, name, "$3F00")},
             then=[("file_util", ["p.cas", "--list"]), ("file_util", ["p.cas", "--to_cas", "copy.cas"]), ("file_util", ["copy.cas", "--list"])])
cli_case("cli cas argname", "assembler", ["p.asm", "--to_cas", "p.cas", "--name", "fromarg"], files={"p.asm": asm_program(30, None, None)},
         then=[("file_util", ["p.cas", "--list"])])
'''


def run_tree(tree):
    tree = os.path.realpath(tree)
    with tempfile.TemporaryDirectory(prefix="equiv_") as tmp:
        driver = os.path.join(tmp, "driver.py")
        with open(driver, "w") as handle:
            handle.write(PRELUDE + "\n" + CASES + "\nfinish()\n")
        scratch = os.path.join(tmp, "scratch")
        os.mkdir(scratch)
        env = dict(os.environ, PYTHONDONTWRITEBYTECODE="1", PYTHONHASHSEED="0")
        env.pop("PYTHONPATH", None)
        proc = subprocess.run(
            [sys.executable, "-B", driver, tree, scratch],
            cwd=tree, env=env, capture_output=True, text=True,
        )
        if proc.returncode != 0:
            print("driver failed in", tree)
            print(proc.stderr[-4000:])
            sys.exit(2)
        return json.loads(proc.stdout.splitlines()[-1])


def main():
    if len(sys.argv) != 3:
        print("usage: equiv.py <treeA> <treeB>")
        sys.exit(2)
    res_a = run_tree(sys.argv[1])
    res_b = run_tree(sys.argv[2])
    bad = 0
    if [r["name"] for r in res_a] != [r["name"] for r in res_b]:
        print("case lists differ")
        bad += 1
    for rec_a, rec_b in zip(res_a, res_b):
        if rec_a != rec_b:
            bad += 1
            print("DIFF in case", rec_a["name"])
            for key in sorted(set(rec_a) | set(rec_b)):
                if rec_a.get(key) != rec_b.get(key):
                    print("   ", key, ":", repr(rec_a.get(key))[:300], "!=", repr(rec_b.get(key))[:300])
    errors = sum(1 for r in res_a if "exc" in r or "exit" in r)
    print("%d cases compared (%d of them end in an exception/exit), %d differ" % (len(res_a), errors, bad))
    sys.exit(1 if bad else 0)


if __name__ == "__main__":
    main()
