#!/usr/bin/env python
"""
Differential demonstration for property C19 (INCLUDE is textual inclusion).

usage: equiv.py <treeA> <treeB>

Each tree is exercised in its own subprocess (tree at the front of sys.path,
cwd = a scratch directory populated with the case's files). For every case the
driver records

  * library level: Program().process(...) listing, symbol table, image bytes,
    origin, name, or exception type / message / offending statement,
  * unit level: Statement.get_include_filename, SourceFile readers,
    Program.process_mnemonics called directly,
  * CLI level: assembler.py stdout, exit status, last stderr line and every
    file left behind in the working directory.

The two JSON records are compared; exit 0 if identical, 1 otherwise.
"""
import json
import os
import shutil
import subprocess
import sys
import tempfile

# ---------------------------------------------------------------------------
# Cases: name -> (dict of files (bytes or str), name of the main file)
# ---------------------------------------------------------------------------

BODY_A = (
    "        ORG   $0E00\n"
    "START   LDA   #$01\n"
    "        LDX   #TABLE\n"
    "LOOP    STA   ,X+\n"
    "        DECB\n"
    "        BNE   LOOP\n"
)
BODY_B = (
    "MIDDLE  LDY   TABLE,PCR\n"
    "        LEAX  START,PCR\n"
    "        LBRA  FINISH\n"
    "        BRA   MIDDLE\n"
    "        JSR   START\n"
)
BODY_C = (
    "TABLE   FCB   $01,$02,$03\n"
    "WORDS   FDB   $1234,$5678\n"
    "MSG     FCC   'HELLO'\n"
    "FINISH  RTS\n"
    "        END   START\n"
)


def cases():
    c = {}

    def add(name, files, main="main.asm"):
        assert name not in c
        c[name] = (files, main)

    add("flat_reference", {"main.asm": BODY_A + BODY_B + BODY_C})
    add("include_at_end", {"main.asm": BODY_A + BODY_B + "        INCLUDE tail.asm\n", "tail.asm": BODY_C})
    add("include_at_start", {"main.asm": "        INCLUDE head.asm\n" + BODY_B + BODY_C, "head.asm": BODY_A})
    add("include_in_middle", {"main.asm": BODY_A + "        INCLUDE mid.asm\n" + BODY_C, "mid.asm": BODY_B})
    add("three_includes_only", {
        "main.asm": "        INCLUDE a.asm\n        INCLUDE b.asm\n        INCLUDE c.asm\n",
        "a.asm": BODY_A, "b.asm": BODY_B, "c.asm": BODY_C})
    add("nested_depth_2", {
        "main.asm": BODY_A + "        INCLUDE b.asm\n",
        "b.asm": BODY_B + "        INCLUDE c.asm\n", "c.asm": BODY_C})
    add("nested_depth_3", {
        "main.asm": "        INCLUDE l1.asm\n",
        "l1.asm": BODY_A + "        INCLUDE l2.asm\n",
        "l2.asm": BODY_B + "        INCLUDE l3.asm\n",
        "l3.asm": BODY_C})
    add("nested_then_continue", {
        "main.asm": BODY_A + "        INCLUDE l1.asm\n" + "FINISH  RTS\n        END   START\n",
        "l1.asm": "        INCLUDE l2.asm\nTABLE   FCB   1,2,3\n",
        "l2.asm": BODY_B})
    # split every statement of the flat program at every boundary
    flat = (BODY_A + BODY_B + BODY_C).splitlines(keepends=True)
    for cut in (1, 2, 4, 6, 7, 9, 11, 12, 14, 15):
        add("split_at_%02d" % cut, {
            "main.asm": "".join(flat[:cut]) + "        INCLUDE rest.asm\n",
            "rest.asm": "".join(flat[cut:])})
    for cut in (3, 8, 13):
        add("split_head_at_%02d" % cut, {
            "main.asm": "        INCLUDE first.asm\n" + "".join(flat[cut:]),
            "first.asm": "".join(flat[:cut])})
    add("forward_ref_into_include", {
        "main.asm": "        LDA   VALUE\n        JMP   THERE\n        INCLUDE inc.asm\n",
        "inc.asm": "VALUE   FCB   $42\nTHERE   RTS\n"})
    add("backward_ref_from_include", {
        "main.asm": "HERE    NOP\nCONST   EQU   $20\n        INCLUDE inc.asm\n",
        "inc.asm": "        LDA   #CONST\n        BRA   HERE\n        LBSR  HERE\n"})
    add("equ_defined_in_include", {
        "main.asm": "        INCLUDE defs.asm\n        LDA   #SMALL\n        LDX   BIG\n        STA   <SMALL\n",
        "defs.asm": "SMALL   EQU   $10\nBIG     EQU   $1234\n"})
    add("org_and_name_in_include", {
        "main.asm": "        INCLUDE hdr.asm\nGO      CLRA\n        END   GO\n",
        "hdr.asm": "        NAM   PROG\n        ORG   $3F00\n"})
    add("same_file_twice_no_labels", {
        "main.asm": "        INCLUDE nop.asm\n        CLRA\n        INCLUDE nop.asm\n",
        "nop.asm": "        NOP\n        NOP\n"})
    add("same_file_twice_with_label", {
        "main.asm": "        INCLUDE lab.asm\n        INCLUDE lab.asm\n",
        "lab.asm": "DUP     NOP\n"})
    add("diamond_no_labels", {
        "main.asm": "        INCLUDE b.asm\n        INCLUDE c.asm\n",
        "b.asm": "        CLRA\n        INCLUDE d.asm\n",
        "c.asm": "        CLRB\n        INCLUDE d.asm\n",
        "d.asm": "        RTS\n"})
    add("diamond_with_labels", {
        "main.asm": "        INCLUDE b.asm\n        INCLUDE c.asm\n",
        "b.asm": "        INCLUDE d.asm\n", "c.asm": "        INCLUDE d.asm\n",
        "d.asm": "LEAF    RTS\n"})
    add("label_redefined_across_boundary", {
        "main.asm": "X1      NOP\n        INCLUDE i.asm\n", "i.asm": "X1      NOP\n"})
    add("cycle_self", {"main.asm": "        NOP\n        INCLUDE self.asm\n",
                       "self.asm": "        NOP\n        INCLUDE self.asm\n"})
    add("cycle_main_includes_main", {"main.asm": "        NOP\n        INCLUDE main.asm\n"})
    add("cycle_of_two", {"main.asm": "        INCLUDE a.asm\n",
                         "a.asm": "        INCLUDE b.asm\n", "b.asm": "        CLRA\n        INCLUDE a.asm\n"})
    add("cycle_of_three", {"main.asm": "        INCLUDE a.asm\n", "a.asm": "AA      INCLUDE b.asm ; to b\n",
                           "b.asm": "        INCLUDE c.asm\n", "c.asm": "CC      INCLUDE a.asm ; back\n"})
    add("cycle_by_other_spelling", {"main.asm": "        INCLUDE a.asm\n",
                                    "a.asm": "        NOP\n        INCLUDE ./a.asm\n"})
    add("missing_file", {"main.asm": "        NOP\nLBL     INCLUDE nothere.asm ; gone\n        NOP\n"})
    add("missing_file_nested", {"main.asm": "        INCLUDE a.asm\n", "a.asm": "        INCLUDE gone.asm\n"})
    add("missing_after_good", {"main.asm": "        INCLUDE a.asm\n        INCLUDE gone.asm\n", "a.asm": "  NOP\n"})
    add("cycle_before_missing", {"main.asm": "        INCLUDE a.asm\n        INCLUDE gone.asm\n",
                                 "a.asm": "        INCLUDE a.asm\n"})
    add("include_a_directory", {"main.asm": "        INCLUDE sub\n", "sub/x.asm": "  NOP\n"})
    add("include_in_subdirectory", {"main.asm": "        INCLUDE sub/x.asm\n        BRA   SUBL\n",
                                    "sub/x.asm": "SUBL    NOP\n        INCLUDE sub/y.asm\n",
                                    "sub/y.asm": "        CLRA\n"})
    add("subdir_relative_to_includer_fails", {"main.asm": "        INCLUDE sub/x.asm\n",
                                              "sub/x.asm": "        INCLUDE y.asm\n", "sub/y.asm": "  CLRA\n"})
    add("empty_include", {"main.asm": "A1      NOP\n        INCLUDE e.asm\nA2      NOP\n", "e.asm": ""})
    add("comment_only_include", {"main.asm": "A1      NOP\n        INCLUDE e.asm\nA2      NOP\n",
                                 "e.asm": "; nothing here\n\n   \n   ; more nothing\n"})
    add("include_without_operand", {"main.asm": "        NOP\n        INCLUDE\n        NOP\n"})
    add("include_without_operand_comment", {"main.asm": "        NOP\n        INCLUDE   ; x.asm\n", "x.asm": " NOP\n"})
    add("include_with_label", {"main.asm": "HERE    INCLUDE i.asm\n        BRA   HERE\n", "i.asm": "        NOP\n"})
    add("include_lowercase", {"main.asm": "        include i.asm\n", "i.asm": "low     nop\n"})
    add("include_with_comment", {"main.asm": "        INCLUDE i.asm ; pulls in i\n", "i.asm": "        NOP ; c\n"})
    add("include_quoted_name", {"main.asm": "        INCLUDE \"i.asm\"\n", "i.asm": "        NOP\n"})
    add("include_name_with_odd_chars", {"main.asm": "        INCLUDE i~1.asm\n", "i~1.asm": "        NOP\n"})
    add("include_numeric_name", {"main.asm": "        INCLUDE 123\n", "123": "        CLRB\n"})
    add("include_dollar_name", {"main.asm": "        INCLUDE $FF\n", "$FF": "        CLRB\n"})
    add("bad_mnemonic_in_include", {"main.asm": "        NOP\n        INCLUDE bad.asm\n", "bad.asm": "        FOO   $12\n"})
    add("bad_operand_in_include", {"main.asm": "        NOP\n        INCLUDE bad.asm\n", "bad.asm": "        LDA   #$1FFFF\n"})
    add("undefined_symbol_in_include", {"main.asm": "        INCLUDE u.asm\n", "u.asm": "        JMP   NOWHERE\n"})
    add("branch_out_of_range_across", {
        "main.asm": "        BRA   FAR\n        INCLUDE pad.asm\nFAR     RTS\n",
        "pad.asm": "        RMB   200\n"})
    add("crlf_include", {"main.asm": "        INCLUDE dos.asm\n", "dos.asm": b"L1      NOP\r\n        BRA   L1\r\n"})
    add("cr_only_include", {"main.asm": "        INCLUDE mac.asm\n", "mac.asm": b"L1      NOP\r        BRA   L1\r"})
    add("no_trailing_newline", {"main.asm": "        INCLUDE n.asm\n        NOP", "n.asm": "L1      NOP\n        BRA   L1"})
    add("formfeed_in_include", {"main.asm": "        INCLUDE ff.asm\n", "ff.asm": b"        NOP\x0c\n        CLRA\n"})
    add("non_utf8_include", {"main.asm": "        INCLUDE bin.asm\n", "bin.asm": b"        NOP ; \xff\xfe\n"})
    add("main_missing", {}, main="main.asm")
    add("main_is_include_only_of_empty", {"main.asm": "        INCLUDE e.asm\n", "e.asm": "\n"})
    add("pcr_sizes_across", {
        "main.asm": "        LEAX  NEAR,PCR\n        LEAY  FAR,PCR\n        INCLUDE a.asm\nFAR     RTS\n",
        "a.asm": "NEAR    NOP\n        INCLUDE pad.asm\n", "pad.asm": "        RMB   300\n"})
    return c


# ---------------------------------------------------------------------------
# Driver: runs inside one tree
# ---------------------------------------------------------------------------

def populate(files):
    for name, content in files.items():
        directory = os.path.dirname(name)
        if directory:
            os.makedirs(directory, exist_ok=True)
        mode = "wb" if isinstance(content, bytes) else "w"
        with open(name, mode) as handle:
            handle.write(content)


def snapshot_dir():
    found = {}
    for root, dirs, files in os.walk("."):
        dirs.sort()
        for name in sorted(files):
            path = os.path.join(root, name)
            with open(path, "rb") as handle:
                found[path] = handle.read().hex()
    return found


def describe_exception(error):
    record = {"type": type(error).__name__}
    if hasattr(error, "value"):
        record["value"] = repr(error.value)
    record["str"] = str(error)
    statement = getattr(error, "statement", None)
    if statement is not None:
        try:
            record["statement"] = str(statement)
        except Exception as inner:
            record["statement"] = "unprintable: %s %s" % (type(inner).__name__, inner)
    context = error.__context__
    record["context"] = None if context is None else "%s: %s" % (type(context).__name__, context)
    return record


def library_run(main):
    from cocoasm.program import Program
    from cocoasm.virtualfiles.source_file import SourceFile
    record = {}
    try:
        source = SourceFile(main)
        source.read_file()
        program = Program()
        program.process(source.get_buffer())
        record["statements"] = program.get_statements()
        record["symbols"] = program.get_symbol_table()
        record["binary"] = program.get_binary_array()
        record["origin"] = program.origin.hex()
        record["name"] = program.name
        record["count"] = len(program.statements)
    except BaseException as error:
        record["error"] = describe_exception(error)
    return record


def expansion_run(main):
    """Calls parse + process_mnemonics directly and dumps the flat statement list."""
    from cocoasm.program import Program
    from cocoasm.virtualfiles.source_file import SourceFile
    record = {}
    try:
        lines = SourceFile.read_assembly_contents(main)
        record["lines"] = lines
        parsed = Program.parse(lines)
        before = list(parsed)
        flat = Program.process_mnemonics(parsed)
        record["input_untouched"] = (parsed == before and all(a is b for a, b in zip(parsed, before)))
        record["flat"] = [
            [s.label, s.mnemonic, s.operand.operand_string, s.comment, s.get_include_filename()] for s in flat
        ]
        # a caller-supplied chain of names already being included
        try:
            again = Program.process_mnemonics(Program.parse(lines), ("a.asm", "i.asm"))
            record["with_chain"] = [[s.label, s.mnemonic, s.operand.operand_string] for s in again]
        except BaseException as error:
            record["with_chain_error"] = describe_exception(error)
    except BaseException as error:
        record["error"] = describe_exception(error)
    return record


def cli_run(tree, main):
    command = [sys.executable, os.path.join(tree, "assembler.py"), main,
               "--symbols", "--print", "--to_bin", "out.bin"]
    done = subprocess.run(command, capture_output=True, text=True)
    stderr_lines = [line for line in done.stderr.splitlines() if line.strip()]
    return {
        "returncode": done.returncode,
        "stdout": done.stdout,
        "stderr_last": stderr_lines[-1] if stderr_lines else "",
        "files": snapshot_dir(),
    }


def unit_run():
    from cocoasm.statement import Statement
    from cocoasm.virtualfiles.source_file import SourceFile, SourceFileType
    record = {"include_filename": {}, "readers": {}}
    lines = [
        "        INCLUDE other.asm", "        include other.asm", "LBL     INCLUDE a/b/c.asm ; comment",
        "        INCLUDE", "        INCLUDE    ; only comment", "        INCLUDE \"q.asm\"", "        INCLUDE 0",
        "        INCLUDE $10", "        INCLUDE #1", "        INCLUDE <x", "        INCLUDE A,X", "        INCLUDE [x]",
        "        NOP", "        LDA   #$10", "X       EQU   $10", "        FCC   'INCLUDE'", "        ORG   $1000",
        "        NAM   INCLUDE", "        END   X", "        FCB   1,2", "        RMB   4", "        SETDP $10",
    ]
    for line in lines + [text + "\n" for text in lines]:
        try:
            record["include_filename"][line] = repr(Statement(line).get_include_filename())
        except BaseException as error:
            record["include_filename"][line] = describe_exception(error)
    for line in ("; comment only", "   ", ""):
        try:
            record["include_filename"][repr(line)] = repr(Statement(line).get_include_filename())
        except BaseException as error:
            record["include_filename"][repr(line)] = describe_exception(error)

    samples = {
        "unix.txt": b"a\nb\nc\n", "dos.txt": b"a\r\nb\r\n", "mac.txt": b"a\rb\r", "mixed.txt": b"a\r\nb\nc\rd",
        "empty.txt": b"", "nonl.txt": b"abc", "blank.txt": b"\n\n\n", "ff.txt": b"a\x0cb\n\x0b\n\x1c\n",
        "bad.txt": b"\xff\xfe\n", "u8.txt": "café\n x\n".encode("utf-8"),
    }
    for name, content in samples.items():
        with open(name, "wb") as handle:
            handle.write(content)
    os.mkdir("adir")
    for name in list(samples) + ["absent.txt", "adir", ""]:
        entry = {}
        try:
            entry["static"] = SourceFile.read_assembly_contents(name)
        except BaseException as error:
            entry["static"] = describe_exception(error)
        for label, kwargs in (("default", {}), ("assembly", {"file_type": SourceFileType.ASSEMBLY}),
                              ("binary", {"file_type": SourceFileType.BINARY}), ("other", {"file_type": 7})):
            try:
                source = SourceFile(name, **kwargs)
                first = source.get_buffer()
                source.read_file()
                entry[label] = [first, source.get_buffer(), source.get_file_name()]
            except BaseException as error:
                entry[label] = describe_exception(error)
        record["readers"][name] = entry
    for name in list(samples):
        os.remove(name)
    os.rmdir("adir")
    return record


def driver(tree):
    sys.path.insert(0, tree)
    results = {}
    scratch = tempfile.mkdtemp(prefix="c19equiv_")
    try:
        unit_dir = os.path.join(scratch, "_unit")
        os.mkdir(unit_dir)
        os.chdir(unit_dir)
        results["_unit"] = unit_run()
        for name, (files, main) in cases().items():
            work = os.path.join(scratch, name)
            os.mkdir(work)
            os.chdir(work)
            populate(files)
            results[name] = {
                "library": library_run(main),
                "expansion": expansion_run(main),
                "cli": cli_run(tree, main),
            }
            os.chdir(scratch)
    finally:
        os.chdir("/")
        shutil.rmtree(scratch, ignore_errors=True)
    import cocoasm.program
    assert os.path.realpath(cocoasm.program.__file__).startswith(os.path.realpath(tree) + os.sep), \
        "driver imported cocoasm from the wrong tree"
    json.dump(results, sys.stdout, sort_keys=True)


# ---------------------------------------------------------------------------
# Comparison
# ---------------------------------------------------------------------------

def run_tree(tree):
    tree = os.path.abspath(tree)
    env = dict(os.environ)
    env.pop("PYTHONPATH", None)
    env["PYTHONDONTWRITEBYTECODE"] = "1"
    done = subprocess.run([sys.executable, os.path.abspath(__file__), "--driver", tree],
                          capture_output=True, text=True, env=env, cwd=tree)
    if done.returncode != 0:
        sys.stderr.write(done.stderr)
        raise SystemExit("driver failed for %s" % tree)
    return json.loads(done.stdout)


def diff(path, a, b, out):
    if type(a) is not type(b):
        out.append("%s: %r != %r" % (path, a, b))
    elif isinstance(a, dict):
        for key in sorted(set(a) | set(b)):
            if key not in a or key not in b:
                out.append("%s/%s: present in only one tree" % (path, key))
            else:
                diff("%s/%s" % (path, key), a[key], b[key], out)
    elif a != b:
        out.append("%s: %r != %r" % (path, a, b))


def main():
    if len(sys.argv) == 3 and sys.argv[1] == "--driver":
        driver(sys.argv[2])
        return 0
    if len(sys.argv) != 3:
        print(__doc__)
        return 2
    result_a = run_tree(sys.argv[1])
    result_b = run_tree(sys.argv[2])
    differences = []
    diff("", result_a, result_b, differences)
    n_cases = len(result_a) - 1
    ok = sum(1 for name in result_a if name != "_unit" and "error" not in result_a[name]["library"])
    print("%d include cases (%d assemble, %d diagnose) + %d get_include_filename probes + %d reader probes" % (
        n_cases, ok, n_cases - ok, len(result_a["_unit"]["include_filename"]),
        len(result_a["_unit"]["readers"])))
    if differences:
        print("DIFFERENCES (%d):" % len(differences))
        for line in differences[:40]:
            print("  " + line)
        return 1
    print("all observable results agree")
    return 0


if __name__ == "__main__":
    sys.exit(main())
