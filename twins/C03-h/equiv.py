#!/venv/bin/python
"""
Differential check: run the same inputs through the code of two source trees
and compare every observable result.

usage: equiv.py <treeA> <treeB>      exit 0 = all results agree, 1 = differ

Refactoring C03/h: the size fixpoint loop of Program.translate_statements visits the positions returned by the new method
Program.undecided_positions() (collected before the first visit); Program.all_sizes_fixed is expressed through the same method.
Inputs: programs with 0..6 label,PCR / [label,PCR] statements whose widths depend on each other, at distances around the 8-bit limit in
both directions, failing PCR statements (undefined label, error in the middle of several), Program.all_sizes_fixed() on hand-made
statement lists, CLI listings, and every mnemonic x ~150 operand forms.
"""
import hashlib
import json
import os
import subprocess
import sys
import tempfile

# --------------------------------------------------------------------------
# inputs
# --------------------------------------------------------------------------

# Operand forms put behind every mnemonic of the instruction table.
OPERAND_FORMS = [
    "", "#$12", "#$1234", "#V8", "#V16", "#-1", "#-200", "#'A", "#%10101010", "#TARGET",
    "$12", "$1234", "<$12", ">$12", "<$1234", ">$1234", "V8", "V16", "<V16", ">V8",
    "TARGET", "START", "200", "255", "256", "300", "-5", "%00001111", "%0000111100001111",
    "[$1234]", "[$12]", "[TARGET]", "[V16]", "[V8]",
    ",X", ",Y", ",U", ",S", "0,X", "-0,X", "1,X", "15,Y", "16,U", "-16,S", "-17,X", "127,X", "128,X",
    "-128,Y", "-129,Y", "$10,X", "$0010,X", "$1000,X", "32767,X", "-32768,X", "65535,X",
    "A,X", "B,Y", "D,U", "A,S", ",X+", ",X++", ",-Y", ",--Y", ",S+", ",--U",
    "[,X]", "[,Y]", "[,X++]", "[,--S]", "[,X+]", "[,-X]", "[A,X]", "[B,Y]", "[D,S]",
    "[0,X]", "[5,X]", "[-5,X]", "[127,X]", "[128,X]", "[-128,X]", "[-129,X]", "[$1000,U]", "[$10,U]",
    "5,PCR", "$12,PCR", "$1234,PCR", "-3,PCR", "TARGET,PCR", "START,PCR", "TARGET+2,PCR", "FAR,PCR",
    "[TARGET,PCR]", "[5,PCR]", "[$1234,PCR]", "[FAR,PCR]", "[TARGET-1,PCR]",
    "V8,X", "V16,X", "TARGET,X", "V8+1,X", "[V8,X]", "[V16,Y]",
    "V8+1", "V16-V8", "TARGET+1", "TARGET-V8", "V8*2", "V16/2", "#V8+1", "#TARGET+1", "$10+$20", "5+5",
    "A,B", "X,Y", "D,X", "CC,DP", "PC,S", "B,A", "DP,CC", "Y,PC", "A,B,X", "U", "S", "Z,X", "A", "Q",
    "X,Y,U,S,PC,CC,DP,A,B", "D,X,Y", "CC", "PC,U,Y,X,DP,B,A,CC", "A,A",
    "\"AB\"", "/hello/", "1,2,3", "$1234,$5678", "-1,-2", "10", "0", "65535", "65536", "-32768", "-32769",
    "$12345", "%101", "'A", "NOSUCH", "NOSUCH,X", "#NOSUCH", "X+,Y", "1,X+", "foo bar",
]

CORPUS_TEMPLATE = [
    "        ORG   $0E00",
    "V8      EQU   $12",
    "V16     EQU   $1234",
    "START   {mnemonic} {operand}",
    "        NOP",
    "TARGET  NOP",
    "        RMB   200",
    "FAR     RTS",
]

# Hand written programs: (name, [source lines])
CASES = [
    ('one forward 0', [' ORG $1000', 'S LEAX T,PCR', ' RMB 0', 'T NOP', 'E LDX #E']),
    ('one backward 0', [' ORG $1000', 'T NOP', ' RMB 0', 'S LEAX T,PCR', 'E LDX #E']),
    ('nest 0',
     [' ORG $1000',
      'A LEAX D,PCR',
      'B LEAY C,PCR',
      ' LDA [A,PCR]',
      ' RMB 0',
      'C LEAU B,PCR',
      ' LDD C+1,PCR',
      'D LEAS A,PCR',
      'E LDX #E',
      ' BRA A',
      ' LBRA D']),
    ('six 0',
     [' ORG 0',
      'L0 LEAX L5,PCR',
      'L1 LEAX L4,PCR',
      'L2 LEAX L3,PCR',
      ' RMB 0',
      'L3 LEAX L2,PCR',
      'L4 LEAX L1,PCR',
      'L5 LEAX L0,PCR',
      'E LDX #E']),
    ('one forward 1', [' ORG $1000', 'S LEAX T,PCR', ' RMB 1', 'T NOP', 'E LDX #E']),
    ('one backward 1', [' ORG $1000', 'T NOP', ' RMB 1', 'S LEAX T,PCR', 'E LDX #E']),
    ('nest 1',
     [' ORG $1000',
      'A LEAX D,PCR',
      'B LEAY C,PCR',
      ' LDA [A,PCR]',
      ' RMB 1',
      'C LEAU B,PCR',
      ' LDD C+1,PCR',
      'D LEAS A,PCR',
      'E LDX #E',
      ' BRA A',
      ' LBRA D']),
    ('six 1',
     [' ORG 0',
      'L0 LEAX L5,PCR',
      'L1 LEAX L4,PCR',
      'L2 LEAX L3,PCR',
      ' RMB 1',
      'L3 LEAX L2,PCR',
      'L4 LEAX L1,PCR',
      'L5 LEAX L0,PCR',
      'E LDX #E']),
    ('one forward 100', [' ORG $1000', 'S LEAX T,PCR', ' RMB 100', 'T NOP', 'E LDX #E']),
    ('one backward 100', [' ORG $1000', 'T NOP', ' RMB 100', 'S LEAX T,PCR', 'E LDX #E']),
    ('nest 100',
     [' ORG $1000',
      'A LEAX D,PCR',
      'B LEAY C,PCR',
      ' LDA [A,PCR]',
      ' RMB 100',
      'C LEAU B,PCR',
      ' LDD C+1,PCR',
      'D LEAS A,PCR',
      'E LDX #E',
      ' BRA A',
      ' LBRA D']),
    ('six 100',
     [' ORG 0',
      'L0 LEAX L5,PCR',
      'L1 LEAX L4,PCR',
      'L2 LEAX L3,PCR',
      ' RMB 100',
      'L3 LEAX L2,PCR',
      'L4 LEAX L1,PCR',
      'L5 LEAX L0,PCR',
      'E LDX #E']),
    ('one forward 117', [' ORG $1000', 'S LEAX T,PCR', ' RMB 117', 'T NOP', 'E LDX #E']),
    ('one backward 117', [' ORG $1000', 'T NOP', ' RMB 117', 'S LEAX T,PCR', 'E LDX #E']),
    ('nest 117',
     [' ORG $1000',
      'A LEAX D,PCR',
      'B LEAY C,PCR',
      ' LDA [A,PCR]',
      ' RMB 117',
      'C LEAU B,PCR',
      ' LDD C+1,PCR',
      'D LEAS A,PCR',
      'E LDX #E',
      ' BRA A',
      ' LBRA D']),
    ('six 117',
     [' ORG 0',
      'L0 LEAX L5,PCR',
      'L1 LEAX L4,PCR',
      'L2 LEAX L3,PCR',
      ' RMB 117',
      'L3 LEAX L2,PCR',
      'L4 LEAX L1,PCR',
      'L5 LEAX L0,PCR',
      'E LDX #E']),
    ('one forward 118', [' ORG $1000', 'S LEAX T,PCR', ' RMB 118', 'T NOP', 'E LDX #E']),
    ('one backward 118', [' ORG $1000', 'T NOP', ' RMB 118', 'S LEAX T,PCR', 'E LDX #E']),
    ('nest 118',
     [' ORG $1000',
      'A LEAX D,PCR',
      'B LEAY C,PCR',
      ' LDA [A,PCR]',
      ' RMB 118',
      'C LEAU B,PCR',
      ' LDD C+1,PCR',
      'D LEAS A,PCR',
      'E LDX #E',
      ' BRA A',
      ' LBRA D']),
    ('six 118',
     [' ORG 0',
      'L0 LEAX L5,PCR',
      'L1 LEAX L4,PCR',
      'L2 LEAX L3,PCR',
      ' RMB 118',
      'L3 LEAX L2,PCR',
      'L4 LEAX L1,PCR',
      'L5 LEAX L0,PCR',
      'E LDX #E']),
    ('one forward 119', [' ORG $1000', 'S LEAX T,PCR', ' RMB 119', 'T NOP', 'E LDX #E']),
    ('one backward 119', [' ORG $1000', 'T NOP', ' RMB 119', 'S LEAX T,PCR', 'E LDX #E']),
    ('nest 119',
     [' ORG $1000',
      'A LEAX D,PCR',
      'B LEAY C,PCR',
      ' LDA [A,PCR]',
      ' RMB 119',
      'C LEAU B,PCR',
      ' LDD C+1,PCR',
      'D LEAS A,PCR',
      'E LDX #E',
      ' BRA A',
      ' LBRA D']),
    ('six 119',
     [' ORG 0',
      'L0 LEAX L5,PCR',
      'L1 LEAX L4,PCR',
      'L2 LEAX L3,PCR',
      ' RMB 119',
      'L3 LEAX L2,PCR',
      'L4 LEAX L1,PCR',
      'L5 LEAX L0,PCR',
      'E LDX #E']),
    ('one forward 120', [' ORG $1000', 'S LEAX T,PCR', ' RMB 120', 'T NOP', 'E LDX #E']),
    ('one backward 120', [' ORG $1000', 'T NOP', ' RMB 120', 'S LEAX T,PCR', 'E LDX #E']),
    ('nest 120',
     [' ORG $1000',
      'A LEAX D,PCR',
      'B LEAY C,PCR',
      ' LDA [A,PCR]',
      ' RMB 120',
      'C LEAU B,PCR',
      ' LDD C+1,PCR',
      'D LEAS A,PCR',
      'E LDX #E',
      ' BRA A',
      ' LBRA D']),
    ('six 120',
     [' ORG 0',
      'L0 LEAX L5,PCR',
      'L1 LEAX L4,PCR',
      'L2 LEAX L3,PCR',
      ' RMB 120',
      'L3 LEAX L2,PCR',
      'L4 LEAX L1,PCR',
      'L5 LEAX L0,PCR',
      'E LDX #E']),
    ('one forward 121', [' ORG $1000', 'S LEAX T,PCR', ' RMB 121', 'T NOP', 'E LDX #E']),
    ('one backward 121', [' ORG $1000', 'T NOP', ' RMB 121', 'S LEAX T,PCR', 'E LDX #E']),
    ('nest 121',
     [' ORG $1000',
      'A LEAX D,PCR',
      'B LEAY C,PCR',
      ' LDA [A,PCR]',
      ' RMB 121',
      'C LEAU B,PCR',
      ' LDD C+1,PCR',
      'D LEAS A,PCR',
      'E LDX #E',
      ' BRA A',
      ' LBRA D']),
    ('six 121',
     [' ORG 0',
      'L0 LEAX L5,PCR',
      'L1 LEAX L4,PCR',
      'L2 LEAX L3,PCR',
      ' RMB 121',
      'L3 LEAX L2,PCR',
      'L4 LEAX L1,PCR',
      'L5 LEAX L0,PCR',
      'E LDX #E']),
    ('one forward 122', [' ORG $1000', 'S LEAX T,PCR', ' RMB 122', 'T NOP', 'E LDX #E']),
    ('one backward 122', [' ORG $1000', 'T NOP', ' RMB 122', 'S LEAX T,PCR', 'E LDX #E']),
    ('nest 122',
     [' ORG $1000',
      'A LEAX D,PCR',
      'B LEAY C,PCR',
      ' LDA [A,PCR]',
      ' RMB 122',
      'C LEAU B,PCR',
      ' LDD C+1,PCR',
      'D LEAS A,PCR',
      'E LDX #E',
      ' BRA A',
      ' LBRA D']),
    ('six 122',
     [' ORG 0',
      'L0 LEAX L5,PCR',
      'L1 LEAX L4,PCR',
      'L2 LEAX L3,PCR',
      ' RMB 122',
      'L3 LEAX L2,PCR',
      'L4 LEAX L1,PCR',
      'L5 LEAX L0,PCR',
      'E LDX #E']),
    ('one forward 123', [' ORG $1000', 'S LEAX T,PCR', ' RMB 123', 'T NOP', 'E LDX #E']),
    ('one backward 123', [' ORG $1000', 'T NOP', ' RMB 123', 'S LEAX T,PCR', 'E LDX #E']),
    ('nest 123',
     [' ORG $1000',
      'A LEAX D,PCR',
      'B LEAY C,PCR',
      ' LDA [A,PCR]',
      ' RMB 123',
      'C LEAU B,PCR',
      ' LDD C+1,PCR',
      'D LEAS A,PCR',
      'E LDX #E',
      ' BRA A',
      ' LBRA D']),
    ('six 123',
     [' ORG 0',
      'L0 LEAX L5,PCR',
      'L1 LEAX L4,PCR',
      'L2 LEAX L3,PCR',
      ' RMB 123',
      'L3 LEAX L2,PCR',
      'L4 LEAX L1,PCR',
      'L5 LEAX L0,PCR',
      'E LDX #E']),
    ('one forward 124', [' ORG $1000', 'S LEAX T,PCR', ' RMB 124', 'T NOP', 'E LDX #E']),
    ('one backward 124', [' ORG $1000', 'T NOP', ' RMB 124', 'S LEAX T,PCR', 'E LDX #E']),
    ('nest 124',
     [' ORG $1000',
      'A LEAX D,PCR',
      'B LEAY C,PCR',
      ' LDA [A,PCR]',
      ' RMB 124',
      'C LEAU B,PCR',
      ' LDD C+1,PCR',
      'D LEAS A,PCR',
      'E LDX #E',
      ' BRA A',
      ' LBRA D']),
    ('six 124',
     [' ORG 0',
      'L0 LEAX L5,PCR',
      'L1 LEAX L4,PCR',
      'L2 LEAX L3,PCR',
      ' RMB 124',
      'L3 LEAX L2,PCR',
      'L4 LEAX L1,PCR',
      'L5 LEAX L0,PCR',
      'E LDX #E']),
    ('one forward 125', [' ORG $1000', 'S LEAX T,PCR', ' RMB 125', 'T NOP', 'E LDX #E']),
    ('one backward 125', [' ORG $1000', 'T NOP', ' RMB 125', 'S LEAX T,PCR', 'E LDX #E']),
    ('nest 125',
     [' ORG $1000',
      'A LEAX D,PCR',
      'B LEAY C,PCR',
      ' LDA [A,PCR]',
      ' RMB 125',
      'C LEAU B,PCR',
      ' LDD C+1,PCR',
      'D LEAS A,PCR',
      'E LDX #E',
      ' BRA A',
      ' LBRA D']),
    ('six 125',
     [' ORG 0',
      'L0 LEAX L5,PCR',
      'L1 LEAX L4,PCR',
      'L2 LEAX L3,PCR',
      ' RMB 125',
      'L3 LEAX L2,PCR',
      'L4 LEAX L1,PCR',
      'L5 LEAX L0,PCR',
      'E LDX #E']),
    ('one forward 126', [' ORG $1000', 'S LEAX T,PCR', ' RMB 126', 'T NOP', 'E LDX #E']),
    ('one backward 126', [' ORG $1000', 'T NOP', ' RMB 126', 'S LEAX T,PCR', 'E LDX #E']),
    ('nest 126',
     [' ORG $1000',
      'A LEAX D,PCR',
      'B LEAY C,PCR',
      ' LDA [A,PCR]',
      ' RMB 126',
      'C LEAU B,PCR',
      ' LDD C+1,PCR',
      'D LEAS A,PCR',
      'E LDX #E',
      ' BRA A',
      ' LBRA D']),
    ('six 126',
     [' ORG 0',
      'L0 LEAX L5,PCR',
      'L1 LEAX L4,PCR',
      'L2 LEAX L3,PCR',
      ' RMB 126',
      'L3 LEAX L2,PCR',
      'L4 LEAX L1,PCR',
      'L5 LEAX L0,PCR',
      'E LDX #E']),
    ('one forward 127', [' ORG $1000', 'S LEAX T,PCR', ' RMB 127', 'T NOP', 'E LDX #E']),
    ('one backward 127', [' ORG $1000', 'T NOP', ' RMB 127', 'S LEAX T,PCR', 'E LDX #E']),
    ('nest 127',
     [' ORG $1000',
      'A LEAX D,PCR',
      'B LEAY C,PCR',
      ' LDA [A,PCR]',
      ' RMB 127',
      'C LEAU B,PCR',
      ' LDD C+1,PCR',
      'D LEAS A,PCR',
      'E LDX #E',
      ' BRA A',
      ' LBRA D']),
    ('six 127',
     [' ORG 0',
      'L0 LEAX L5,PCR',
      'L1 LEAX L4,PCR',
      'L2 LEAX L3,PCR',
      ' RMB 127',
      'L3 LEAX L2,PCR',
      'L4 LEAX L1,PCR',
      'L5 LEAX L0,PCR',
      'E LDX #E']),
    ('one forward 128', [' ORG $1000', 'S LEAX T,PCR', ' RMB 128', 'T NOP', 'E LDX #E']),
    ('one backward 128', [' ORG $1000', 'T NOP', ' RMB 128', 'S LEAX T,PCR', 'E LDX #E']),
    ('nest 128',
     [' ORG $1000',
      'A LEAX D,PCR',
      'B LEAY C,PCR',
      ' LDA [A,PCR]',
      ' RMB 128',
      'C LEAU B,PCR',
      ' LDD C+1,PCR',
      'D LEAS A,PCR',
      'E LDX #E',
      ' BRA A',
      ' LBRA D']),
    ('six 128',
     [' ORG 0',
      'L0 LEAX L5,PCR',
      'L1 LEAX L4,PCR',
      'L2 LEAX L3,PCR',
      ' RMB 128',
      'L3 LEAX L2,PCR',
      'L4 LEAX L1,PCR',
      'L5 LEAX L0,PCR',
      'E LDX #E']),
    ('one forward 129', [' ORG $1000', 'S LEAX T,PCR', ' RMB 129', 'T NOP', 'E LDX #E']),
    ('one backward 129', [' ORG $1000', 'T NOP', ' RMB 129', 'S LEAX T,PCR', 'E LDX #E']),
    ('nest 129',
     [' ORG $1000',
      'A LEAX D,PCR',
      'B LEAY C,PCR',
      ' LDA [A,PCR]',
      ' RMB 129',
      'C LEAU B,PCR',
      ' LDD C+1,PCR',
      'D LEAS A,PCR',
      'E LDX #E',
      ' BRA A',
      ' LBRA D']),
    ('six 129',
     [' ORG 0',
      'L0 LEAX L5,PCR',
      'L1 LEAX L4,PCR',
      'L2 LEAX L3,PCR',
      ' RMB 129',
      'L3 LEAX L2,PCR',
      'L4 LEAX L1,PCR',
      'L5 LEAX L0,PCR',
      'E LDX #E']),
    ('one forward 130', [' ORG $1000', 'S LEAX T,PCR', ' RMB 130', 'T NOP', 'E LDX #E']),
    ('one backward 130', [' ORG $1000', 'T NOP', ' RMB 130', 'S LEAX T,PCR', 'E LDX #E']),
    ('nest 130',
     [' ORG $1000',
      'A LEAX D,PCR',
      'B LEAY C,PCR',
      ' LDA [A,PCR]',
      ' RMB 130',
      'C LEAU B,PCR',
      ' LDD C+1,PCR',
      'D LEAS A,PCR',
      'E LDX #E',
      ' BRA A',
      ' LBRA D']),
    ('six 130',
     [' ORG 0',
      'L0 LEAX L5,PCR',
      'L1 LEAX L4,PCR',
      'L2 LEAX L3,PCR',
      ' RMB 130',
      'L3 LEAX L2,PCR',
      'L4 LEAX L1,PCR',
      'L5 LEAX L0,PCR',
      'E LDX #E']),
    ('one forward 131', [' ORG $1000', 'S LEAX T,PCR', ' RMB 131', 'T NOP', 'E LDX #E']),
    ('one backward 131', [' ORG $1000', 'T NOP', ' RMB 131', 'S LEAX T,PCR', 'E LDX #E']),
    ('nest 131',
     [' ORG $1000',
      'A LEAX D,PCR',
      'B LEAY C,PCR',
      ' LDA [A,PCR]',
      ' RMB 131',
      'C LEAU B,PCR',
      ' LDD C+1,PCR',
      'D LEAS A,PCR',
      'E LDX #E',
      ' BRA A',
      ' LBRA D']),
    ('six 131',
     [' ORG 0',
      'L0 LEAX L5,PCR',
      'L1 LEAX L4,PCR',
      'L2 LEAX L3,PCR',
      ' RMB 131',
      'L3 LEAX L2,PCR',
      'L4 LEAX L1,PCR',
      'L5 LEAX L0,PCR',
      'E LDX #E']),
    ('one forward 200', [' ORG $1000', 'S LEAX T,PCR', ' RMB 200', 'T NOP', 'E LDX #E']),
    ('one backward 200', [' ORG $1000', 'T NOP', ' RMB 200', 'S LEAX T,PCR', 'E LDX #E']),
    ('nest 200',
     [' ORG $1000',
      'A LEAX D,PCR',
      'B LEAY C,PCR',
      ' LDA [A,PCR]',
      ' RMB 200',
      'C LEAU B,PCR',
      ' LDD C+1,PCR',
      'D LEAS A,PCR',
      'E LDX #E',
      ' BRA A',
      ' LBRA D']),
    ('six 200',
     [' ORG 0',
      'L0 LEAX L5,PCR',
      'L1 LEAX L4,PCR',
      'L2 LEAX L3,PCR',
      ' RMB 200',
      'L3 LEAX L2,PCR',
      'L4 LEAX L1,PCR',
      'L5 LEAX L0,PCR',
      'E LDX #E']),
    ('one forward 300', [' ORG $1000', 'S LEAX T,PCR', ' RMB 300', 'T NOP', 'E LDX #E']),
    ('one backward 300', [' ORG $1000', 'T NOP', ' RMB 300', 'S LEAX T,PCR', 'E LDX #E']),
    ('nest 300',
     [' ORG $1000',
      'A LEAX D,PCR',
      'B LEAY C,PCR',
      ' LDA [A,PCR]',
      ' RMB 300',
      'C LEAU B,PCR',
      ' LDD C+1,PCR',
      'D LEAS A,PCR',
      'E LDX #E',
      ' BRA A',
      ' LBRA D']),
    ('six 300',
     [' ORG 0',
      'L0 LEAX L5,PCR',
      'L1 LEAX L4,PCR',
      'L2 LEAX L3,PCR',
      ' RMB 300',
      'L3 LEAX L2,PCR',
      'L4 LEAX L1,PCR',
      'L5 LEAX L0,PCR',
      'E LDX #E']),
    ('no pcr at all', [' ORG 0', 'A LDA #1', ' BRA A']),
    ('pcr undefined first', [' LEAX NOPE,PCR', 'A LEAX A,PCR']),
    ('pcr undefined last', ['A LEAX A,PCR', ' LEAX NOPE,PCR']),
    ('pcr numeric only', [' LEAX 5,PCR', ' LEAX $1234,PCR', ' LDA [-3,PCR]']),
    ('pcr equ only', ['V EQU 9', ' LEAX V,PCR']),
    ('pcr on unsupported instruction', ['A NOP', ' ABX A,PCR']),
    ('pcr expression of two labels', ['A NOP', 'B NOP', ' LEAX A+B,PCR']),
    ('pcr expression label minus equ', ['V EQU 1', 'A NOP', ' LEAX A-V,PCR', ' LEAX V+A,PCR']),
    ('pcr target in include-less org', [' ORG $100', 'A LEAX B,PCR', ' ORG $4000', 'B LEAX A,PCR']),
    ('mixed program',
     ['        NAM   MIXED',
      '        ORG   $3F00',
      'SCREEN  EQU   $0400',
      'COUNT   EQU   32',
      'BEGIN   LDX   #SCREEN',
      '        LDA   #COUNT',
      'LOOP    STA   ,X+',
      '        DECA',
      '        BNE   LOOP',
      '        LDD   TABLE,PCR',
      '        LEAX  TABLE,PCR',
      '        LDY   [VECTOR]',
      '        JSR   SUB',
      '        LBRA  DONE',
      'SUB     PSHS  A,B,X',
      '        TFR   X,Y',
      '        EXG   A,B',
      '        LDA   5,X',
      '        LDB   -5,Y',
      '        STD   200,U',
      '        STD   -200,S',
      '        LDA   [10,X]',
      '        LDD   [D,Y]',
      '        PULS  A,B,X,PC',
      'TABLE   FCB   1,2,3,$FF',
      '        FDB   $1234,$5678',
      '        FDB   BEGIN',
      'VECTOR  FDB   $A000',
      'MSG     FCC   /HELLO, WORLD/',
      'BUF     RMB   4',
      'DONE    RTS',
      '        END   BEGIN']),
    ('branches forward and backward',
     ['        ORG   $1000',
      'TOP     NOP',
      '        BRA   TOP',
      '        BEQ   DOWN',
      '        LBNE  TOP',
      '        LBSR  DOWN',
      '        BSR   TOP',
      '        RMB   100',
      'DOWN    RTS']),
    ('short branch too far forward', ['A BRA B', ' RMB 128', 'B RTS']),
    ('short branch just reaching forward', ['A BRA B', ' RMB 127', 'B RTS']),
    ('short branch too far back', ['A NOP', ' RMB 126', ' BRA A']),
    ('short branch just reaching back', ['A NOP', ' RMB 125', ' BRA A']),
    ('pcr sizes near the boundary',
     ['        ORG   $2000',
      'S       LEAX  NEAR,PCR',
      '        LEAY  FARX,PCR',
      '        LDA   [NEAR,PCR]',
      '        LDD   NEAR+1,PCR',
      '        RMB   110',
      'NEAR    NOP',
      '        RMB   300',
      'FARX    NOP',
      '        LEAX  S,PCR',
      '        LEAX  NEAR,PCR']),
    ('pcr backwards boundary', [' ORG $100', 'L NOP', ' RMB 121', ' LEAX L,PCR', ' LEAX L,PCR', ' LEAX L,PCR']),
    ('equ forward reference',
     [' LDA #LATER', ' LDB LATER', ' LDX #BIG', 'LATER EQU 7', 'BIG EQU $1234', ' STA BIG']),
    ('expressions',
     ['        ORG   $4000',
      'BASE    EQU   $1000',
      'STEP    EQU   3',
      '        LDX   #BASE+STEP',
      '        LDA   #STEP*2',
      '        LDD   BASE/STEP',
      '        LDX   #HERE+2',
      '        LDX   #HERE-BASE',
      '        LDA   BASE-1',
      'HERE    LDA   STEP+4,X',
      '        JMP   HERE+1',
      '        FDB   HERE']),
    ('division by zero', ['Z EQU 0', ' LDA #4/Z']),
    ('undefined symbol', [' LDA MISSING']),
    ('undefined symbol in expression', [' LDA #MISSING+1']),
    ('duplicate label', ['A NOP', 'A NOP']),
    ('duplicate equ', ['A EQU 1', 'A EQU 2']),
    ('label defined after equ of same name', ['A EQU 1', 'A NOP']),
    ('bad mnemonic', [' FROB 1']),
    ('unparsable line', ['@@@ !!!']),
    ('org twice', [' ORG $100', ' NOP', ' ORG $200', 'X NOP', ' JMP X']),
    ('code before org', [' NOP', ' ORG $200', 'X NOP', ' JMP X']),
    ('no org', ['A LDA #1', ' JMP A']),
    ('data directives',
     ['        ORG   $10',
      '        FCB   1',
      "        FCB   $FF,255,-1,'A,%10101010",
      '        FDB   1',
      '        FDB   $FFFF,-1,65535,$12',
      '        FCC   "two words" trailing',
      '        FCC   /a;b/',
      '        RMB   3',
      '        RMB   0']),
    ('data directives 2',
     ['        FCB   -128',
      '        FDB   -32768',
      '        FCB   ,1,,2',
      "        FCC   'x'",
      'N       EQU   $10',
      '        RMB   N',
      '        FCB   N',
      '        FDB   N',
      '        SETDP $10',
      '        END']),
    ('fcb too big', [' FCB 256']),
    ('fcb list too big', [' FCB 1,256']),
    ('fdb too big', [' FDB 65536']),
    ('fcc unterminated', [' FCC /abc']),
    ('fcc empty', [' FCC']),
    ('rmb symbol undefined', [' RMB NOPE']),
    ('equ of label', ['A NOP', 'B EQU A', ' JMP B']),
    ('equ string-ish', ['S EQU X,Y', ' LDA S']),
    ('comments and blanks', ['; comment only', '', '   ', ' NOP ; trailing', 'L NOP', ' ; indented comment']),
    ('include missing', [' INCLUDE /nonexistent/file.asm']),
    ('nam and end', [' NAM PROG', ' ORG $E00', 'S RTS', ' END S']),
    ('inherent with operand', [' RTS 5']),
    ('operand missing', [' LDA']),
    ('immediate store', [' STA #5']),
    ('lea immediate', [' LEAX #5']),
    ('tfr mixed size', [' TFR A,X']),
    ('pshs own stack', [' PSHS S']),
    ('pshu own stack', [' PSHU U']),
    ('pshs empty', [' PSHS']),
    ('exg three', [' EXG A,B,X']),
    ('indexed auto with offset', [' LDA 1,X+']),
    ('indirect single auto', [' LDA [,X+]']),
    ('16 bit immediates',
     [' LDX #1',
      ' LDD #$12',
      ' CMPX #-1',
      ' LDS #%00000001',
      " LDU #'A",
      ' CMPY #300',
      ' ADDD #1',
      ' SUBD #$1234',
      ' CMPD #5',
      ' CMPS #5',
      ' CMPU #5',
      ' LDY #5']),
    ('8 bit immediates',
     [' LDA #1',
      ' LDB #$12',
      ' CMPA #-1',
      ' ANDCC #%11110000',
      ' ORCC #$50',
      " LDA #'z",
      ' LDA #255',
      ' LDA #256',
      ' LDA #$1234',
      ' CWAI #$FF']),
    ('direct and extended',
     [' LDA $12',
      ' LDA $0012',
      ' LDA <$0012',
      ' LDA >$12',
      ' LDA 18',
      ' LDA 300',
      ' JMP $12',
      ' JSR <$12',
      ' STA >$00',
      ' NEG $12',
      ' CLR <$FF',
      ' TST >$FF',
      ' LDA %00010010',
      ' LDA >%00010010',
      ' LDA <%0000000000010010']),
]

# Python expressions evaluated inside each tree (modules of the tree imported
# beforehand); the value - or the exception - is compared.
PROBES = [
    'Program().all_sizes_fixed()',
    ("(lambda p: (setattr(p, 'statements', Program.parse([' NOP\\n', ' RTS\\n'])), "
     'p.all_sizes_fixed()))(Program())'),
    ("(lambda p: (setattr(p, 'statements', Program.parse([' NOP\\n', ' RTS\\n'])), setattr(p.statements[1], "
     "'fixed_size', False), p.all_sizes_fixed()))(Program())"),
    ("(lambda p: (setattr(p, 'statements', Program.parse([' NOP\\n', ' RTS\\n'])), setattr(p.statements[0], "
     "'fixed_size', False), p.all_sizes_fixed()))(Program())"),
    ("(lambda p: (setattr(p, 'statements', Program.parse([' NOP\\n'])), setattr(p.statements[0], 'fixed_size', "
     '0), p.all_sizes_fixed()))(Program())'),
    ("(lambda p: (setattr(p, 'statements', Program.parse([' NOP\\n'])), setattr(p.statements[0], 'fixed_size', "
     "'yes'), p.all_sizes_fixed()))(Program())"),
]

# Command line runs: (name, [source lines], [arguments], [files expected])
CLI_CASES = [
    ('pcr chain listing',
     [' NAM CH', ' ORG $E00', 'A LEAX D,PCR', 'B LEAY C,PCR', ' RMB 119', 'C LEAU B,PCR', 'D LEAS A,PCR', ' RTS'],
     [['--print', '--symbols', '--to_bin', 'o.bin']],
     []),
    ('pcr undefined listing',
     [' ORG $E00', 'A LEAX A,PCR', ' LEAX NOPE,PCR ; missing'],
     [['--print', '--symbols']],
     []),
]

USE_CORPUS = True

# --------------------------------------------------------------------------
# worker: runs inside ONE tree
# --------------------------------------------------------------------------


def show(obj, depth=0):
    """Turns a library object into plain comparable data."""
    from enum import Enum
    if depth > 6:
        return "<deep>"
    if obj is None or isinstance(obj, (bool, int, float, str)):
        return obj
    if isinstance(obj, bytes):
        return obj.hex()
    if isinstance(obj, Enum):
        return "{}.{}".format(type(obj).__name__, obj.name)
    if isinstance(obj, (list, tuple)):
        return [show(x, depth + 1) for x in obj]
    if isinstance(obj, (set, frozenset)):
        return sorted(repr(show(x, depth + 1)) for x in obj)
    if isinstance(obj, dict):
        return {str(k): show(v, depth + 1) for k, v in obj.items()}
    if isinstance(obj, BaseException):
        return describe_error(obj)
    if isinstance(obj, type):
        return "class " + obj.__name__
    result = {"__class__": type(obj).__name__}
    fields = getattr(obj, "__dict__", None)
    if fields is None:
        return repr(obj)
    for key in sorted(fields):
        if key.startswith("_"):
            continue
        result[key] = show(fields[key], depth + 1)
    for method in ("hex", "hex_len", "byte_len", "ascii", "is_8_bit", "is_16_bit", "is_4_bit",
                   "high_byte", "low_byte"):
        function = getattr(obj, method, None)
        if callable(function) and hasattr(obj, "explict_addressing_mode"):
            try:
                result["." + method] = show(function(), depth + 1)
            except Exception as error:
                result["." + method] = describe_error(error)
    return result


def describe_error(error):
    description = {"error": type(error).__name__, "text": str(error), "args": show(list(error.args))}
    if hasattr(error, "value"):
        description["value"] = show(getattr(error, "value"))
    if hasattr(error, "statement"):
        statement = getattr(error, "statement")
        try:
            description["statement"] = str(statement)
        except Exception as inner:
            description["statement"] = "unprintable: " + type(inner).__name__
    return description


def assemble(lines):
    from cocoasm.program import Program
    program = Program()
    try:
        program.process(list(lines))
    except BaseException as error:
        return {"raised": describe_error(error),
                "symbols_so_far": sorted(program.symbol_table.keys())}
    outcome = {}
    for name, function in (
            ("binary", program.get_binary_array),
            ("listing", program.get_statements),
            ("symbols", program.get_symbol_table),
    ):
        try:
            outcome[name] = show(function())
        except BaseException as error:
            outcome[name] = describe_error(error)
    outcome["origin"] = show(program.origin)
    outcome["name"] = show(program.name)
    outcome["packages"] = [
        [s.code_pkg.size, s.code_pkg.max_size, s.fixed_size, s.pcr_size_hint,
         show(s.code_pkg.post_byte_choices), s.code_pkg.additional_needs_resolution,
         type(s.operand).__name__, show(s.operand.type)]
        for s in program.statements
    ]
    return outcome


def run_cli(tree, name, lines, arguments, files):
    results = {}
    with tempfile.TemporaryDirectory() as scratch:
        source = os.path.join(scratch, "input.asm")
        with open(source, "w") as handle:
            handle.write("\n".join(lines) + "\n")
        environment = dict(os.environ, PYTHONPATH=tree, PYTHONDONTWRITEBYTECODE="1")
        for round_number, argument_list in enumerate(arguments):
            completed = subprocess.run(
                [sys.executable, os.path.join(tree, "assembler.py"), "input.asm"] + argument_list,
                cwd=scratch, env=environment, capture_output=True, text=True, timeout=120,
            )
            results["run{}".format(round_number)] = {
                "stdout": completed.stdout.replace(tree, "<TREE>"),
                "stderr": completed.stderr.replace(tree, "<TREE>"),
                "code": completed.returncode,
            }
        produced = {}
        for file_name in sorted(os.listdir(scratch)):
            if file_name == "input.asm":
                continue
            with open(os.path.join(scratch, file_name), "rb") as handle:
                produced[file_name] = handle.read().hex()
        results["files"] = produced
    return results


def worker(tree):
    tree = os.path.abspath(tree)
    sys.path.insert(0, tree)
    os.chdir(tree)
    sys.dont_write_bytecode = True
    results = {}

    import cocoasm.instruction
    import cocoasm.operands
    import cocoasm.values
    import cocoasm.statement
    import cocoasm.program
    assert os.path.abspath(cocoasm.program.__file__).startswith(tree), cocoasm.program.__file__

    for name, lines in CASES:
        # as SourceFile.readlines() delivers them, and bare
        results["case:" + name] = assemble([line + "\n" for line in lines])
        results["bare:" + name] = assemble(lines)

    namespace = {"show": show}
    for module in (cocoasm.instruction, cocoasm.operands, cocoasm.values, cocoasm.statement, cocoasm.program):
        namespace.update({k: v for k, v in vars(module).items() if not k.startswith("__")})
    namespace["MN"] = {i.mnemonic: i for i in cocoasm.instruction.INSTRUCTIONS}
    for expression in PROBES:
        try:
            results["probe:" + expression] = show(eval(expression, dict(namespace)))
        except BaseException as error:
            results["probe:" + expression] = {"raised": describe_error(error)}

    if USE_CORPUS:
        for instruction in cocoasm.instruction.INSTRUCTIONS:
            for operand in OPERAND_FORMS:
                lines = [x.format(mnemonic=instruction.mnemonic, operand=operand) + "\n" for x in CORPUS_TEMPLATE]
                outcome = assemble(lines)
                # the corpus is big: keep a digest plus the essentials
                blob = json.dumps(outcome, sort_keys=True)
                results["corpus:{} {}".format(instruction.mnemonic, operand)] = [
                    hashlib.sha1(blob.encode()).hexdigest(),
                    outcome.get("binary", outcome.get("raised")),
                ]

    for name, lines, arguments, files in CLI_CASES:
        results["cli:" + name] = run_cli(tree, name, lines, arguments, files)

    json.dump(results, sys.stdout, sort_keys=True)


# --------------------------------------------------------------------------
# driver
# --------------------------------------------------------------------------


def main():
    if len(sys.argv) == 3 and sys.argv[1] == "--worker":
        worker(sys.argv[2])
        return 0
    if len(sys.argv) != 3:
        print(__doc__)
        return 2
    outputs = []
    for tree in sys.argv[1:3]:
        tree = os.path.abspath(tree)
        completed = subprocess.run(
            [sys.executable, os.path.abspath(__file__), "--worker", tree],
            capture_output=True, text=True, cwd=tree,
            env=dict(os.environ, PYTHONDONTWRITEBYTECODE="1"),
        )
        if completed.returncode != 0:
            print("worker failed for", tree)
            print(completed.stderr[-3000:])
            return 1
        outputs.append(json.loads(completed.stdout))
    first, second = outputs
    differences = 0
    for key in sorted(set(first) | set(second)):
        if first.get(key, "<missing>") != second.get(key, "<missing>"):
            differences += 1
            if differences <= 10:
                print("DIFFERENT:", key)
                print("   A:", json.dumps(first.get(key, "<missing>"), sort_keys=True)[:300])
                print("   B:", json.dumps(second.get(key, "<missing>"), sort_keys=True)[:300])
    kinds = {}
    for key in first:
        kinds[key.split(":")[0]] = kinds.get(key.split(":")[0], 0) + 1
    print("compared {} results ({}); {} differ".format(
        len(first), ", ".join("{} {}".format(v, k) for k, v in sorted(kinds.items())), differences))
    return 1 if differences else 0


if __name__ == "__main__":
    sys.exit(main())
