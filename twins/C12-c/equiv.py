#!/usr/bin/env python
"""
Differential demonstration: runs the same set of cases against two source
trees (one subprocess per tree, the tree at the front of sys.path and as the
working directory) and compares every observable result.

usage: equiv.py <treeA> <treeB>      exit 0 = all cases agree, 1 = otherwise
"""
import json
import os
import subprocess
import sys

PYTHON = "/venv/bin/python" if os.path.exists("/venv/bin/python") else sys.executable

DRIVER_HEAD = r'''
import contextlib, enum, hashlib, io, json, os, shutil, subprocess, sys, tempfile
TREE = os.path.abspath(sys.argv[1])
PYTHON = sys.argv[2]
sys.path.insert(0, TREE)
os.chdir(TREE)
RESULTS = []


def norm(text):
    return str(text).replace(TREE, "<TREE>")


def show(obj, depth=0):
    """Canonical, address-free, JSON-able rendering of a result."""
    if depth > 20:
        return "<deep>"
    if obj is None or isinstance(obj, (bool, int, float)):
        return obj
    if isinstance(obj, str):
        return norm(obj)
    if isinstance(obj, (bytes, bytearray)):
        return {"bytes": bytes(obj).hex()}
    if isinstance(obj, enum.Enum):
        return str(obj)
    if isinstance(obj, dict):
        return {"dict": [[show(k, depth), show(v, depth)] for k, v in obj.items()]}
    if hasattr(obj, "_asdict"):
        if type(obj).__name__ in ("Instruction", "Mode") and depth > 0:
            return "<{} {}>".format(type(obj).__name__, getattr(obj, "mnemonic", ""))
        return {"nt": type(obj).__name__, "f": show(obj._asdict(), depth + 1)}
    if isinstance(obj, (list, tuple, set, frozenset)):
        items = list(obj)
        if len(items) > 600 and all(isinstance(i, int) and not isinstance(i, bool) for i in items):
            blob = ",".join(map(str, items)).encode()
            return {type(obj).__name__: len(items), "sha": hashlib.sha256(blob).hexdigest(),
                    "head": items[:24], "tail": items[-24:]}
        return {type(obj).__name__: [show(i, depth + 1) for i in items]}
    if hasattr(obj, "__dict__"):
        return {"obj": type(obj).__name__, "vars": show(vars(obj), depth + 1)}
    return norm(repr(obj))


def case(label, fn):
    out_buf, err_buf = io.StringIO(), io.StringIO()
    try:
        with contextlib.redirect_stdout(out_buf), contextlib.redirect_stderr(err_buf):
            value = fn()
        out = {"ok": show(value)}
    except SystemExit as error:
        out = {"exit": show(error.code)}
    except BaseException as error:
        out = {"exc": type(error).__name__, "msg": norm(error)}
    out["stdout"] = norm(out_buf.getvalue())
    out["stderr"] = norm(err_buf.getvalue())
    RESULTS.append([label, out])


def cli(tool, argv, files=None, keep=None):
    """
    Runs <TREE>/<tool> with argv inside a fresh temporary directory that first
    receives `files` (name -> str or bytes). Returns return code, stdout, the
    last line of stderr and name/size/sha256 of every file left behind.
    """
    work = keep or tempfile.mkdtemp(prefix="equiv")
    try:
        for name, content in (files or {}).items():
            mode = "wb" if isinstance(content, (bytes, bytearray)) else "w"
            with open(os.path.join(work, name), mode) as handle:
                handle.write(content)
        env = dict(os.environ, PYTHONPATH=TREE, PYTHONDONTWRITEBYTECODE="1", COLUMNS="80")
        done = subprocess.run([PYTHON, os.path.join(TREE, tool)] + list(argv), cwd=work, env=env,
                              capture_output=True, text=True, timeout=600)
        left = {}
        for name in sorted(os.listdir(work)):
            with open(os.path.join(work, name), "rb") as handle:
                blob = handle.read()
            left[name] = [len(blob), hashlib.sha256(blob).hexdigest()]
        err_lines = [line for line in done.stderr.splitlines() if line.strip()]
        return {"rc": done.returncode, "stdout": norm(done.stdout).replace(work, "<WORK>"),
                "stderr_last": norm(err_lines[-1]).replace(work, "<WORK>") if err_lines else "",
                "files": left}
    finally:
        if not keep:
            shutil.rmtree(work, ignore_errors=True)


def read_back(work, name):
    with open(os.path.join(work, name), "rb") as handle:
        return handle.read()

'''

DRIVER_TAIL = r'''
print("@@RESULTS@@" + json.dumps(RESULTS))
'''

DRIVER_ASM = r'''
from cocoasm.exceptions import TranslationError, ParseError
from cocoasm.instruction import INSTRUCTIONS
from cocoasm.program import Program


def safe(fn):
    try:
        return fn()
    except Exception as error:
        return "<{}: {}>".format(type(error).__name__, error)


def assemble(lines):
    """Everything observable about assembling `lines` (a list of source lines)."""
    program = Program()
    try:
        program.process([line + "\n" for line in lines])
    except (TranslationError, ParseError) as error:
        return ["diagnostic", type(error).__name__, str(error.value), str(error), safe(lambda: str(error.statement))]
    except Exception as error:
        return ["crash", type(error).__name__, str(error)]
    shape = [[safe(lambda: s.code_pkg.size), safe(lambda: s.code_pkg.max_size), s.fixed_size, s.pcr_size_hint,
              type(s.operand).__name__, safe(lambda: s.code_pkg.address.hex(size=4))] for s in program.statements]
    return ["ok", safe(program.get_binary_array), safe(program.get_statements), safe(program.get_symbol_table),
            safe(lambda: program.origin.hex()), program.name, shape]


MNEMONICS = [instruction.mnemonic for instruction in INSTRUCTIONS]

OPERANDS = [
    "", "#0", "#1", "#$7F", "#$FF", "#255", "#256", "#-1", "#-128", "#-129", "#$1234", "#65535", "#65536", "#70000",
    "#%10101010", "#%1010", "#'A", "#SYM", "#BYTE", "#WORD", "#HERE",
    "0", "1", "$12", "$1234", "$12345", "255", "256", "65535", "65536", "70000", "-1", "-32768", "-32769",
    "<$12", "<$1234", "<256", "<WORD", "<BYTE", ">$12", ">$1234", ">1", ">BYTE", "<", ">",
    "%00001111", "%0000111100001111", "%101", "'A", "BYTE", "WORD", "HERE", "THERE", "UNDEFINED", "HERE+1", "WORD-BYTE",
    "BYTE+HERE", "HERE-THERE",
    "[$12]", "[$1234]", "[70000]", "[HERE]", "[WORD]", "[BYTE]", "[UNDEFINED]", "[,X]", "[,Y++]", "[,--U]", "[,S+]",
    "[,-X]", "[A,X]", "[B,Y]", "[D,U]", "[5,X]", "[-5,Y]", "[$7F,U]", "[$80,S]", "[$1234,X]", "[-129,Y]", "[HERE,X]",
    "[HERE,PCR]", "[5,PCR]", "[$1234,PCR]", "[WORD,X]", "[BYTE,Y]", "[0,X]", "[5,Z]", "[1,PC]", "[,X++]", "[]", "[,]",
    ",X", ",Y", ",U", ",S", ",X+", ",X++", ",-X", ",--X", ",Y+", ",--S", ",Z", ",PC", ",PCR", ",", "0,X", "1,X", "15,X",
    "16,X", "-16,X", "-17,Y", "127,U", "128,S", "-128,X", "-129,X", "255,X", "256,X", "$7FFF,Y", "65535,X", "70000,X",
    "-32768,X", "A,X", "B,Y", "D,U", "E,X", "5,Z", "1,PC", "5,PCR", "-5,PCR", "$1234,PCR", "HERE,PCR", "THERE,PCR",
    "HERE,X", "WORD,X", "BYTE,X", "UNDEFINED,X", "HERE+1,PCR", "HERE+1,X", "5,X+", "5,-X", "A,X+", "X,Y", "A,B",
    "A", "B", "D", "X", "Y", "U", "S", "PC", "CC", "DP", "Z", "A,B,X", "CC,A,B,DP,X,Y,U,PC", "CC,A,B,DP,X,Y,S,PC",
    "D,X", "X,D", "A,X ", "PC,X", "A,CC", "DP,B", "U,S", "a,b", "A,,B", ",A", "A,", "X,Y,U", "D,D", "A,D",
    '"text"', "/text/", "1,2,3", "$1234,$5678", "1,", "'", "#", "#,", "[", "]", "++", "--", "+", "-", "*", "*+2", "$", "%", "!",
]

PROLOGUE = ["BYTE EQU $12", "WORD EQU $1234", "SYM EQU 5"]


def wrap(mnemonic, operand):
    """A program with a label before and after the statement under test."""
    return PROLOGUE + ["HERE NOP", " {} {}".format(mnemonic, operand), "THERE NOP", " NOP"]


def sweep(mnemonic):
    return [[operand, assemble(wrap(mnemonic, operand))] for operand in OPERANDS]

'''

DRIVER_CASES = DRIVER_ASM + r'''
from cocoasm.statement import Statement
from cocoasm.instruction import CodePackage
from cocoasm.values import NumericValue, AddressValue, NoneValue, Value

FILLERS = {"nop": (" NOP", 1), "lda": (" LDA $1234", 3), "fcb": (" FCB 1,2,3,4,5", 5), "ldy": (" LDY #$1234", 4)}


def forward(distance, statement, filler="nop"):
    line, width = FILLERS[filler]
    count, rest = divmod(distance, width)
    return ["START " + statement.format("TARGET")] + [line] * count + [" NOP"] * rest + ["TARGET RTS"]


def backward(distance, statement, filler="nop"):
    line, width = FILLERS[filler]
    count, rest = divmod(distance, width)
    return ["TARGET NOP"] + [line] * count + [" NOP"] * rest + ["START " + statement.format("TARGET"), " RTS"]


STATEMENTS = ["LEAX {},PCR", "LDA {},PCR", "LDD [{},PCR]", "STU {}+1,PCR", "LEAY {}-1,PCR", "JMP {},PCR", "CMPD {},PCR",
              "LDA [{}+2,PCR]"]
DISTANCES = [0, 1, 2, 3, 60, 120, 121, 122, 123, 124, 125, 126, 127, 128, 129, 130, 131, 132, 200, 255, 256, 300]

# 1. one PCR relative statement at every interesting distance from its target, both directions
for statement in STATEMENTS:
    case("forward " + statement, lambda: [[d, assemble(forward(d, statement))] for d in DISTANCES])
    case("backward " + statement, lambda: [[d, assemble(backward(d, statement))] for d in DISTANCES])
for filler in ("lda", "fcb", "ldy"):
    case("forward-filler-" + filler, lambda: [[d, assemble(forward(d, "LEAX {},PCR", filler))] for d in DISTANCES])
    case("backward-filler-" + filler, lambda: [[d, assemble(backward(d, "LDB {},PCR", filler))] for d in DISTANCES])


# 2. several PCR relative statements whose sizes depend on one another
def chain(gap, count, reverse=False):
    lines = []
    for number in range(count):
        target = "L{}".format((number + 1) % count if not reverse else (number - 1) % count)
        lines.append("L{} LEAX {},PCR".format(number, target))
        lines.extend([" NOP"] * gap)
    return lines + [" RTS"]


for gap in (0, 1, 30, 40, 41, 42, 43, 60, 61, 62, 63, 64, 120, 121, 122, 123, 124, 125, 126, 127, 130):
    for count in (2, 3, 4):
        case("chain-{}-{}".format(gap, count), lambda: assemble(chain(gap, count)))
        case("chain-reverse-{}-{}".format(gap, count), lambda: assemble(chain(gap, count, reverse=True)))


def crossing(gap_a, gap_b):
    return (["A1 LDA B1,PCR"] + [" NOP"] * gap_a + ["B1 LDX C1,PCR", " LEAY A1,PCR"] + [" NOP"] * gap_b
            + ["C1 STA [A1,PCR]", " LDU B1+1,PCR", " RTS"])


for gap_a in (0, 100, 118, 119, 120, 121, 122, 123, 124, 125, 126, 127, 128):
    for gap_b in (0, 110, 118, 119, 120, 121, 122, 123, 124, 125, 126, 127, 128):
        case("crossing-{}-{}".format(gap_a, gap_b), lambda: assemble(crossing(gap_a, gap_b)))

# 3. statements that need resolution but have no PCR choice, undefined targets, self references
for name, lines in {
    "label-plus-register": ["START LDA TARGET,X", "TARGET RTS"],
    "label-plus-register-indirect": ["START LDA [TARGET,Y]", "TARGET RTS"],
    "expression-plus-register": ["START LDA TARGET+1,U", "TARGET RTS"],
    "self": ["START LEAX START,PCR"], "self-indirect": ["START LDA [START,PCR]"],
    "self-plus": ["START LEAX START+3,PCR", " NOP"],
    "undefined": ["START LEAX NOWHERE,PCR"], "undefined-expression": ["START LEAX NOWHERE+1,PCR"],
    "equ-target": ["VALUE EQU $1234", "START LEAX VALUE,PCR", " LEAX VALUE+1,PCR"],
    "number-pcr": ["START LEAX 5,PCR", " LEAX $1234,PCR", " LEAX -5,PCR"],
    "with-org": [" ORG $4000", "START LEAX TARGET,PCR", " ORG $5000", "TARGET RTS"],
    "last-statement-target": ["START LEAX TARGET,PCR", " NOP", "TARGET NOP"],
    "two-expressions": ["START LEAX TARGET-START,PCR", "TARGET RTS"],
    "no-pcr-instruction": ["START NOP TARGET,PCR", "TARGET RTS"],
    "branch-mix": ["START BRA TARGET", " LEAX START,PCR", " LBRA START", "TARGET LEAX START,PCR", " BNE TARGET"],
}.items():
    case("odd-" + name, lambda: assemble(lines))


# 4. the method itself, on statements prepared by hand
def sized(size, max_size):
    statement = Statement(" NOP \n")
    statement.code_pkg = CodePackage(size=size, max_size=max_size)
    return statement


def by_hand(this_index, target, sizes, choices=(0x8C, 0x8D), post_byte=None, left=None):
    def run():
        statements = [sized(size, max_size) for size, max_size in sizes]
        subject = Statement(" LEAX 5,PCR \n")
        subject.resolve_symbols({})
        subject.translate()
        subject.fixed_size = False
        subject.code_pkg.additional = target
        subject.code_pkg.post_byte_choices = list(choices)
        if post_byte is not None:
            subject.code_pkg.post_byte = post_byte
        subject.operand.left = left if left is not None else NumericValue(0)
        if this_index < len(statements):
            statements[this_index] = subject
        try:
            returned = subject.determine_pcr_relative_sizes(statements, this_index)
        except Exception as error:
            returned = ["raised", type(error).__name__, str(error)]
        return [show(returned), show(subject), show(subject.code_pkg), safe(lambda: subject.code_pkg.post_byte.hex())]
    return run


ROW = [(1, 1)] * 300
for target in (0, 1, 2, 100, 126, 127, 128, 129, 130, 131, 200, 299, 300, 301, 5000, -1):
    case("hand-forward-to-{}".format(target), by_hand(2, NumericValue(target) if target >= 0 else NumericValue(target), ROW))
    case("hand-backward-from-{}".format(target), by_hand(max(target, 0) if target < 300 else 299, NumericValue(3), ROW))
for low, high in ((1, 1), (1, 2), (2, 2), (1, 3), (0, 0), (3, 4)):
    for span in (40, 41, 42, 43, 62, 63, 64, 125, 126, 127):
        case("hand-sizes-{}-{}-span-{}".format(low, high, span), by_hand(0, NumericValue(span), [(low, high)] * 200))
        case("hand-sizes-back-{}-{}-span-{}".format(low, high, span), by_hand(span, NumericValue(0), [(low, high)] * 200))
case("hand-no-choices", by_hand(0, NumericValue(5), ROW, choices=()))
case("hand-one-choice-near", by_hand(0, NumericValue(5), ROW, choices=(0x8C,)))
case("hand-one-choice-far", by_hand(0, NumericValue(250), ROW, choices=(0x8C,)))
case("hand-indirect-choices", by_hand(0, NumericValue(250), ROW, choices=(0x9C, 0x9D), post_byte=NumericValue(0x80)))
case("hand-post-byte-none", by_hand(0, NumericValue(5), ROW, post_byte=NoneValue()))
case("hand-post-byte-register-bits", by_hand(9, NumericValue(5), ROW, post_byte=NumericValue(0x60)))
case("hand-additional-none", by_hand(0, NoneValue(), ROW))
case("hand-additional-address", by_hand(0, AddressValue(100), ROW))
case("hand-left-text", by_hand(0, NumericValue(5), ROW, left="A"))
case("hand-left-expression", by_hand(0, NumericValue(5), ROW, left=Value.create_from_str("HERE+1")))
case("hand-text-sizes", by_hand(0, NumericValue(5), [("a", "b")] * 10))
case("hand-float-sizes", by_hand(0, NumericValue(5), [(1.5, 2.5)] * 10))
case("hand-empty-statements", by_hand(0, NumericValue(5), []))


# 5. the command line front end
def front_end(lines):
    return cli("assembler.py", ["p.asm", "--print", "--symbols", "--to_bin", "p.bin"],
               files={"p.asm": "\n".join(lines) + "\n"})


for distance in (120, 124, 125, 126, 127, 128, 129):
    case("cli-forward-{}".format(distance), lambda: front_end(forward(distance, "LEAX {},PCR")))
    case("cli-backward-{}".format(distance), lambda: front_end(backward(distance, "LDA [{},PCR]")))
case("cli-label-plus-register", lambda: front_end(["START LDA TARGET,X", "TARGET RTS"]))
'''


def run_tree(tree):
    tree = os.path.abspath(tree)
    env = dict(os.environ, PYTHONDONTWRITEBYTECODE="1")
    done = subprocess.run([PYTHON, "-c", DRIVER_HEAD + DRIVER_CASES + DRIVER_TAIL, tree, PYTHON],
                          cwd=tree, env=env, capture_output=True, text=True)
    marker = done.stdout.rfind("@@RESULTS@@")
    if done.returncode != 0 or marker < 0:
        print("driver failed for", tree)
        print(done.stdout[-2000:])
        print(done.stderr[-4000:])
        sys.exit(1)
    return json.loads(done.stdout[marker + len("@@RESULTS@@"):])


def main():
    if len(sys.argv) != 3:
        print(__doc__)
        sys.exit(2)
    first, second = run_tree(sys.argv[1]), run_tree(sys.argv[2])
    bad = 0
    if [label for label, _ in first] != [label for label, _ in second]:
        print("case lists differ")
        bad += 1
    for (label, left), (_, right) in zip(first, second):
        if left != right:
            bad += 1
            print("DIFF in case", label)
            print("  A:", json.dumps(left)[:1500])
            print("  B:", json.dumps(right)[:1500])
    print("{} cases compared, {} differ".format(len(first), bad))
    sys.exit(1 if bad or len(first) < 30 else 0)


if __name__ == "__main__":
    main()
