#!/usr/bin/env python
"""
Differential check: runs the same battery of cases against two source trees
(one subprocess per tree, the tree first on sys.path, a private scratch
directory as cwd) and compares every observable result.

usage: equiv.py <treeA> <treeB>      exit 0 = all cases agree, 1 = otherwise
"""
import json
import os
import subprocess
import sys
import tempfile

DRIVER = r'''
import contextlib, hashlib, io, json, os, sys, types, subprocess

TREE, WORK = sys.argv[1], sys.argv[2]
sys.path.insert(0, TREE)
os.chdir(WORK)
RESULTS = {}


def digest(data):
    data = bytes(data)
    return {"len": len(data), "sha": hashlib.sha256(data).hexdigest(), "head": data[:48].hex()}


def snapshot(directory="."):
    out = {}
    for root, _, files in os.walk(directory):
        for name in sorted(files):
            path = os.path.join(root, name)
            with open(path, "rb") as handle:
                out[os.path.relpath(path, directory)] = digest(handle.read())
    return dict(sorted(out.items()))


def outcome(func, *args, **kwargs):
    """Runs func, returns its (jsonable) value or the exception type/message, plus stdout."""
    stream = io.StringIO()
    try:
        with contextlib.redirect_stdout(stream):
            value = func(*args, **kwargs)
        result = {"value": value}
    except SystemExit as error:
        result = {"exit": repr(error.code)}
    except BaseException as error:
        result = {"raised": type(error).__name__, "message": str(error)}
    result["stdout"] = stream.getvalue()
    return result


def case(name, func, *args, **kwargs):
    assert name not in RESULTS, name
    RESULTS[name] = outcome(func, *args, **kwargs)


def describe(coco_file):
    """Everything observable about a CoCoFile returned by a reader."""
    def val(v):
        try:
            return [type(v).__name__, v.hex(), v.int]
        except Exception as error:
            return [type(v).__name__, "ERR", str(error)]
    return {
        "name": coco_file.name, "extension": coco_file.extension,
        "type": val(coco_file.type), "data_type": val(coco_file.data_type),
        "gaps": val(coco_file.gaps), "load": val(coco_file.load_addr), "exec": val(coco_file.exec_addr),
        "data": digest(coco_file.data), "ignore_gaps": coco_file.ignore_gaps, "str": str(coco_file),
    }


def in_dir(name):
    """Creates and enters a fresh sub-directory of the scratch dir; returns a function to leave."""
    path = os.path.join(WORK, name)
    os.makedirs(path)
    os.chdir(path)
    return lambda: os.chdir(WORK)


def assemble(case_name, source, to_bin=None, to_cas=None, to_dsk=None, name=None, append=False,
             symbols=False, listing=False, width=100, pre=None):
    """Runs assembler.main() in a fresh directory; records stdout, outcome, files and what the readers list."""
    import assembler
    import file_util
    leave = in_dir(case_name)
    try:
        with open("prog.asm", "w") as handle:
            handle.write(source)
        if pre:
            pre()
        args = types.SimpleNamespace(filename="prog.asm", symbols=symbols, print=listing, to_bin=to_bin,
                                     to_cas=to_cas, to_dsk=to_dsk, name=name, append=append, width=width)
        result = outcome(assembler.main, args)
        result["files"] = snapshot()
        listings = {}
        for image in (to_cas, to_dsk, to_bin):
            if image and os.path.exists(image):
                fu_args = types.SimpleNamespace(host_filename=image, append=False, list=True, to_bin=None,
                                                to_cas=None, to_dsk=None, files=None)
                listings[image] = outcome(file_util.main, fu_args)
        result["listings"] = listings
        RESULTS[case_name] = result
    finally:
        leave()


def program(origin=None, nam=None, size=4, end=None, fill=0x12):
    lines = []
    if nam is not None:
        lines.append("        NAM {}".format(nam))
    if origin is not None:
        lines.append("        ORG {}".format(origin))
    lines.append("START   LDA #$01")
    body = size - 2
    while body > 0:
        chunk = min(body, 8)
        lines.append("        FCB " + ",".join("${:02X}".format((fill + body + k) & 0xFF) for k in range(chunk)))
        body -= chunk
    lines.append("        END {}".format(end) if end else "        END")
    return "\n".join(lines) + "\n"


# ---- unit level: the sizing arithmetic of DiskFile ---------------------------------------------
from cocoasm.virtualfiles.disk import DiskFile, MLPreamble, BasicPreamble, ASCIIPreamble, Postamble
from cocoasm.virtualfiles.coco_file import CoCoFile
from cocoasm.values import NumericValue

AMBLES = {"ml": (MLPreamble, Postamble), "basic": (BasicPreamble, None), "ascii": (ASCIIPreamble, None)}
LENGTHS = (0, 1, 245, 246, 247, 250, 251, 252, 253, 255, 256, 257, 2293, 2294, 2295, 2298, 2299, 2300, 2301, 2303, 2304,
           2305, 4597, 4598, 4599, 4603, 4604, 4608, 6902, 6903, 20000, 65535, 65536)


def sizing(kind, length):
    pre_cls, post_cls = AMBLES[kind]
    pre, post = pre_cls(), (post_cls() if post_cls else None)
    data = [0x5A] * length
    return [
        DiskFile.calculate_granules_needed(data, pre, post),
        DiskFile.calculate_last_sector_bytes_used(data, pre, post),
        DiskFile.calculate_last_granules_sectors_used(data, pre, post),
        DiskFile.calculate_sectors_needed(length),
    ]


for kind in AMBLES:
    for length in LENGTHS:
        case("sizing_{}_{}".format(kind, length), sizing, kind, length)
case("sizing_bad_preamble", DiskFile.calculate_granules_needed, [1, 2], None, None)
case("sizing_bad_data", DiskFile.calculate_last_sector_bytes_used, None, MLPreamble(), None)
case("sectors_table", lambda: [DiskFile.calculate_sectors_needed(n) for n in range(0, 2400, 7)])
case("seek_all", lambda: [DiskFile.seek_granule(g) for g in range(-2, 70)])
case("seek_static_and_instance", lambda: [DiskFile().seek_granule(33), DiskFile().seek_granule(34), DiskFile.seek_granule(33.0)])
case("seek_bad", DiskFile.seek_granule, "x")
case("seek_none", DiskFile.seek_granule, None)


def disk_round_trip(kind, length):
    type_val, data_type = {"ml": (2, 0), "basic": (0, 0), "ascii": (1, 0xFF)}[kind]
    disk = DiskFile()
    for index in range(2):
        disk.add_file(CoCoFile(name="F{}".format(index), extension="bin", type=NumericValue(type_val),
                               data_type=NumericValue(data_type), load_addr=NumericValue(0x1234),
                               exec_addr=NumericValue(0x1240), data=[(i * 7 + index) & 0xFF for i in range(length)]))
    return {"image": digest(disk.get_buffer()), "files": [describe(f) for f in DiskFile(buffer=disk.get_buffer()).list_files()]}


for kind in AMBLES:
    for length in (0, 1, 246, 251, 2294, 2299, 2304, 4598, 4603, 9000):
        case("disk_rt_{}_{}".format(kind, length), disk_round_trip, kind, length)


def fill_disk():
    disk = DiskFile()
    added = 0
    try:
        while True:
            disk.add_file(CoCoFile(name="N{}".format(added), extension="bin", type=NumericValue(2), data_type=NumericValue(0),
                                   load_addr=NumericValue(0), exec_addr=NumericValue(0), data=[added] * 5000))
            added += 1
    except Exception as error:
        return [added, type(error).__name__, str(error), digest(disk.get_buffer())]


case("disk_full", fill_disk)

# ---- end-to-end runs of assembler.main() ------------------------------------------------------
ALL = dict(to_bin="out.bin", to_cas="out.cas", to_dsk="out.dsk")
for size in (2, 3, 245, 246, 247, 254, 255, 256, 257, 510, 511, 2293, 2294, 2295, 2304, 4598, 4599, 4600):
    assemble("cli_size_{}".format(size), program("$0E00", "PROG", size), **ALL)
for label, origin in (("none", None), ("zero", "0"), ("ff", "$00FF"), ("100", "$0100"), ("7fff", "$7FFF"), ("fff0", "$FFF0")):
    assemble("cli_origin_" + label, program(origin, "ORGTEST", 20), **ALL)
for nam in ("A", "ab", "MixedCas", "eightchr", "ninechars", "twelvechars1", "UPPER"):
    assemble("cli_nam_" + nam, program("$2000", nam, 10), **ALL)
assemble("cli_name_switch", program("$2000", None, 10), name="fromarg", **ALL)
assemble("cli_name_switch_long", program("$2000", None, 10), name="averylongname", **ALL)
assemble("cli_nam_beats_switch", program("$2000", "INNER", 10), name="outer", **ALL)
assemble("cli_noname_all", program("$2000", None, 10), **ALL)
assemble("cli_noname_cas", program("$2000", None, 10), to_cas="out.cas")
assemble("cli_noname_dsk", program("$2000", None, 10), to_dsk="out.dsk")
assemble("cli_noname_bin", program("$2000", None, 10), to_bin="out.bin")
assemble("cli_only_cas", program("$3000", "ONE", 300), to_cas="out.cas")
assemble("cli_only_dsk", program("$3000", "ONE", 300), to_dsk="out.dsk")
assemble("cli_end_operand", program("$3000", "ENDOP", 30, end="START"), **ALL)
assemble("cli_listing", program("$3000", "LST", 12), symbols=True, listing=True, **ALL)
assemble("cli_parse_error", "        NAM X\n        FOO #1\n", **ALL)
assemble("cli_translate_error", "        NAM X\n        LDA MISSING\n", **ALL)


def first_image():
    import assembler
    with open("first.asm", "w") as handle:
        handle.write(program("$1000", "FIRST", 700))
    assembler.main(types.SimpleNamespace(filename="first.asm", symbols=False, print=False, name=None, append=False,
                                         width=100, **ALL))


assemble("cli_exists_no_append", program("$4000", "SECOND", 40), pre=first_image, **ALL)
assemble("cli_exists_append", program("$4000", "SECOND", 2400), pre=first_image, append=True, **ALL)
assemble("cli_cas_onto_dsk", program("$4000", "SECOND", 40), pre=first_image, append=True, to_cas="out.dsk")
assemble("cli_dsk_onto_cas", program("$4000", "SECOND", 40), pre=first_image, append=True, to_dsk="out.cas")


def real_cli():
    leave = in_dir("real_cli")
    try:
        with open("prog.asm", "w") as handle:
            handle.write(program("$0E00", "RealRun", 600))
        runs = []
        for argv in (["assembler.py", "prog.asm", "--to_bin", "r.bin", "--to_cas", "r.cas", "--to_dsk", "r.dsk"],
                     ["file_util.py", "r.cas", "--list"], ["file_util.py", "r.dsk", "--list"],
                     ["assembler.py", "prog.asm", "--to_dsk", "r.dsk"],
                     ["assembler.py", "prog.asm", "--to_dsk", "r.dsk", "--append"],
                     ["file_util.py", "r.dsk", "--list"]):
            proc = subprocess.run([sys.executable, os.path.join(TREE, argv[0])] + argv[1:], capture_output=True, text=True)
            runs.append([proc.returncode, proc.stdout, proc.stderr])
        return {"runs": runs, "files": snapshot()}
    finally:
        leave()


case("real_cli_subprocess", real_cli)

json.dump(RESULTS, sys.stdout)
'''


def run_tree(tree):
    tree = os.path.abspath(tree)
    with tempfile.TemporaryDirectory() as work:
        driver = os.path.join(work, "_driver.py")
        with open(driver, "w") as handle:
            handle.write(DRIVER)
        scratch = os.path.join(work, "w")
        os.mkdir(scratch)
        env = dict(os.environ, PYTHONPATH=tree, PYTHONDONTWRITEBYTECODE="1", PYTHONHASHSEED="0")
        proc = subprocess.run(
            [sys.executable, driver, tree, scratch],
            cwd=scratch, env=env, capture_output=True, text=True,
        )
        if proc.returncode != 0:
            print("driver failed for", tree)
            print(proc.stdout[-2000:])
            print(proc.stderr[-4000:])
            sys.exit(1)
        return json.loads(proc.stdout)


def main():
    if len(sys.argv) != 3:
        print(__doc__)
        sys.exit(2)
    res_a = run_tree(sys.argv[1])
    res_b = run_tree(sys.argv[2])
    names = list(res_a.keys())
    bad = 0
    if names != list(res_b.keys()):
        print("case lists differ")
        bad += 1
    for name in names:
        if res_a[name] != res_b.get(name):
            bad += 1
            print("DIFF in case", name)
            print("  A:", json.dumps(res_a[name])[:600])
            print("  B:", json.dumps(res_b.get(name))[:600])
    print("{} cases compared, {} differ".format(len(names), bad))
    sys.exit(1 if bad else 0)


if __name__ == "__main__":
    main()
