#!/usr/bin/env python
"""
Differential demonstration: runs the same inputs through the code of two
source trees (one subprocess per tree, the tree being cwd and the first entry
of sys.path) and compares every observable result.

usage: equiv.py <treeA> <treeB>      exit 0 = all cases agree, 1 = difference
"""
import json
import os
import subprocess
import sys

WORKER = r'''
import contextlib, enum, io, json, os, subprocess, sys, tempfile
tree = os.path.abspath(sys.argv[1])
os.chdir(tree)
sys.path.insert(0, tree)
sys.dont_write_bytecode = True

import cocoasm.values as values_mod
import cocoasm.operands as operands_mod
import cocoasm.instruction as instruction_mod
import cocoasm.statement as statement_mod
import cocoasm.program as program_mod
import cocoasm.exceptions as exceptions_mod
from cocoasm.values import *
from cocoasm.operands import *
from cocoasm.instruction import *
from cocoasm.statement import Statement
from cocoasm.program import Program
from cocoasm.exceptions import *


def safe(fn):
    try:
        return describe(fn())
    except Exception as error:
        return {"raised": type(error).__name__, "msg": str(error)}


def describe(obj, depth=0):
    if depth > 6:
        return "<deep>"
    if obj is None or isinstance(obj, (bool, int, str, float)):
        return obj
    if isinstance(obj, bytes):
        return obj.hex()
    if isinstance(obj, enum.Enum):
        return str(obj)
    if isinstance(obj, (list, tuple)):
        return [describe(x, depth + 1) for x in obj]
    if isinstance(obj, (set, frozenset)):
        return sorted(describe(x, depth + 1) for x in obj)
    if isinstance(obj, dict):
        return [[describe(k, depth + 1), describe(v, depth + 1)] for k, v in obj.items()]
    if isinstance(obj, values_mod.Value):
        out = {"cls": type(obj).__name__}
        for name in ("type", "int", "size_hint", "explict_addressing_mode", "negative", "resolved",
                     "original_string", "hex_array", "operation", "original_value"):
            if hasattr(obj, name):
                out[name] = describe(getattr(obj, name), depth + 1)
        for name in ("left", "right", "value"):
            if hasattr(obj, name):
                out[name] = describe(getattr(obj, name), depth + 1)
        out["hex()"] = safe(obj.hex)
        out["hex_len()"] = safe(obj.hex_len)
        out["byte_len()"] = safe(obj.byte_len)
        out["is_8_bit()"] = safe(obj.is_8_bit)
        out["is_16_bit()"] = safe(obj.is_16_bit)
        return out
    if isinstance(obj, instruction_mod.CodePackage):
        return {"cls": "CodePackage", "fields": [[k, describe(v, depth + 1)] for k, v in sorted(vars(obj).items())]}
    if isinstance(obj, operands_mod.Operand):
        out = {"cls": type(obj).__name__}
        for name in ("type", "operand_string", "requires_resolution", "operation", "value", "left", "right"):
            out[name] = describe(getattr(obj, name, "<missing>"), depth + 1)
        out["mnemonic"] = getattr(obj.instruction, "mnemonic", None)
        return out
    if isinstance(obj, instruction_mod.Instruction):
        return {"cls": "Instruction", "fields": describe(tuple(obj), depth + 1)}
    if isinstance(obj, instruction_mod.Mode):
        return {"cls": "Mode", "fields": list(obj)}
    if isinstance(obj, statement_mod.Statement):
        out = {"cls": "Statement"}
        for name in ("is_empty", "is_comment_only", "label", "mnemonic", "comment", "state", "fixed_size",
                     "pcr_size_hint", "operand", "original_operand", "code_pkg"):
            out[name] = describe(getattr(obj, name, "<missing>"), depth + 1)
        out["str"] = safe(lambda: str(obj))
        return out
    if isinstance(obj, BaseException):
        out = {"exc": type(obj).__name__, "msg": str(obj), "args": describe(obj.args, depth + 1)}
        if hasattr(obj, "value"):
            out["value"] = describe(obj.value, depth + 1)
        if hasattr(obj, "statement"):
            stmt = obj.statement
            out["statement"] = stmt if isinstance(stmt, str) else safe(lambda: str(stmt))
        return out
    return "<{}>".format(type(obj).__name__)


def run_program(lines, deep):
    program = Program()
    out = {}
    try:
        program.process([line + "\n" for line in lines])
    except BaseException as error:
        out["error"] = describe(error)
        out["statements_so_far"] = len(program.statements)
        return out
    out["binary"] = safe(program.get_binary_array)
    out["listing"] = safe(program.get_statements)
    out["symbols"] = safe(program.get_symbol_table)
    out["symbol_table"] = describe(program.symbol_table)
    out["origin"] = describe(program.origin)
    out["name"] = describe(program.name)
    out["layout"] = [
        [s.code_pkg.size, s.code_pkg.max_size, describe(s.code_pkg.address.hex()), s.fixed_size, s.pcr_size_hint]
        for s in program.statements
    ]
    if deep:
        out["statements"] = [describe(s) for s in program.statements]
    return out


def run_python(code):
    namespace = dict(globals())
    stream = io.StringIO()
    out = {}
    try:
        with contextlib.redirect_stdout(stream):
            exec(code, namespace)
        out["result"] = describe(namespace.get("result"))
    except BaseException as error:
        out["error"] = describe(error)
    out["stdout"] = stream.getvalue()
    return out


def run_cli(case):
    out = {}
    with tempfile.TemporaryDirectory() as work:
        for name, content in case.get("files", {}).items():
            with open(os.path.join(work, name), "wb") as handle:
                handle.write(content.encode("latin-1"))
        env = dict(os.environ, PYTHONDONTWRITEBYTECODE="1")
        done = subprocess.run(
            [sys.executable, os.path.join(tree, case["tool"])] + case["argv"],
            cwd=work, env=env, stdout=subprocess.PIPE, stderr=subprocess.PIPE, timeout=120,
        )
        out["returncode"] = done.returncode
        out["stdout"] = done.stdout.decode("latin-1").replace(tree, "<TREE>")
        stderr_lines = done.stderr.decode("latin-1").replace(tree, "<TREE>").strip().splitlines()
        # tracebacks carry line numbers of the tree, keep only the final line
        out["stderr_last"] = stderr_lines[-1] if stderr_lines else ""
        out["files"] = {}
        for name in sorted(os.listdir(work)):
            with open(os.path.join(work, name), "rb") as handle:
                out["files"][name] = handle.read().hex()
    return out


results = []
for case in json.load(sys.stdin):
    kind = case["k"]
    if kind == "prog":
        results.append(run_program(case["src"], case.get("deep", False)))
    elif kind == "py":
        results.append(run_python(case["code"]))
    elif kind == "cli":
        results.append(run_cli(case))
    else:
        results.append({"bad kind": kind})
json.dump(results, sys.stdout)
'''


def prog(*lines, deep=True):
    return {"k": "prog", "src": list(lines), "deep": deep}


def py(code):
    return {"k": "py", "code": code}


def cli(tool, argv, files=None):
    return {"k": "cli", "tool": tool, "argv": list(argv), "files": files or {}}


def one(statement, *extra, deep=True):
    """A one-instruction program at $1000 with a few symbols available."""
    return prog(
        "        ORG   $1000",
        "SMALL   EQU   $12",
        "BIG     EQU   $1234",
        "START   NOP   ",
        "        " + statement,
        "NEXT    NOP   ",
        *extra, deep=deep
    )


def run_tree(tree, cases):
    env = dict(os.environ, PYTHONDONTWRITEBYTECODE="1")
    done = subprocess.run(
        [sys.executable, "-B", "-c", WORKER, tree],
        input=json.dumps(cases).encode(), stdout=subprocess.PIPE, stderr=subprocess.PIPE,
        cwd=tree, env=env,
    )
    if done.returncode != 0:
        sys.stderr.write(done.stderr.decode())
        raise SystemExit("worker failed for " + tree)
    return json.loads(done.stdout.decode())


def main():
    if len(sys.argv) != 3:
        raise SystemExit(__doc__)
    tree_a, tree_b = (os.path.abspath(p) for p in sys.argv[1:3])
    cases = build_cases()
    results_a = run_tree(tree_a, cases)
    results_b = run_tree(tree_b, cases)
    different = 0
    errors = 0
    for case, res_a, res_b in zip(cases, results_a, results_b):
        if "error" in res_a:
            errors += 1
        if res_a != res_b:
            different += 1
            if different <= 10:
                print("DIFFERENT:", json.dumps(case)[:400])
                print("   A:", json.dumps(res_a)[:600])
                print("   B:", json.dumps(res_b)[:600])
    print("{} cases ({} of them error cases in tree A), {} different".format(len(cases), errors, different))
    return 1 if different or len(results_a) != len(cases) or len(results_b) != len(cases) else 0


LITERALS = [0, 1, 15, 16, 17, 127, 128, 129, 255, 256, 257, 32767, 32768, 65535, 65536, 70000, -1, -15, -16, -17, -127,
            -128, -129, -255, -256, -32768, -32769, -65535, -65536,
            "0", "15", "16", "127", "128", "255", "256", "65535", "65536", "-1", "-16", "-17", "-128", "-129",
            "-32768", "-32769", "$0", "$F", "$10", "$7F", "$80", "$FF", "$0FF", "$100", "$00FF", "$FFFF", "$10000",
            "%00001111", "%11111111", "%0000000011111111", "%1", "'A", "'z", "'0", "'$", "' ", "''", "", "XYZ", "1.5",
            "$", "%", "-", "--1", "0x10"]
MODES = ["NONE", "DIRECT", "EXTENDED", "IMMEDIATE", "EXPLICIT_DIRECT", "EXPLICIT_EXTENDED", "RELATIVE",
         "EXTENDED_INDIRECT"]
OFFSETS = ["0", "1", "15", "16", "17", "127", "128", "129", "255", "256", "32767", "32768", "65535", "-1", "-15", "-16",
           "-17", "-127", "-128", "-129", "-255", "-256", "-32768", "$0F", "$10", "$7F", "$80", "$FF", "$0100", "$FFFF",
           "'A", "%00010000", "SMALL", "BIG", "NEG", "START"]


def build_cases():
    cases = []
    probe = (
        "v = {ctor}\n"
        "result = [v, v.is_4_bit(), v.is_8_bit(), v.is_16_bit(), v.hex(), v.hex(2), v.hex(4), v.hex_len(), v.byte_len(),\n"
        "          v.high_byte(), v.low_byte(), v.get_negative(), v.is_direct(), v.is_extended(), str(v)]\n")
    for literal in LITERALS:
        for mode in MODES:
            for hint in (None, 2, 4):
                cases.append(py(probe.format(ctor="NumericValue({!r}, size_hint={!r}, mode=ExplicitAddressingMode.{})"
                                             .format(literal, hint, mode))))
        cases.append(py(probe.format(ctor="DirectNumericValue({!r})".format(literal))))
        cases.append(py(probe.format(ctor="ExtendedNumericValue({!r})".format(literal))))
        cases.append(py("result = Value.create_from_str({!r})".format(literal if isinstance(literal, str) else str(literal))))
    # statement indexes / addresses
    for number in [0, 1, 9, 15, 16, 255, 256, 4095, 4096, 65535, 65536, "7", "12", "x", -1, -16, -17, -256]:
        for mode in ("NONE", "EXTENDED", "EXPLICIT_EXTENDED", "DIRECT"):
            cases.append(py(
                "v = AddressValue({!r}, mode=ExplicitAddressingMode.{})\n"
                "result = [v, v.hex(), v.hex(size=0), v.hex(size=1), v.hex(size=2), v.hex(size=4), v.hex(6), v.hex_len(),"
                " v.byte_len(), v.high_byte(), v.low_byte(), str(v)]".format(number, mode)))
    for cls in ("NoneValue", "SymbolValue", "LeftRightValue", "ExpressionValue"):
        for mode in MODES:
            text = {"NoneValue": "None", "SymbolValue": "'ABC'", "LeftRightValue": "'1,X'",
                    "ExpressionValue": "'A+1'"}[cls]
            cases.append(py("result = {}({}, mode=ExplicitAddressingMode.{})".format(cls, text, mode)
                            if cls != "NoneValue" else "result = Value.__init__\nv = NoneValue()\n"
                            "Value.__init__(v, 'x', None, ExplicitAddressingMode.{})\nresult = v".format(mode)))
    # through the assembler: widths of index offsets, direct / extended / immediate operands
    for offset in OFFSETS:
        for template in ("LDA   {},X", "LDX   [{},Y]", "LEAU  {},S", "STB   {},PCR", "LDA   {}", "LDX   {}",
                         "LDA   #{}", "LDX   #{}", "LDA   <{}", "LDA   >{}", "LDA   [{}]", "JMP   {}"):
            cases.append(one(template.format(offset), "NEG     EQU   -5", deep=False))
    for value in OFFSETS:
        cases.append(prog("        ORG   " + value, "V       EQU   " + value, "        FCB   " + value,
                          "        FDB   " + value, "        LDA   V", "        LDA   V,X"))
    source = "\n".join(["        NAM   WIDTH", "        ORG   $0E00", "VAL     EQU   255", "WIDE    EQU   256",
                        "START   LDA   VAL", "        LDB   WIDE", "        LDA   15,X", "        LDA   16,X",
                        "        LDA   -16,X", "        LDA   -17,X", "        LDA   127,X", "        LDA   128,X",
                        "        LDA   -128,X", "        LDA   -129,X", "        LDX   #'A", "        JMP   START",
                        "        END   START", ""])
    cases.append(cli("assembler.py", ["w.asm", "--print", "--symbols", "--to_bin", "w.bin"], {"w.asm": source}))
    return cases


if __name__ == "__main__":
    sys.exit(main())
