#!/venv/bin/python
"""
Differential check for property C16 (file_util conversions / virtual file containers).

usage: equiv.py <treeA> <treeB>

The same worker (below, WORKER) is run once per tree in a subprocess with the tree as
cwd and at the front of sys.path.  It drives the container classes directly and the
file_util.py command line in temporary directories, and prints one JSON document with
every observable result.  The two documents must be identical.
"""
import json
import os
import subprocess
import sys
import tempfile

WORKER = r'''
import hashlib, io, json, os, shutil, subprocess, sys, tempfile
TREE = os.getcwd()
sys.path.insert(0, TREE)
from cocoasm.values import NumericValue, NoneValue
from cocoasm.virtualfiles.coco_file import CoCoFile
from cocoasm.virtualfiles.cassette import CassetteFile
from cocoasm.virtualfiles.disk import DiskFile, DiskConstants, MLPreamble, BasicPreamble, ASCIIPreamble, Postamble
from cocoasm.virtualfiles.binary import BinaryFile
from cocoasm.virtualfiles.source_file import SourceFile, SourceFileType
from cocoasm.virtualfiles.virtual_file import VirtualFile, VirtualFileType
from cocoasm.virtualfiles.virtual_file_container import VirtualFileContainer

RESULTS = {}


def digest(buffer):
    try:
        return [len(buffer), hashlib.sha256(bytes(bytearray(buffer))).hexdigest()]
    except Exception as error:
        return [len(buffer), repr(buffer)[:400], type(error).__name__]


def show_value(value):
    if value is None:
        return None
    return [type(value).__name__, value.int, value.hex(), value.hex_len()]


def show_file(coco_file):
    if coco_file is None:
        return None
    return {
        "name": coco_file.name, "extension": coco_file.extension,
        "type": show_value(coco_file.type), "data_type": show_value(coco_file.data_type),
        "gaps": show_value(coco_file.gaps), "load": show_value(coco_file.load_addr),
        "exec": show_value(coco_file.exec_addr), "ascii": coco_file.ascii,
        "data": digest(coco_file.data), "ignore_gaps": coco_file.ignore_gaps, "str": str(coco_file),
    }


def case(name, function):
    try:
        RESULTS[name] = ["ok", function()]
    except SystemExit as error:
        RESULTS[name] = ["exit", repr(error.code)]
    except BaseException as error:
        text = str(error)
        for scratch in (globals().get("WORK"), globals().get("CLI")):
            if scratch:
                text = text.replace(scratch, "<scratch>")
        RESULTS[name] = ["raised", type(error).__name__, text]


def pattern(length, seed=7):
    return [(seed + index * 13 + index // 251) & 0xFF for index in range(length)]


def make_file(name="PROG", extension="BIN", file_type=0x02, data_type=0x00, load=0x0E00, execute=0x0E10,
              length=20, seed=7, **extra):
    return CoCoFile(
        name=name, extension=extension, type=NumericValue(file_type), data_type=NumericValue(data_type),
        gaps=NumericValue(0), load_addr=NumericValue(load), exec_addr=NumericValue(execute),
        data=pattern(length, seed), **extra
    )


# ---------------------------------------------------------------- cassette: header / blocks
HEADER_FILES = {
    "plain": make_file(),
    "empty-name": make_file(name=""),
    "short-name": make_file(name="AB"),
    "eight": make_file(name="ABCDEFGH"),
    "long-name": make_file(name="ABCDEFGHIJKL"),
    "lower": make_file(name="hello"),
    "nul-name": make_file(name="AB\0CD"),
    "padded": make_file(name="AB      "),
    "basic": make_file(file_type=0x00, data_type=0x00),
    "ascii": make_file(file_type=0x00, data_type=0xFF),
    "data": make_file(file_type=0x01, data_type=0xFF),
    "addr-0": make_file(load=0, execute=0),
    "addr-ff": make_file(load=0xFF, execute=0x100),
    "addr-max": make_file(load=0xFFFF, execute=0xFFFE),
    "addr-none": CoCoFile(name="X", type=NumericValue(2), data_type=NumericValue(0), data=[1, 2, 3]),
    "all-none": CoCoFile(name="NONE"),
    "wide-type": make_file(file_type=0x1FF),
}
for label, coco_file in HEADER_FILES.items():
    def header(coco_file=coco_file):
        cassette = CassetteFile()
        result = cassette.append_header(coco_file)
        return [result, list(cassette.buffer)]
    case("cas-header-" + label, header)


def broken_header(**fields):
    def run():
        cassette = CassetteFile()
        bad = make_file()._replace(**fields)
        try:
            cassette.append_header(bad)
        except Exception as error:
            return [type(error).__name__, str(error), list(cassette.buffer)]
        return ["no error", list(cassette.buffer)]
    return run


case("cas-header-bad-name", broken_header(name=None))
case("cas-header-bad-type", broken_header(type=None))
case("cas-header-bad-data-type", broken_header(data_type=None))
case("cas-header-bad-load", broken_header(load_addr=None))
case("cas-header-bad-exec", broken_header(exec_addr=None))
case("cas-header-int-name", broken_header(name=[65, 66]))


def fixed_blocks():
    out = {}
    for method in ("append_eof", "append_leader", "append_blank"):
        cassette = CassetteFile()
        cassette.buffer.append(0x12)
        out[method] = [getattr(cassette, method)(), list(cassette.buffer)]
    return out


case("cas-fixed-blocks", fixed_blocks)

for name in ("", "A", "ABCDEFGH", "ABCDEFGHI", "a b", "\0\0", "été"):
    def append_name(name=name):
        cassette = CassetteFile()
        return [cassette.append_name(name), list(cassette.buffer)]
    case("cas-append-name-" + repr(name), append_name)

for length in (0, 1, 2, 254, 255, 256, 509, 510, 511, 700):
    def data_blocks(length=length):
        out = []
        for gaps in (False, True):
            cassette = CassetteFile()
            cassette.append_data_blocks(pattern(length), gaps=gaps)
            out.append(digest(cassette.buffer))
        return out
    case("cas-data-blocks-%d" % length, data_blocks)


# ---------------------------------------------------------------- cassette: whole images
def cassette_image(files):
    cassette = CassetteFile()
    cassette.add_files(files)
    return cassette.get_buffer()


FILE_SETS = {
    "one": [make_file()],
    "two": [make_file(name="FIRST", length=300), make_file(name="SECOND", file_type=0, data_type=0xFF, length=10)],
    "three": [make_file(name="A", length=1), make_file(name="bb", length=255, seed=3),
              make_file(name="CCCCCCCC", length=256, seed=9, file_type=1)],
    "same-names": [make_file(name="DUP", length=5), make_file(name="DUP", length=6, seed=1)],
    "empty-data": [make_file(name="EMPTY", length=0), make_file(name="AFTER", length=4)],
    "big": [make_file(name="BIG", length=5000), make_file(name="TAIL", length=2304, seed=2)],
    "long-names": [make_file(name="LONGERTHAN8", length=12), make_file(name="x", extension="bas", length=3)],
    "none": [],
}
for label, files in FILE_SETS.items():
    def cassette_round_trip(files=files):
        buffer = cassette_image(files)
        out = {"image": digest(buffer)}
        out["all"] = [show_file(f) for f in CassetteFile(buffer=list(buffer)).list_files()]
        for names in (None, [], ["FIRST   "], ["DUP     ", "A       "], ["nothing"], "DUP     "):
            out["filter-%r" % (names,)] = [
                f.name for f in CassetteFile(buffer=list(buffer)).list_files(filenames=names)
            ]
        reader = CassetteFile(buffer=list(buffer))
        pointer, walked = 0, []
        for _ in range(6):
            coco_file, pointer = reader.read_file(pointer)
            walked.append([coco_file.name if coco_file else None, pointer])
        out["walk"] = walked
        return out
    case("cas-image-" + label, cassette_round_trip)

GOOD = cassette_image(FILE_SETS["two"])
BROKEN_TAPES = {
    "empty": [],
    "zeros": [0] * 300,
    "leader-only": [0x55] * 200,
    "header-cut-5": GOOD[:256 + 5],
    "header-cut-12": GOOD[:256 + 12],
    "header-cut-15": GOOD[:256 + 15],
    "header-cut-19": GOOD[:256 + 19],
    "header-only": GOOD[:256 + 21],
    "data-cut": GOOD[:256 + 21 + 256 + 10],
    "no-eof": GOOD[:256 + 21 + 256 + 4 + 255 + 2],
    "second-cut": GOOD[:len(GOOD) - 30],
    "bad-block-type": GOOD[:256 + 21 + 256 + 2] + [0x07] + GOOD[256 + 21 + 256 + 3:],
    "bad-name-bytes": GOOD[:260] + [0xFF, 0xFE] + GOOD[262:],
    "trailing-sync": GOOD + [0x55, 0x3C, 0x00],
    "trailing-header": GOOD + [0x55, 0x3C, 0x00, 0x0F] + [0x41] * 17,
}
for label, buffer in BROKEN_TAPES.items():
    def broken_tape(buffer=buffer):
        return [show_file(f) for f in CassetteFile(buffer=list(buffer)).list_files()]
    case("cas-broken-" + label, broken_tape)

for label, args in {
    "found": ([1, 2, 3, 4, 2, 3], [2, 3], 0), "later": ([1, 2, 3, 4, 2, 3], [2, 3], 2),
    "missing": ([1, 2, 3], [9], 0), "empty": ([], [1], 0), "at-end": ([1, 2, 3], [3], 2),
    "past-end": ([1, 2, 3], [3], 5), "long": ([1, 2], [1, 2, 3], 0),
}.items():
    def skip(args=args):
        cassette = CassetteFile(buffer=list(args[0]))
        return cassette.skip_to_sequence(args[1], start=args[2])
    case("cas-skip-" + label, skip)


# ---------------------------------------------------------------- container: read_word
for label, args in {
    "start": ([0x12, 0x34, 0x56], 0), "middle": ([0x12, 0x34, 0x56], 1), "last": ([0x12, 0x34, 0x56], 2),
    "past": ([0x12, 0x34, 0x56], 3), "one": ([0x12], 0), "none": ([], 0), "negative": ([1, 2, 3, 4], -2),
    "negative-1": ([1, 2, 3, 4], -1), "zero": ([0, 0], 0), "ffff": ([0xFF, 0xFF], 0), "small": ([0, 5], 0),
}.items():
    def read_word(args=args):
        return show_value(CassetteFile(buffer=list(args[0])).read_word(args[1]))
    case("read-word-" + label, read_word)


def container_init():
    out = []
    for buffer in (None, [], [1, 2, 3]):
        for cls in (CassetteFile, BinaryFile):
            container = cls(buffer=buffer)
            out.append([container.buffer, container.original_buffer, container.buffer is buffer,
                        container.get_buffer() is container.buffer])
    return out


case("container-init", container_init)


# ---------------------------------------------------------------- disk
def disk_image(files, **kwargs):
    disk = DiskFile(**kwargs)
    disk.add_files(files)
    return disk.get_buffer()


DISK_SETS = dict(FILE_SETS)
DISK_SETS.update({
    "sizes": [make_file(name="S%d" % n, length=n, seed=n) for n in (0, 1, 2293, 2294, 2295, 2299, 2304, 4598, 4608)],
    "basic-sizes": [make_file(name="B%d" % n, length=n, file_type=0, data_type=0, extension="BAS")
                    for n in (0, 1, 2300, 2301, 2302, 2304, 4700)],
    "ascii-sizes": [make_file(name="T%d" % n, length=n, file_type=0, data_type=0xFF, extension="TXT")
                    for n in (1, 2303, 2304, 2305)],
    "odd-names": [make_file(name="a\0b", extension="b\0", length=3), make_file(name="  sp", extension="", length=3),
                  make_file(name="TOOLONGNAME", extension="LONG", length=3)],
    "none-addresses": [CoCoFile(name="N", extension="BIN", type=NumericValue(2), data_type=NumericValue(0),
                                data=[1, 2, 3])],
})
for label, files in DISK_SETS.items():
    def disk_round_trip(files=files):
        buffer = disk_image(files)
        out = {"image": digest(buffer), "fat": buffer[DiskConstants.FAT_OFFSET:DiskConstants.FAT_OFFSET + 68],
               "dir": buffer[DiskConstants.DIR_OFFSET:DiskConstants.DIR_OFFSET + 32 * (len(files) + 1)]}
        out["all"] = [show_file(f) for f in DiskFile(buffer=list(buffer)).list_files()]
        out["filtered"] = [f.name for f in DiskFile(buffer=list(buffer)).list_files(filenames=["DUP"])]
        return out
    case("dsk-image-" + label, disk_round_trip)


def disk_directory_full():
    disk = DiskFile()
    added = 0
    try:
        for number in range(75):
            disk.add_file(make_file(name="F%d" % number, length=0, file_type=0, data_type=0xFF))
            added += 1
    except Exception as error:
        return [added, type(error).__name__, str(error), digest(disk.buffer)]
    return [added, digest(disk.buffer)]


def disk_granules_full():
    disk = DiskFile()
    added = 0
    try:
        for number in range(75):
            disk.add_file(make_file(name="G%d" % number, length=3000, seed=number))
            added += 1
    except Exception as error:
        return [added, type(error).__name__, str(error), digest(disk.buffer),
                [f.name for f in DiskFile(buffer=list(disk.buffer)).list_files()]]
    return [added, digest(disk.buffer)]


def disk_too_big():
    disk = DiskFile()
    try:
        disk.add_file(make_file(name="HUGE", length=2304 * 68))
    except Exception as error:
        return [type(error).__name__, str(error), digest(disk.buffer)]
    return digest(disk.buffer)


def disk_fill_order():
    order = list(range(68))
    buffer = disk_image(FILE_SETS["big"], granule_fill_order=order)
    return [digest(buffer), [show_file(f) for f in DiskFile(buffer=list(buffer)).list_files()]]


def disk_short_fill_order():
    return digest(disk_image(FILE_SETS["one"], granule_fill_order=[1, 2, 3]))


def disk_short_buffer_add():
    disk = DiskFile(buffer=[0xFF] * 70000)
    try:
        disk.add_file(make_file())
    except Exception as error:
        return [type(error).__name__, str(error), digest(disk.buffer)]
    return digest(disk.buffer)


def disk_bad_file(**fields):
    def run():
        disk = DiskFile()
        try:
            disk.add_file(make_file()._replace(**fields))
        except Exception as error:
            return [type(error).__name__, str(error), digest(disk.buffer)]
        return ["no error", digest(disk.buffer), [show_file(f) for f in DiskFile(buffer=list(disk.buffer)).list_files()]]
    return run


case("dsk-add-bad-data", disk_bad_file(data=None))
case("dsk-add-bad-type", disk_bad_file(type=None))
case("dsk-add-ml-without-data-type", disk_bad_file(data_type=None))
case("dsk-add-basic-without-data-type", disk_bad_file(type=NumericValue(0), data_type=None))
case("dsk-add-ml-without-addresses", disk_bad_file(load_addr=None, exec_addr=None))
case("dsk-add-basic-without-addresses", disk_bad_file(type=NumericValue(0), load_addr=None, exec_addr=None))
case("dsk-add-none-values", disk_bad_file(type=NoneValue(), data_type=NoneValue()))
case("dsk-add-type-3", disk_bad_file(type=NumericValue(3), data_type=NumericValue(0xFF)))
case("dsk-add-tuple-data", disk_bad_file(data=(1, 2, 3)))
case("dsk-directory-full", disk_directory_full)
case("dsk-granules-full", disk_granules_full)
case("dsk-too-big", disk_too_big)
case("dsk-fill-order", disk_fill_order)
case("dsk-short-fill-order", disk_short_fill_order)
case("dsk-short-buffer-add", disk_short_buffer_add)

DISK_GOOD = disk_image(DISK_SETS["two"])
BROKEN_DISKS = {
    "short": DISK_GOOD[:1000],
    "empty": [],
    "one-less": DISK_GOOD[:DiskConstants.IMAGE_SIZE - 1],
    "blank": [0xFF] * DiskConstants.IMAGE_SIZE,
    "zeros": [0x00] * DiskConstants.IMAGE_SIZE,
    "bad-preamble": [0x33 if i == DiskFile.seek_granule(32) else b for i, b in enumerate(DISK_GOOD)],
    "bad-postamble": [0x33 if i == DiskFile.seek_granule(32) + 5 + 300 else b for i, b in enumerate(DISK_GOOD)],
    "longer": DISK_GOOD + [0] * 10,
    "zero-length-preamble": [0 if DiskFile.seek_granule(32) < i < DiskFile.seek_granule(32) + 3 else b
                             for i, b in enumerate(DISK_GOOD)],
}
for label, buffer in BROKEN_DISKS.items():
    def broken_disk(buffer=buffer):
        return [show_file(f) for f in DiskFile(buffer=list(buffer)).list_files()]
    case("dsk-broken-" + label, broken_disk)


def disk_preambles():
    out = []
    for cls in (MLPreamble, BasicPreamble, ASCIIPreamble, Postamble):
        for buffer in ([0x00, 1, 2, 3, 4, 9], [0xFF, 0, 0, 3, 4, 9], [0xFF, 1], [0x00], [], [0xFF, 0, 7, 3, 4]):
            item = cls()
            try:
                pointer = item.read(list(buffer), 0)
                out.append([cls.__name__, pointer, getattr(item, "length", None)])
            except Exception as error:
                out.append([cls.__name__, type(error).__name__, str(error)])
            item = cls()
            target = list(buffer)
            try:
                pointer = item.write(target, 0)
                out.append([cls.__name__, pointer, target])
            except Exception as error:
                out.append([cls.__name__, type(error).__name__, str(error), target])
    return out


case("dsk-preambles", disk_preambles)


def disk_dir_entry():
    out = []
    for coco_file in DISK_SETS["odd-names"] + [make_file(name="lower", extension="bin")]:
        for entry, granule, used in ((0, 32, 0), (5, 1, 255), (71, 67, 256), (3, 0, 0x1234)):
            disk = DiskFile()
            disk.write_dir_entry(entry, coco_file, granule, used)
            start = DiskConstants.DIR_OFFSET + entry * 32
            out.append(disk.buffer[start:start + 32])
    return out


case("dsk-dir-entry", disk_dir_entry)


def disk_calculations():
    out = []
    for length in (0, 1, 255, 256, 2293, 2294, 2299, 2303, 2304, 2305, 4607, 4608):
        data = [0] * length
        for preamble, postamble in ((MLPreamble(), Postamble()), (BasicPreamble(), None), (ASCIIPreamble(), None)):
            out.append([
                DiskFile.calculate_granules_needed(data, preamble, postamble),
                DiskFile.calculate_last_sector_bytes_used(data, preamble, postamble),
                DiskFile.calculate_last_granules_sectors_used(data, preamble, postamble),
            ])
    return out


case("dsk-calculations", disk_calculations)


# ---------------------------------------------------------------- SourceFile / VirtualFile
WORK = tempfile.mkdtemp(prefix="c16-lib-")


def path(name):
    return os.path.join(WORK, name)


def write_bytes(name, buffer):
    with open(path(name), "wb") as handle:
        handle.write(bytes(bytearray(buffer)))


write_bytes("two.cas", GOOD)
write_bytes("two.dsk", DISK_GOOD)
write_bytes("raw.bin", pattern(700))
write_bytes("empty.bin", [])
write_bytes("short.dsk", DISK_GOOD[:5000])
write_bytes("broken.cas", BROKEN_TAPES["data-cut"])
with open(path("text.asm"), "w") as handle:
    handle.write("START LDA #1\n\tRTS\n  END START")


def source_files():
    out = []
    for name in ("two.cas", "raw.bin", "empty.bin", "text.asm", "missing.bin"):
        for file_type in (SourceFileType.BINARY, SourceFileType.ASSEMBLY, None):
            source = SourceFile(path(name), file_type=file_type)
            try:
                result = source.read_file()
                buffer = source.get_buffer()
                shown = digest(buffer) if buffer and isinstance(buffer[0], int) else buffer
                out.append([name, str(file_type), result, shown])
            except Exception as error:
                out.append([name, str(file_type), type(error).__name__, str(error).replace(WORK, "<work>")])
    for content in ([], [0], [1, 2, 255], pattern(1000)):
        for file_type in (SourceFileType.BINARY, SourceFileType.ASSEMBLY):
            target = path("written.bin")
            if os.path.exists(target):
                os.remove(target)
            source = SourceFile(target, file_type=file_type)
            source.set_buffer(list(content))
            source.write_file()
            out.append([os.path.exists(target), os.path.exists(target) and list(open(target, "rb").read()) == content])
    try:
        source = SourceFile(path("bad.bin"), file_type=SourceFileType.BINARY)
        source.set_buffer([1, 300])
        source.write_file()
    except Exception as error:
        out.append([type(error).__name__, str(error), os.path.exists(path("bad.bin"))])
    return out


case("source-files", source_files)

for name in ("two.cas", "two.dsk", "raw.bin", "empty.bin", "short.dsk", "broken.cas", "missing.cas"):
    for wanted in (None, VirtualFileType.CASSETTE, VirtualFileType.DISK, VirtualFileType.BINARY,
                   VirtualFileType.UNKNOWN):
        def open_virtual(name=name, wanted=wanted):
            virtual = VirtualFile(SourceFile(path(name), file_type=SourceFileType.BINARY), virtual_file_type=wanted)
            result = virtual.open_virtual_file()
            listed = virtual.list_files()
            return [result, str(virtual.virtual_file_type), virtual.file_exists,
                    [show_file(f) for f in listed], listed is virtual.coco_file_list,
                    [f.name for f in virtual.list_files(filenames=["FIRST   ", "SECOND"])]]
        case("virtual-open-%s-%s" % (name, wanted), open_virtual)


def get_coco_files():
    out = []
    for name in ("two.cas", "two.dsk", "raw.bin", "empty.bin", "broken.cas"):
        source = SourceFile(path(name), file_type=SourceFileType.BINARY)
        source.read_file()
        files, kind = VirtualFile(source).get_coco_files()
        out.append([name, str(kind), [f.name for f in files]])
    return out


case("virtual-get-coco-files", get_coco_files)

for kind in (VirtualFileType.CASSETTE, VirtualFileType.DISK, VirtualFileType.BINARY, VirtualFileType.UNKNOWN, None):
    for existing in (False, True):
        for append in (False, True):
            def save_virtual(kind=kind, existing=existing, append=append):
                target = path("save-target.img")
                if os.path.exists(target):
                    os.remove(target)
                if existing:
                    source_name = {VirtualFileType.CASSETTE: "two.cas", VirtualFileType.DISK: "two.dsk"}.get(
                        kind, "raw.bin")
                    shutil.copy(path(source_name), target)
                virtual = VirtualFile(SourceFile(target, file_type=SourceFileType.BINARY), virtual_file_type=kind)
                virtual.open_virtual_file()
                for coco_file in FILE_SETS["three"]:
                    virtual.add_coco_file(coco_file)
                try:
                    result = virtual.save_virtual_file(append_mode=append)
                except Exception as error:
                    result = [type(error).__name__, str(error).replace(WORK, "<work>")]
                written = digest(list(open(target, "rb").read())) if os.path.exists(target) else None
                return [result, written, [f.name for f in virtual.list_files()]]
            case("virtual-save-%s-%s-%s" % (kind, existing, append), save_virtual)


# ---------------------------------------------------------------- file_util.py command line
CLI = tempfile.mkdtemp(prefix="c16-cli-")
CLI_SETS = {
    "one": FILE_SETS["one"],
    "two": FILE_SETS["two"],
    "three": FILE_SETS["three"],
    "mixed": [make_file(name="alpha", length=40), make_file(name="Beta", length=2400, seed=5),
              make_file(name="GAMMA", file_type=0, data_type=0xFF, length=17, extension="BAS"),
              make_file(name="DELTA678", file_type=0, data_type=0, length=300, extension="BAS")],
    "dups": FILE_SETS["same-names"],
}
for label, files in CLI_SETS.items():
    with open(os.path.join(CLI, label + ".cas"), "wb") as handle:
        handle.write(bytes(bytearray(cassette_image(files))))
    with open(os.path.join(CLI, label + ".dsk"), "wb") as handle:
        handle.write(bytes(bytearray(disk_image(files))))
with open(os.path.join(CLI, "junk.bin"), "wb") as handle:
    handle.write(bytes(bytearray(pattern(100))))


def snapshot():
    out = {}
    for name in sorted(os.listdir(CLI)):
        with open(os.path.join(CLI, name), "rb") as handle:
            out[name] = hashlib.sha256(handle.read()).hexdigest()
    return out


def run_cli(*arguments):
    before = snapshot()
    done = subprocess.run(
        [sys.executable, os.path.join(TREE, "file_util.py")] + list(arguments),
        cwd=CLI, stdout=subprocess.PIPE, stderr=subprocess.PIPE, universal_newlines=True,
        env=dict(os.environ, PYTHONDONTWRITEBYTECODE="1"),
    )
    after = snapshot()
    changed = {name: value for name, value in after.items() if before.get(name) != value}
    stderr = done.stderr.replace(TREE, "<tree>")
    return [done.returncode, done.stdout, stderr, changed]


CLI_RUNS = [
    ("one.cas", "--list"), ("three.dsk", "--list"), ("mixed.cas", "--list"), ("junk.bin", "--list"),
    ("missing.cas", "--list"), ("mixed.cas", "--list", "--files", "ALPHA"),
    ("mixed.cas", "--to_dsk", "m1.dsk"), ("m1.dsk", "--to_cas", "m2.cas"), ("m2.cas", "--to_dsk", "m3.dsk"),
    ("m1.dsk", "--list"), ("m2.cas", "--list"), ("m3.dsk", "--list"),
    ("mixed.dsk", "--to_cas", "n1.cas"), ("n1.cas", "--to_dsk", "n2.dsk"), ("n2.dsk", "--to_cas", "n3.cas"),
    ("n3.cas", "--list"),
    ("mixed.cas", "--to_dsk", "sel1.dsk", "--files", "alpha", "GAMMA"),
    ("mixed.cas", "--to_dsk", "sel2.dsk", "--files", "BETA"),
    ("mixed.cas", "--to_cas", "sel3.cas", "--files", "beta", "Delta678", "nothing"),
    ("mixed.dsk", "--to_cas", "sel4.cas", "--files", "Alpha", "delta678"),
    ("mixed.dsk", "--to_dsk", "sel5.dsk", "--files", "gamma"),
    ("mixed.dsk", "--to_dsk", "sel6.dsk", "--files", "absent"),
    ("mixed.cas", "--to_cas", "sel7.cas", "--files", "alpha   "),
    ("sel1.dsk", "--list"), ("sel3.cas", "--list"), ("sel4.cas", "--list"), ("sel6.dsk", "--list"),
    ("dups.cas", "--to_dsk", "d1.dsk", "--files", "dup"), ("d1.dsk", "--list"),
    ("one.cas", "--to_bin", "one.bin"), ("one.dsk", "--to_bin", "one2.bin"),
    ("one.cas", "--to_bin", "one3.bin", "--files", "prog"), ("one.cas", "--to_bin", "one4.bin", "--files", "other"),
    ("two.cas", "--to_bin", "two.bin"), ("three.dsk", "--to_bin", "three.bin"),
    ("junk.bin", "--to_bin", "junk2.bin"), ("junk.bin", "--to_cas", "junk.cas"),
    ("one.cas", "--to_bin", "one.bin"), ("one.cas", "--to_bin", "one.bin", "--append"),
    ("two.cas", "--to_dsk", "m1.dsk"), ("two.cas", "--to_dsk", "m1.dsk", "--append"), ("m1.dsk", "--list"),
    ("two.dsk", "--to_cas", "m2.cas"), ("two.dsk", "--to_cas", "m2.cas", "--append"), ("m2.cas", "--list"),
    ("two.cas", "--to_dsk", "two.cas", "--append"), ("two.cas", "--to_cas", "one.dsk", "--append"),
    ("two.cas", "--to_cas", "junk.bin", "--append"),
    ("three.cas", "--to_cas", "t1.cas", "--to_dsk", "t1.dsk"), ("t1.cas", "--list"), ("t1.dsk", "--list"),
    ("three.cas", "--list", "--to_dsk", "never.dsk"),
    ("missing.cas", "--to_dsk", "from-missing.dsk"), ("missing.cas", "--to_bin", "from-missing.bin"),
    ("one.cas",), (),
]
for number, arguments in enumerate(CLI_RUNS):
    case("cli-%02d-%s" % (number, " ".join(arguments)), lambda arguments=arguments: run_cli(*arguments))

shutil.rmtree(WORK, ignore_errors=True)
shutil.rmtree(CLI, ignore_errors=True)
json.dump(RESULTS, sys.stdout, sort_keys=True)
'''


def run_tree(tree, worker_path):
    tree = os.path.abspath(tree)
    env = dict(os.environ, PYTHONDONTWRITEBYTECODE="1", PYTHONHASHSEED="0")
    env.pop("PYTHONPATH", None)
    done = subprocess.run(
        [sys.executable, worker_path], cwd=tree, env=env,
        stdout=subprocess.PIPE, stderr=subprocess.PIPE, universal_newlines=True,
    )
    if done.returncode != 0:
        print("worker failed in {}:\n{}".format(tree, done.stderr))
        sys.exit(1)
    return json.loads(done.stdout)


def main():
    if len(sys.argv) != 3:
        print(__doc__)
        sys.exit(2)
    with tempfile.TemporaryDirectory() as scratch:
        worker_path = os.path.join(scratch, "worker.py")
        with open(worker_path, "w") as handle:
            handle.write(WORKER)
        first = run_tree(sys.argv[1], worker_path)
        second = run_tree(sys.argv[2], worker_path)

    different = [name for name in sorted(set(first) | set(second)) if first.get(name) != second.get(name)]
    raised = sum(1 for value in first.values() if value[0] != "ok")
    print("{} cases ({} ended in an exception or exit), {} differ".format(len(first), raised, len(different)))
    for name in different:
        print("DIFFERENT: {}\n  A: {}\n  B: {}".format(
            name, json.dumps(first.get(name))[:600], json.dumps(second.get(name))[:600]))
    sys.exit(1 if different else 0)


if __name__ == "__main__":
    main()
