"""
Differential demonstration for property C11 (saved image holds the assembled
program, at its origin, under its name).

usage: equiv.py <treeA> <treeB>

The probe below is executed once per tree in a separate interpreter, with the
tree at the front of sys.path and a private scratch directory as cwd. It prints
one JSON record per case; the two transcripts must be identical.
"""
import subprocess
import sys
import tempfile
import os

PROBE = r'''
import sys, os, io, json, hashlib, contextlib, importlib, traceback
tree = os.path.abspath(sys.argv[1])
work = os.path.abspath(sys.argv[2])
sys.path.insert(0, tree)
os.chdir(work)

import cocoasm
assert os.path.abspath(cocoasm.__file__).startswith(tree + os.sep), cocoasm.__file__

from cocoasm.values import (NumericValue, AddressValue, NoneValue, StringValue, MultiByteValue,
                            MultiWordValue, ExpressionValue, SymbolValue, Value)
from cocoasm.program import Program
from cocoasm.virtualfiles.coco_file import CoCoFile
from cocoasm.virtualfiles.cassette import CassetteFile
from cocoasm.virtualfiles.disk import DiskFile, MLPreamble, Postamble, BasicPreamble
from cocoasm.virtualfiles.binary import BinaryFile
from cocoasm.virtualfiles.virtual_file import VirtualFile, VirtualFileType
from cocoasm.virtualfiles.source_file import SourceFile, SourceFileType
import assembler, file_util
assert os.path.abspath(assembler.__file__).startswith(tree + os.sep)

CASES = 0
def emit(label, payload):
    global CASES
    CASES += 1
    print(json.dumps([label, payload], sort_keys=True, default=repr))

def attempt(fn):
    try:
        return ["ok", fn()]
    except BaseException as error:
        return ["raised", type(error).__name__, str(error)]

def digest(data):
    return [len(data), hashlib.sha256(bytes(data)).hexdigest()]

# ---------------------------------------------------------------- section A
# high_byte / low_byte on every kind of value
def make_values():
    out = []
    for n in (0, 1, 0xF, 0x10, 0x7F, 0x80, 0xFF, 0x100, 0x101, 0xFFF, 0x1000, 0x7FFF, 0x8000,
              0xFFFF, 0x10000, 0x12345, 0xABCDEF):
        out.append(("num:%d" % n, lambda n=n: NumericValue(n)))
        out.append(("addr:%d" % n, lambda n=n: AddressValue(n)))
        for hint in (2, 4):
            out.append(("num:%d/hint%d" % (n, hint), lambda n=n, hint=hint: NumericValue(n, size_hint=hint)))
    for text in ("$00", "$0", "$0100", "$FF", "$FFFF", "$1", "-1", "-128", "-129", "-32768", "%1010",
                 "%1111111100000000", "'A", "255", "256", "65535", "0"):
        out.append(("numstr:" + text, lambda text=text: NumericValue(text)))
    out.append(("none", lambda: NoneValue()))
    out.append(("string:AB", lambda: StringValue('"AB"')))
    out.append(("string:A", lambda: StringValue('"A"')))
    out.append(("string:empty", lambda: StringValue('""')))
    out.append(("string:long", lambda: StringValue('/HELLO WORLD/')))
    out.append(("multibyte", lambda: MultiByteValue("1,2,3")))
    out.append(("multibyte1", lambda: MultiByteValue("1,")))
    out.append(("multiword", lambda: MultiWordValue("$1234,2")))
    out.append(("expr-unresolved", lambda: ExpressionValue("1+2")))
    out.append(("symbol-unresolved", lambda: SymbolValue("LABEL")))
    return out

for label, factory in make_values():
    def both(factory=factory):
        value = factory()
        return [attempt(value.high_byte), attempt(value.low_byte), attempt(value.hex), attempt(value.hex_len)]
    emit("A/" + label, attempt(both))

def resolved_expression():
    value = ExpressionValue("$1200+$34")
    value = value.resolve({})
    return [value.high_byte(), value.low_byte()]
emit("A/expr-resolved", attempt(resolved_expression))

def resolved_symbol():
    program = Program()
    program.process(["  ORG $3F00\n", "START NOP\n", "  LDX #START\n", "BIG EQU $1234\n", "SMALL EQU $12\n"])
    return {k: [v.high_byte(), v.low_byte()] for k, v in program.symbol_table.items()}
emit("A/symbols", attempt(resolved_symbol))

# ---------------------------------------------------------------- section B
# origin and name extraction
PROGRAMS = {
    "plain": ["  NAM HELLO", "  ORG $0E00", "START LDA #$01", "  RTS", "  END START"],
    "no-nam": ["  ORG $0E00", "  LDA #$01", "  RTS"],
    "no-org": ["  NAM LONELY", "  LDA #$01", "  RTS"],
    "neither": ["  LDA #$01", "  RTS"],
    "two-org": ["  ORG $1000", "  NOP", "  ORG $2000", "  NOP"],
    "two-nam": ["  NAM FIRST", "  NAM SECOND", "  ORG $4000", "  NOP"],
    "nam-late": ["  ORG $4000", "  NOP", "  NAM LATE"],
    "org-zero": ["  NAM ZERO", "  ORG $0000", "  NOP"],
    "org-ffff": ["  NAM TOP", "  ORG $FFFF", "  NOP"],
    "org-ff": ["  NAM PAGE0", "  ORG $FF", "  NOP"],
    "org-100": ["  NAM PAGE1", "  ORG $100", "  NOP"],
    "org-decimal": ["  NAM DEC", "  ORG 3584", "  NOP"],
    "org-symbol": ["BASE EQU $3000", "  NAM SYM", "  ORG BASE", "  NOP"],
    "lower-name": ["  NAM lower", "  ORG $0E00", "  NOP"],
    "long-name": ["  NAM ABCDEFGHIJKL", "  ORG $0E00", "  NOP"],
    "one-char": ["  NAM A", "  ORG $0E00", "  NOP"],
    "labelled-org": ["HERE ORG $2222", "  NAM LAB", "  JMP HERE"],
    "data": ["  NAM DATA", "  ORG $7000", "  FCB 1,2,3", "  FDB $1234,5", "  FCC /HI/", "  RMB 2", "  FCB $FF,"],
    "empty": [],
    "comment-only": ["* nothing here", "; nor here"],
    "bad-mnemonic": ["  NAM BAD", "  FOO 12"],
    "redefined": ["A NOP", "A NOP"],
    "branchy": ["  NAM LOOP", "  ORG $6000", "TOP LDA ,X+", "  BNE TOP", "  LBRA TOP", "  LEAX TOP,PCR"],
}
BIG = ["  NAM BIGONE", "  ORG $1000"] + ["  FDB $%04X" % (i * 257 & 0xFFFF) for i in range(1500)]
PROGRAMS["big"] = BIG

def run_program(lines):
    program = Program()
    program.process([line + "\n" for line in lines])
    return {
        "origin": [type(program.origin).__name__, program.origin.hex(), program.origin.int,
                   program.origin.high_byte(), program.origin.low_byte()],
        "name": program.name,
        "image": program.get_binary_array(),
        "listing": program.get_statements(),
        "symbols": program.get_symbol_table(),
    }

for label, lines in PROGRAMS.items():
    result = attempt(lambda lines=lines: run_program(lines))
    if result[0] == "ok" and len(result[1]["image"]) > 200:
        result[1]["image"] = digest(result[1]["image"])
        result[1]["listing"] = digest("\n".join(result[1]["listing"]).encode())
    emit("B/" + label, result)

# ---------------------------------------------------------------- section C
# containers built straight from CoCoFile objects
def coco(name="TEST", load=0x0E00, execute=0x0E00, data=(1, 2, 3), file_type=2, data_type=0, ext="bin"):
    return CoCoFile(name=name, extension=ext, type=NumericValue(file_type), data_type=NumericValue(data_type),
                    load_addr=NumericValue(load), exec_addr=NumericValue(execute), data=list(data))

def describe(files):
    return [[f.name, f.extension, f.type.hex(), f.data_type.hex(), f.load_addr.hex(), f.exec_addr.hex(),
             digest(f.data), str(f)] for f in files]

CONTAINER_CASES = []
for name in ("", "A", "ab", "SEVENCH", "EIGHTCHR", "NINECHARS", "TWELVECHARS!", "mixedCas", "SP ACE", "nul\0x"):
    CONTAINER_CASES.append(("name:%r" % name, dict(name=name)))
for address in (0, 1, 0xFF, 0x100, 0x0E00, 0x7FFF, 0x8000, 0xFFFF):
    CONTAINER_CASES.append(("load:%04X" % address, dict(load=address, execute=address)))
    CONTAINER_CASES.append(("exec:%04X" % address, dict(load=0x2000, execute=address)))
for size in (0, 1, 2, 254, 255, 256, 509, 510, 511, 2293, 2294, 2295, 2304, 4608, 20000, 65536):
    CONTAINER_CASES.append(("size:%d" % size, dict(data=[(i * 7 + 3) & 0xFF for i in range(size)])))
CONTAINER_CASES.append(("basic", dict(file_type=0, data_type=0, ext="bas")))
CONTAINER_CASES.append(("ascii", dict(file_type=0, data_type=0xFF, ext="bas")))
CONTAINER_CASES.append(("data-file", dict(file_type=1, data_type=0xFF, ext="dat")))
CONTAINER_CASES.append(("long-ext", dict(ext="binary")))
CONTAINER_CASES.append(("empty-ext", dict(ext="")))

for label, kwargs in CONTAINER_CASES:
    def cassette(kwargs=kwargs):
        container = CassetteFile()
        container.add_file(coco(**kwargs))
        image = list(container.get_buffer())
        return [digest(image), image[256:280], describe(CassetteFile(buffer=list(image)).list_files())]
    def disk(kwargs=kwargs):
        container = DiskFile()
        container.add_file(coco(**kwargs))
        image = list(container.get_buffer())
        return [digest(image), image[78592:78592 + 68], image[78848:78848 + 64],
                describe(DiskFile(buffer=list(image)).list_files())]
    def binary(kwargs=kwargs):
        container = BinaryFile()
        container.add_file(coco(**kwargs))
        return digest(container.get_buffer())
    emit("C/cassette/" + label, attempt(cassette))
    emit("C/disk/" + label, attempt(disk))
    emit("C/binary/" + label, attempt(binary))

def multi(container_class):
    container = container_class()
    container.add_files([coco(name="ONE", data=range(10)), coco(name="TWO", load=0x3000, execute=0x3005, data=range(200)),
                         coco(name="THREE", data=[9] * 3000)])
    image = list(container.get_buffer())
    return [digest(image), describe(container_class(buffer=list(image)).list_files()),
            describe(container_class(buffer=list(image)).list_files(filenames=["TWO"]))]
emit("C/cassette/multi", attempt(lambda: multi(CassetteFile)))
emit("C/disk/multi", attempt(lambda: multi(DiskFile)))

def odd_name(container_class, name):
    container = container_class()
    container.add_file(coco(name=name))
    return digest(container.get_buffer())
for odd in (None, 5, ["A", "B"], [65, 66], b"BYTES", "€"):
    emit("C/cassette/odd-name/%r" % (odd,), attempt(lambda odd=odd: odd_name(CassetteFile, odd)))
    emit("C/disk/odd-name/%r" % (odd,), attempt(lambda odd=odd: odd_name(DiskFile, odd)))

def preamble_short():
    out = []
    for amble in (MLPreamble(), BasicPreamble(), Postamble()):
        for size in (0, 2, 4, 5, 6):
            out.append(attempt(lambda: [amble.write([7] * size, 0), amble.length]))
    return out
emit("C/disk/short-ambles", attempt(preamble_short))

# ---------------------------------------------------------------- section D
# the command line front ends
def snapshot():
    files = {}
    for root, _, names in os.walk("."):
        for name in names:
            with open(os.path.join(root, name), "rb") as handle:
                files[os.path.join(root, name)] = digest(handle.read())
    return files

def run_cli(module, argv):
    out = io.StringIO()
    err = io.StringIO()
    saved = sys.argv
    sys.argv = [module.__name__ + ".py"] + argv
    status = None
    try:
        with contextlib.redirect_stdout(out), contextlib.redirect_stderr(err):
            try:
                module.main(module.parse_arguments())
            except SystemExit as stop:
                status = ["exit", stop.code]
            except BaseException as error:
                status = ["raised", type(error).__name__, str(error)]
    finally:
        sys.argv = saved
    return {"status": status, "stdout": out.getvalue(), "stderr": err.getvalue(), "files": snapshot()}

def cli_case(label, source_lines, steps):
    case_dir = os.path.join(work, "cli-%d" % CASES)
    os.mkdir(case_dir)
    os.chdir(case_dir)
    with open("prog.asm", "w") as handle:
        handle.write("\n".join(source_lines) + "\n")
    results = []
    for tool, argv in steps:
        results.append(run_cli(assembler if tool == "asm" else file_util, argv))
    os.chdir(work)
    emit("D/" + label, results)

NAMED = PROGRAMS["plain"]
UNNAMED = PROGRAMS["no-nam"]
LISTS = [("util", ["o.cas", "--list"]), ("util", ["o.dsk", "--list"]), ("util", ["o.bin", "--list"])]
cli_case("all-three", NAMED, [("asm", ["prog.asm", "--to_bin", "o.bin", "--to_cas", "o.cas", "--to_dsk", "o.dsk"])] + LISTS)
cli_case("bin-only", NAMED, [("asm", ["prog.asm", "--to_bin", "o.bin"])])
cli_case("cas-only", NAMED, [("asm", ["prog.asm", "--to_cas", "o.cas"]), LISTS[0]])
cli_case("dsk-only", NAMED, [("asm", ["prog.asm", "--to_dsk", "o.dsk"]), LISTS[1]])
cli_case("print-symbols", NAMED, [("asm", ["prog.asm", "--print", "--symbols"])])
cli_case("nameless-cas", UNNAMED, [("asm", ["prog.asm", "--to_cas", "o.cas", "--to_dsk", "o.dsk"])])
cli_case("nameless-dsk", UNNAMED, [("asm", ["prog.asm", "--to_dsk", "o.dsk"])])
cli_case("nameless-bin-cas", UNNAMED, [("asm", ["prog.asm", "--to_bin", "o.bin", "--to_cas", "o.cas"])])
cli_case("name-switch", UNNAMED, [("asm", ["prog.asm", "--name", "given", "--to_cas", "o.cas", "--to_dsk", "o.dsk"])] + LISTS[:2])
cli_case("name-switch-vs-nam", NAMED, [("asm", ["prog.asm", "--name", "OTHER", "--to_cas", "o.cas"]), LISTS[0]])
cli_case("empty-name-switch", UNNAMED, [("asm", ["prog.asm", "--name", "", "--to_cas", "o.cas"])])
for key in ("lower-name", "long-name", "one-char", "org-zero", "org-ffff", "org-ff", "org-100", "two-org", "two-nam",
            "nam-late", "no-org", "data", "big", "branchy", "org-symbol"):
    cli_case("program/" + key, PROGRAMS[key],
             [("asm", ["prog.asm", "--to_bin", "o.bin", "--to_cas", "o.cas", "--to_dsk", "o.dsk"])] + LISTS)
cli_case("exists-no-append", NAMED, [("asm", ["prog.asm", "--to_bin", "o.bin", "--to_cas", "o.cas", "--to_dsk", "o.dsk"]),
                                     ("asm", ["prog.asm", "--to_bin", "o.bin", "--to_cas", "o.cas", "--to_dsk", "o.dsk"])])
cli_case("exists-append", NAMED, [("asm", ["prog.asm", "--to_bin", "o.bin", "--to_cas", "o.cas", "--to_dsk", "o.dsk"]),
                                  ("asm", ["prog.asm", "--append", "--to_bin", "o.bin", "--to_cas", "o.cas", "--to_dsk", "o.dsk"])] + LISTS)
cli_case("wrong-container", NAMED, [("asm", ["prog.asm", "--to_cas", "o.cas", "--to_dsk", "o.dsk"]),
                                    ("asm", ["prog.asm", "--append", "--to_cas", "o.dsk", "--to_dsk", "o.cas"])])
cli_case("append-to-text", NAMED, [("asm", ["prog.asm", "--append", "--to_cas", "prog.asm"]),
                                   ("asm", ["prog.asm", "--append", "--to_dsk", "prog.asm"])])
cli_case("missing-dir", NAMED, [("asm", ["prog.asm", "--to_bin", "nowhere/o.bin", "--to_cas", "nowhere/o.cas", "--to_dsk", "nowhere/o.dsk"])])
cli_case("parse-error", PROGRAMS["bad-mnemonic"], [("asm", ["prog.asm", "--to_bin", "o.bin"])])
cli_case("translation-error", PROGRAMS["redefined"], [("asm", ["prog.asm", "--to_cas", "o.cas"])])
cli_case("util-convert", NAMED, [("asm", ["prog.asm", "--to_cas", "o.cas"]),
                                 ("util", ["o.cas", "--to_dsk", "c.dsk"]), ("util", ["c.dsk", "--list"]),
                                 ("util", ["c.dsk", "--to_bin", "c.bin"]), ("util", ["c.dsk", "--to_cas", "c.cas", "--files", "hello"]),
                                 ("util", ["c.cas", "--list"]), ("util", ["missing.cas", "--list"])])

print(json.dumps(["cases", CASES]))
'''


def run(tree):
    tree = os.path.abspath(tree)
    with tempfile.TemporaryDirectory() as work:
        completed = subprocess.run(
            [sys.executable, "-c", PROBE, tree, work],
            cwd=work, capture_output=True, text=True, timeout=900,
        )
    return completed.returncode, completed.stdout, completed.stderr


def main():
    if len(sys.argv) != 3:
        print(__doc__)
        return 2
    code_a, out_a, err_a = run(sys.argv[1])
    code_b, out_b, err_b = run(sys.argv[2])
    if code_a != 0 or code_b != 0:
        print("probe failed: A={} B={}".format(code_a, code_b))
        print(err_a[-2000:])
        print(err_b[-2000:])
        return 1
    lines_a = out_a.splitlines()
    lines_b = out_b.splitlines()
    differences = 0
    for index in range(max(len(lines_a), len(lines_b))):
        left = lines_a[index] if index < len(lines_a) else "<missing>"
        right = lines_b[index] if index < len(lines_b) else "<missing>"
        if left != right:
            differences += 1
            if differences <= 10:
                print("DIFF\n  A: {}\n  B: {}".format(left[:600], right[:600]))
    if err_a != err_b:
        differences += 1
        print("stderr differs")
    print("{} records compared, {} differences".format(len(lines_a), differences))
    return 1 if differences else 0


if __name__ == "__main__":
    sys.exit(main())
