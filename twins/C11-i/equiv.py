#!/usr/bin/env python
"""
Differential check: runs the same battery of cases against two source trees
(one subprocess per tree, the tree first on sys.path, a private scratch
directory as cwd) and compares every observable result.

usage: equiv.py <treeA> <treeB>      exit 0 = all cases agree, 1 = otherwise
"""
import json
import os
import subprocess
import sys
import tempfile

DRIVER = r'''
import contextlib, hashlib, io, json, os, sys, types, subprocess

TREE, WORK = sys.argv[1], sys.argv[2]
sys.path.insert(0, TREE)
os.chdir(WORK)
RESULTS = {}


def digest(data):
    data = bytes(data)
    return {"len": len(data), "sha": hashlib.sha256(data).hexdigest(), "head": data[:48].hex()}


def snapshot(directory="."):
    out = {}
    for root, _, files in os.walk(directory):
        for name in sorted(files):
            path = os.path.join(root, name)
            with open(path, "rb") as handle:
                out[os.path.relpath(path, directory)] = digest(handle.read())
    return dict(sorted(out.items()))


def outcome(func, *args, **kwargs):
    """Runs func, returns its (jsonable) value or the exception type/message, plus stdout."""
    stream = io.StringIO()
    try:
        with contextlib.redirect_stdout(stream):
            value = func(*args, **kwargs)
        result = {"value": value}
    except SystemExit as error:
        result = {"exit": repr(error.code)}
    except BaseException as error:
        result = {"raised": type(error).__name__, "message": str(error)}
    result["stdout"] = stream.getvalue()
    return result


def case(name, func, *args, **kwargs):
    assert name not in RESULTS, name
    RESULTS[name] = outcome(func, *args, **kwargs)


def describe(coco_file):
    """Everything observable about a CoCoFile returned by a reader."""
    def val(v):
        try:
            return [type(v).__name__, v.hex(), v.int]
        except Exception as error:
            return [type(v).__name__, "ERR", str(error)]
    return {
        "name": coco_file.name, "extension": coco_file.extension,
        "type": val(coco_file.type), "data_type": val(coco_file.data_type),
        "gaps": val(coco_file.gaps), "load": val(coco_file.load_addr), "exec": val(coco_file.exec_addr),
        "data": digest(coco_file.data), "ignore_gaps": coco_file.ignore_gaps, "str": str(coco_file),
    }


def in_dir(name):
    """Creates and enters a fresh sub-directory of the scratch dir; returns a function to leave."""
    path = os.path.join(WORK, name)
    os.makedirs(path)
    os.chdir(path)
    return lambda: os.chdir(WORK)


def assemble(case_name, source, to_bin=None, to_cas=None, to_dsk=None, name=None, append=False,
             symbols=False, listing=False, width=100, pre=None):
    """Runs assembler.main() in a fresh directory; records stdout, outcome, files and what the readers list."""
    import assembler
    import file_util
    leave = in_dir(case_name)
    try:
        with open("prog.asm", "w") as handle:
            handle.write(source)
        if pre:
            pre()
        args = types.SimpleNamespace(filename="prog.asm", symbols=symbols, print=listing, to_bin=to_bin,
                                     to_cas=to_cas, to_dsk=to_dsk, name=name, append=append, width=width)
        result = outcome(assembler.main, args)
        result["files"] = snapshot()
        listings = {}
        for image in (to_cas, to_dsk, to_bin):
            if image and os.path.exists(image):
                fu_args = types.SimpleNamespace(host_filename=image, append=False, list=True, to_bin=None,
                                                to_cas=None, to_dsk=None, files=None)
                listings[image] = outcome(file_util.main, fu_args)
        result["listings"] = listings
        RESULTS[case_name] = result
    finally:
        leave()


def program(origin=None, nam=None, size=4, end=None, fill=0x12):
    lines = []
    if nam is not None:
        lines.append("        NAM {}".format(nam))
    if origin is not None:
        lines.append("        ORG {}".format(origin))
    lines.append("START   LDA #$01")
    body = size - 2
    while body > 0:
        chunk = min(body, 8)
        lines.append("        FCB " + ",".join("${:02X}".format((fill + body + k) & 0xFF) for k in range(chunk)))
        body -= chunk
    lines.append("        END {}".format(end) if end else "        END")
    return "\n".join(lines) + "\n"


# ---- unit level: cassette block reader / trailer writers -----------------------------------------
from cocoasm.virtualfiles.cassette import CassetteFile
from cocoasm.virtualfiles.coco_file import CoCoFile
from cocoasm.virtualfiles.virtual_file import VirtualFile
from cocoasm.virtualfiles.source_file import SourceFile, SourceFileType
from cocoasm.values import NumericValue


def make_file(name, length, seed=0, type_val=2, data_type=0):
    return CoCoFile(name=name, extension="bin", type=NumericValue(type_val), data_type=NumericValue(data_type),
                    load_addr=NumericValue(0x0E00 + seed), exec_addr=NumericValue(0x0E10 + seed),
                    data=[(i * 5 + seed) & 0xFF for i in range(length)])


def tape(*files):
    cassette = CassetteFile()
    cassette.add_files(list(files))
    return cassette.get_buffer()


def listing(buffer, filenames=None):
    return [describe(f) for f in CassetteFile(buffer=buffer).list_files(filenames)]


def round_trip(*specs):
    buffer = tape(*[make_file(*spec) for spec in specs])
    return {"tape": digest(buffer), "files": listing(buffer)}


for length in (0, 1, 2, 254, 255, 256, 509, 510, 511, 765, 1000, 65535):
    case("tape_rt_{}".format(length), round_trip, ("PROG", length))
case("tape_rt_three", round_trip, ("ONE", 10), ("TWO", 600, 1), ("THREE", 255, 2, 0, 0xFF))
case("tape_rt_empty_in_middle", round_trip, ("ONE", 10), ("NONE", 0, 1), ("THREE", 20, 2))
case("tape_rt_data_has_sync", lambda: listing(tape(CoCoFile(
    name="SYNC", extension="bin", type=NumericValue(2), data_type=NumericValue(0), load_addr=NumericValue(1),
    exec_addr=NumericValue(2), data=[0x55, 0x3C, 0x00, 0x55, 0x3C, 0xFF, 0x55, 0x3C, 0x01, 0x03] * 40))))
case("tape_filter_hit", lambda: listing(tape(make_file("AA", 5), make_file("BB", 6, 1)), ["BB      "]))
case("tape_filter_miss", lambda: listing(tape(make_file("AA", 5), make_file("BB", 6, 1)), ["BB"]))
case("tape_filter_empty_list", lambda: listing(tape(make_file("AA", 5), make_file("BB", 6, 1)), []))
case("tape_no_tape", listing, [])
case("tape_junk", listing, [7, 8, 9] * 50)
case("tape_leader_only", listing, [0x55] * 300)

FULL = tape(make_file("TRUNC", 300))
for cut in (1, 2, 3, 4, 5, 6, 7, 8, 9, 10, 150, 262, 263, 264, 265, 270, 300, 400, len(FULL) - 128 - 21):
    case("tape_truncated_minus_{}".format(cut), listing, FULL[:len(FULL) - cut])
for keep in (128, 131, 132, 139, 140, 148, 149, 150):
    case("tape_truncated_keep_{}".format(keep), listing, FULL[:keep])


def patched(offset_from_data_block, value):
    buffer = list(FULL)
    start = 128 + 128 + 21 + 128 + 128           # blank, leader, header, blank, leader
    buffer[start + offset_from_data_block] = value
    return listing(buffer)


for offset, value in ((2, 0x00), (2, 0x02), (2, 0xFE), (2, 0xFF), (3, 0x00), (3, 0x01), (3, 0xFE), (1, 0x00), (0, 0x00)):
    case("tape_patched_{}_{:02X}".format(offset, value), patched, offset, value)


def blocks(buffer, pointer):
    data, end = CassetteFile(buffer=buffer).read_blocks(pointer)
    return [digest(data), end]


case("blocks_from_0", blocks, FULL, 0)
case("blocks_from_data", blocks, FULL, 128 + 128 + 21)
case("blocks_from_second", blocks, FULL, 128 + 128 + 21 + 128 + 128 + 3)
case("blocks_from_eof", blocks, FULL, len(FULL) - 6)
case("blocks_past_end", blocks, FULL, len(FULL))
case("blocks_minimal_eof", blocks, [0x55, 0x3C, 0xFF], 0)
case("blocks_minimal_data", blocks, [0x55, 0x3C, 0x01, 0x02, 9, 8, 0, 0x55, 0x55, 0x3C, 0xFF, 0, 0xFF, 0x55], 0)
case("blocks_sync_at_end", blocks, [0x00, 0x55, 0x3C], 0)
case("blocks_short_data", blocks, [0x55, 0x3C, 0x01, 0x05, 1, 2], 0)
case("blocks_no_length", blocks, [0x55, 0x3C, 0x01], 0)


def trailers():
    cassette = CassetteFile()
    sizes = []
    for step in (cassette.append_eof, cassette.append_leader, cassette.append_blank, cassette.append_eof,
                 cassette.append_blank, cassette.append_leader):
        step()
        sizes.append(len(cassette.get_buffer()))
    return [sizes, cassette.get_buffer(), type(cassette.get_buffer()).__name__]


case("trailers", trailers)


def through_virtual_file(count):
    leave = in_dir("vf_cas_{}".format(count))
    try:
        SourceFile.write_binary_contents("host.cas", tape(*[make_file("T{}".format(n), 100 * n + 1, n) for n in range(count)]))
        virtual_file = VirtualFile(SourceFile("host.cas", file_type=SourceFileType.BINARY))
        virtual_file.open_virtual_file()
        return [str(virtual_file.virtual_file_type), [describe(f) for f in virtual_file.list_files()]]
    finally:
        leave()


for count in (0, 1, 4):
    case("virtual_file_cas_{}".format(count), through_virtual_file, count)

# ---- end-to-end runs of assembler.main() ------------------------------------------------------
ALL = dict(to_bin="out.bin", to_cas="out.cas", to_dsk="out.dsk")
for size in (2, 3, 245, 246, 247, 254, 255, 256, 257, 510, 511, 2293, 2294, 2295, 2304, 4598, 4599, 4600):
    assemble("cli_size_{}".format(size), program("$0E00", "PROG", size), **ALL)
for label, origin in (("none", None), ("zero", "0"), ("ff", "$00FF"), ("100", "$0100"), ("7fff", "$7FFF"), ("fff0", "$FFF0")):
    assemble("cli_origin_" + label, program(origin, "ORGTEST", 20), **ALL)
for nam in ("A", "ab", "MixedCas", "eightchr", "ninechars", "twelvechars1", "UPPER"):
    assemble("cli_nam_" + nam, program("$2000", nam, 10), **ALL)
assemble("cli_name_switch", program("$2000", None, 10), name="fromarg", **ALL)
assemble("cli_name_switch_long", program("$2000", None, 10), name="averylongname", **ALL)
assemble("cli_nam_beats_switch", program("$2000", "INNER", 10), name="outer", **ALL)
assemble("cli_noname_all", program("$2000", None, 10), **ALL)
assemble("cli_noname_cas", program("$2000", None, 10), to_cas="out.cas")
assemble("cli_noname_dsk", program("$2000", None, 10), to_dsk="out.dsk")
assemble("cli_noname_bin", program("$2000", None, 10), to_bin="out.bin")
assemble("cli_only_cas", program("$3000", "ONE", 300), to_cas="out.cas")
assemble("cli_only_dsk", program("$3000", "ONE", 300), to_dsk="out.dsk")
assemble("cli_end_operand", program("$3000", "ENDOP", 30, end="START"), **ALL)
assemble("cli_listing", program("$3000", "LST", 12), symbols=True, listing=True, **ALL)
assemble("cli_parse_error", "        NAM X\n        FOO #1\n", **ALL)
assemble("cli_translate_error", "        NAM X\n        LDA MISSING\n", **ALL)


def first_image():
    import assembler
    with open("first.asm", "w") as handle:
        handle.write(program("$1000", "FIRST", 700))
    assembler.main(types.SimpleNamespace(filename="first.asm", symbols=False, print=False, name=None, append=False,
                                         width=100, **ALL))


assemble("cli_exists_no_append", program("$4000", "SECOND", 40), pre=first_image, **ALL)
assemble("cli_exists_append", program("$4000", "SECOND", 2400), pre=first_image, append=True, **ALL)
assemble("cli_cas_onto_dsk", program("$4000", "SECOND", 40), pre=first_image, append=True, to_cas="out.dsk")
assemble("cli_dsk_onto_cas", program("$4000", "SECOND", 40), pre=first_image, append=True, to_dsk="out.cas")


def real_cli():
    leave = in_dir("real_cli")
    try:
        with open("prog.asm", "w") as handle:
            handle.write(program("$0E00", "RealRun", 600))
        runs = []
        for argv in (["assembler.py", "prog.asm", "--to_bin", "r.bin", "--to_cas", "r.cas", "--to_dsk", "r.dsk"],
                     ["file_util.py", "r.cas", "--list"], ["file_util.py", "r.dsk", "--list"],
                     ["assembler.py", "prog.asm", "--to_dsk", "r.dsk"],
                     ["assembler.py", "prog.asm", "--to_dsk", "r.dsk", "--append"],
                     ["file_util.py", "r.dsk", "--list"]):
            proc = subprocess.run([sys.executable, os.path.join(TREE, argv[0])] + argv[1:], capture_output=True, text=True)
            runs.append([proc.returncode, proc.stdout, proc.stderr])
        return {"runs": runs, "files": snapshot()}
    finally:
        leave()


case("real_cli_subprocess", real_cli)

json.dump(RESULTS, sys.stdout)
'''


def run_tree(tree):
    tree = os.path.abspath(tree)
    with tempfile.TemporaryDirectory() as work:
        driver = os.path.join(work, "_driver.py")
        with open(driver, "w") as handle:
            handle.write(DRIVER)
        scratch = os.path.join(work, "w")
        os.mkdir(scratch)
        env = dict(os.environ, PYTHONPATH=tree, PYTHONDONTWRITEBYTECODE="1", PYTHONHASHSEED="0")
        proc = subprocess.run(
            [sys.executable, driver, tree, scratch],
            cwd=scratch, env=env, capture_output=True, text=True,
        )
        if proc.returncode != 0:
            print("driver failed for", tree)
            print(proc.stdout[-2000:])
            print(proc.stderr[-4000:])
            sys.exit(1)
        return json.loads(proc.stdout)


def main():
    if len(sys.argv) != 3:
        print(__doc__)
        sys.exit(2)
    res_a = run_tree(sys.argv[1])
    res_b = run_tree(sys.argv[2])
    names = list(res_a.keys())
    bad = 0
    if names != list(res_b.keys()):
        print("case lists differ")
        bad += 1
    for name in names:
        if res_a[name] != res_b.get(name):
            bad += 1
            print("DIFF in case", name)
            print("  A:", json.dumps(res_a[name])[:600])
            print("  B:", json.dumps(res_b.get(name))[:600])
    print("{} cases compared, {} differ".format(len(names), bad))
    sys.exit(1 if bad else 0)


if __name__ == "__main__":
    main()
