#!/usr/bin/env python
"""
Differential demonstration for property C16 (file_util conversions carry every
selected file across unchanged).

Usage: equiv.py <treeA> <treeB>

For each tree a fresh interpreter is started (tree at the front of sys.path and
as working directory for the library part; the tree's own file_util.py is run
as a command in scratch directories for the CLI part). Every observable result
(bytes of images, decoded file lists, return values, exception type and text,
stdout, exit status, files written) is collected in a JSON document; the two
documents are compared key by key. Exit status 0 = all agree, 1 = difference.
"""
import json
import os
import subprocess
import sys
import tempfile

DRIVER = r'''
import faulthandler, hashlib, json, os, shutil, subprocess, sys, tempfile

faulthandler.dump_traceback_later(900, exit=True)

tree = os.path.abspath(sys.argv[1])
sys.path.insert(0, tree)
os.chdir(tree)

import cocoasm
assert os.path.abspath(cocoasm.__file__).startswith(tree + os.sep), cocoasm.__file__

from cocoasm.values import NumericValue, NoneValue
from cocoasm.virtualfiles.coco_file import CoCoFile
from cocoasm.virtualfiles.cassette import CassetteFile
from cocoasm.virtualfiles.disk import (
    DiskFile, DiskConstants, MLPreamble, BasicPreamble, ASCIIPreamble, Postamble,
)
from cocoasm.virtualfiles.binary import BinaryFile
from cocoasm.virtualfiles.source_file import SourceFile, SourceFileType
from cocoasm.virtualfiles.virtual_file import VirtualFile, VirtualFileType

results = {}


def sha(data):
    return hashlib.sha256(bytes(bytearray(data))).hexdigest()


def rec(name, fn):
    assert name not in results, name
    if os.environ.get("EQUIV_TRACE"):
        sys.stderr.write(name + "\n")
    try:
        results[name] = fn()
    except SystemExit as error:
        results[name] = ["EXIT", repr(error.code)]
    except BaseException as error:
        results[name] = ["EXC", type(error).__name__, str(error)]


def val(v):
    return [type(v).__name__, getattr(v, "int", None), v.hex(), v.hex(size=4)]


def describe(coco_file):
    return {
        "name": coco_file.name, "extension": coco_file.extension,
        "type": val(coco_file.type), "data_type": val(coco_file.data_type),
        "load": val(coco_file.load_addr), "exec": val(coco_file.exec_addr),
        "gaps": val(coco_file.gaps), "ignore_gaps": coco_file.ignore_gaps,
        "len": len(coco_file.data), "data": sha(coco_file.data),
        "str": str(coco_file),
    }


def pattern(length, seed):
    return [(seed + 7 * i + (i >> 8)) & 0xFF for i in range(length)]


def make(name, extension="BIN", ftype=0x02, dtype=0x00, load=0x0E00, exe=0x0E10, length=10, seed=1):
    return CoCoFile(
        name=name, extension=extension, type=NumericValue(ftype), data_type=NumericValue(dtype),
        gaps=NumericValue(0), load_addr=NumericValue(load), exec_addr=NumericValue(exe),
        data=pattern(length, seed),
    )


LENGTHS = [0, 1, 2, 127, 128, 250, 254, 255, 256, 257, 509, 510, 511, 765, 1000,
           2293, 2294, 2295, 2298, 2299, 2300, 2301, 2303, 2304, 2305,
           4597, 4598, 4599, 4602, 4603, 4604, 4607, 4608, 4609, 6912, 7000]

NAMES = ["A", "hello", "EIGHTCHR", "LONGERTHAN8", "Mixed Up", "nul\0in", "", "  PAD  ", "x.y"]

KINDS = [("ML", 0x02, 0x00), ("BASIC", 0x00, 0x00), ("ASCII", 0x00, 0xFF),
         ("DATA", 0x01, 0x00), ("DATAASC", 0x01, 0xFF), ("TEXT", 0x03, 0xFF)]

# ---------------------------------------------------------------------------
# 1. library: one file of every length / kind on a fresh disk and tape
# ---------------------------------------------------------------------------

def disk_round(files):
    disk = DiskFile()
    disk.add_files(files)
    image = disk.get_buffer()
    out = {"image": sha(image), "len": len(image)}
    listed = DiskFile(buffer=list(image)).list_files()
    out["files"] = [describe(f) for f in listed]
    return out


def tape_round(files):
    tape = CassetteFile()
    tape.add_files(files)
    image = tape.get_buffer()
    out = {"image": sha(image), "len": len(image)}
    listed = CassetteFile(buffer=list(image)).list_files()
    out["files"] = [describe(f) for f in listed]
    return out


for kind, ftype, dtype in KINDS:
    for length in LENGTHS:
        one = [make("F%d" % length, "BIN" if ftype == 2 else "BAS", ftype, dtype, 0x1234, 0x00FF, length, length)]
        rec("disk1/%s/%d" % (kind, length), lambda: disk_round(one))
        if kind in ("ML", "ASCII"):
            rec("tape1/%s/%d" % (kind, length), lambda: tape_round(one))

for index, name in enumerate(NAMES):
    for extension in ("BIN", "b", "", "LONGEXT", "a\0"):
        one = [make(name, extension, 0x02, 0x00, 0x3F00 + index, 0x3F00, 300 + index, index)]
        rec("diskname/%r/%r" % (name, extension), lambda: disk_round(one))
    one = [make(name, "BIN", 0x02, 0x00, index, 0xFFFF - index, 40 + index, index)]
    rec("tapename/%r" % name, lambda: tape_round(one))

# addresses at the edges
for load, exe in [(0, 0), (0xFF, 0x100), (0x100, 0xFF), (0xFFFF, 0xFFFF), (0x7F, 0x80), (0x0E00, 0x0001)]:
    one = [make("ADDR", "BIN", 0x02, 0x00, load, exe, 33, 9)]
    rec("diskaddr/%x/%x" % (load, exe), lambda: disk_round(one))
    rec("tapeaddr/%x/%x" % (load, exe), lambda: tape_round(one))

# several files, mixed kinds, in order
MIXED = [
    make("first", "BIN", 0x02, 0x00, 0x0E00, 0x0E00, 2400, 1),
    make("SECOND", "BAS", 0x00, 0x00, 0, 0, 700, 2),
    make("Third", "TXT", 0x00, 0xFF, 0, 0, 5000, 3),
    make("FOURTH88", "DAT", 0x01, 0x00, 0, 0, 1, 4),
    make("fifth", "BIN", 0x02, 0x00, 0x7000, 0x7123, 2290, 5),
    make("SIXTH", "BIN", 0x02, 0x00, 0x6000, 0x6001, 2294, 6),
]
rec("disk/mixed", lambda: disk_round(MIXED))
rec("tape/mixed", lambda: tape_round(MIXED))
rec("disk/many", lambda: disk_round([make("N%d" % i, "BIN", 2, 0, i, i, 10 + i, i) for i in range(40)]))
rec("disk/dirfull", lambda: disk_round([make("D%d" % i, "BIN", 2, 0, i, i, 3, i) for i in range(72)]))
rec("disk/granfull", lambda: disk_round([make("G%d" % i, "BIN", 2, 0, i, i, 2400, i) for i in range(35)]))
rec("disk/toolarge", lambda: disk_round([make("HUGE", "BIN", 2, 0, 0, 0, 69 * 2304, 1)]))
rec("disk/exact68", lambda: disk_round([make("HUGE", "BIN", 2, 0, 0, 0, 68 * 2304 - 11, 1)]))
rec("disk/custom_order", lambda: (lambda d: (d.add_files(MIXED[:3]), sha(d.get_buffer()))[1])(
    DiskFile(granule_fill_order=list(range(68)))))
rec("disk/short_order", lambda: (lambda d: (d.add_files(MIXED[:1]), sha(d.get_buffer()))[1])(
    DiskFile(granule_fill_order=list(range(10)))))

# ---------------------------------------------------------------------------
# 2. library: helper functions called directly
# ---------------------------------------------------------------------------

class FakeAmble(object):
    def __init__(self, length):
        self.length = length


def ambles():
    yield "ml", MLPreamble(), Postamble()
    yield "basic", BasicPreamble(), None
    yield "ascii", ASCIIPreamble(), None
    yield "fake", FakeAmble(7), FakeAmble(0)


for label, pre, post in ambles():
    for length in LENGTHS:
        data = [0] * length
        rec("calc/%s/%d" % (label, length), lambda: [
            DiskFile.calculate_granules_needed(data, pre, post),
            DiskFile.calculate_last_sector_bytes_used(data, pre, post),
            DiskFile.calculate_last_granules_sectors_used(data, pre, post),
        ])
rec("calc/sectors", lambda: [DiskFile.calculate_sectors_needed(n) for n in list(range(0, 2400, 1)) + [65535, 70000]])
rec("seek", lambda: [DiskFile.seek_granule(g) for g in range(-2, 80)] + [DiskFile.seek_granule(255)])

blank = DiskFile()
rec("dir_in_use", lambda: [blank.directory_entry_in_use(n) for n in range(0, 72)])
for n in (-2, -1, 72, 73, 1000):
    rec("dir_in_use/%d" % n, lambda: blank.directory_entry_in_use(n))
rec("gran_in_use", lambda: [blank.granule_in_use(n) for n in range(0, 68)])
for n in (-2, -1, 68, 69, 255):
    rec("gran_in_use/%d" % n, lambda: blank.granule_in_use(n))
rec("find_empty", lambda: [blank.find_empty_directory_entry(), blank.find_empty_granule()])


def file_length_cases():
    fat = [0xFF] * 256
    fat[5] = 6
    fat[6] = 7
    fat[7] = 0xC3
    fat[9] = 0xC1
    fat[10] = 0xC9
    fat[11] = 0xC0
    return [DiskFile.calculate_file_length(g, fat, b) for g in (5, 6, 7, 9, 10, 11) for b in (0, 1, 255, 256)]


rec("file_length", file_length_cases)
rec("file_length/badfat", lambda: DiskFile.calculate_file_length(3, [0] * 2, 5))


def partly_used():
    disk = DiskFile()
    disk.add_files(MIXED)
    return disk


used = partly_used()
rec("used/dir", lambda: [used.directory_entry_in_use(n) for n in range(72)])
rec("used/gran", lambda: [used.granule_in_use(n) for n in range(68)])
rec("used/find", lambda: [used.find_empty_directory_entry(), used.find_empty_granule()])
rec("used/fat", lambda: used.get_buffer()[DiskConstants.FAT_OFFSET:DiskConstants.FAT_OFFSET + 256])
rec("used/dirbytes", lambda: used.get_buffer()[DiskConstants.DIR_OFFSET:DiskConstants.DIR_OFFSET + 32 * 8])
rec("used/read_sequence", lambda: [
    used.read_sequence(DiskConstants.DIR_OFFSET, 8, decode=True),
    used.read_sequence(DiskConstants.DIR_OFFSET + 8, 3, decode=True),
    used.read_sequence(DiskConstants.DIR_OFFSET, 32),
    used.read_sequence(0, 0), used.read_sequence(DiskConstants.IMAGE_SIZE - 4, 4),
])
for pointer, length in [(DiskConstants.IMAGE_SIZE - 3, 4), (0, DiskConstants.IMAGE_SIZE + 1), (DiskConstants.IMAGE_SIZE, 1)]:
    rec("used/read_sequence/%d/%d" % (pointer, length), lambda: used.read_sequence(pointer, length))
rec("used/validate", lambda: [
    used.validate_sequence(DiskConstants.DIR_OFFSET, [ord("F"), ord("I")]),
    used.validate_sequence(DiskConstants.DIR_OFFSET, [ord("F"), ord("X")]),
    used.validate_sequence(0, []),
])
rec("used/validate/short", lambda: used.validate_sequence(DiskConstants.IMAGE_SIZE - 1, [1, 2]))


def read_data_cases():
    fat = used.get_buffer()[DiskConstants.FAT_OFFSET:DiskConstants.FAT_OFFSET + 256]
    out = []
    for start, pre, length in [(32, MLPreamble(), 2400), (32, None, 10), (32, BasicPreamble(), 2304),
                               (32, MLPreamble(), 2299), (32, MLPreamble(), 2300), (32, None, 0),
                               (67, None, 2304), (67, MLPreamble(), 2299)]:
        data, pointer = used.read_data(start, fat, pre, data_length=length)
        out.append([sha(data), len(data), pointer])
    return out


rec("used/read_data", read_data_cases)
rec("used/read_data/past_end", lambda: used.read_data(67, [0xFF] * 256, MLPreamble(), data_length=2304))
rec("used/read_data/past_end2", lambda: used.read_data(67, [0xFF] * 256, None, data_length=2305))
rec("used/read_data/bad_granule", lambda: used.read_data(200, [0xFF] * 256, None, data_length=1))
rec("used/read_data/bad_chain", lambda: used.read_data(66, [0xFF] * 256, None, data_length=5000))


def write_helpers():
    disk = DiskFile()
    out = [disk.write_bytes_to_buffer(10, [1, 2, 3]), disk.write_bytes_to_buffer(20, []), disk.get_buffer()[8:16]]
    disk.write_to_fat([], 3)
    disk.write_to_fat([4], 1)
    disk.write_to_fat([9, 8, 40], 9)
    out.append(disk.get_buffer()[DiskConstants.FAT_OFFSET:DiskConstants.FAT_OFFSET + 68])
    pre = MLPreamble()
    pre.data_length = NumericValue(5000)
    pre.load_addr = NumericValue(0x4000)
    post = Postamble()
    post.exec_addr = NumericValue(0x4001)
    disk.write_to_granules(pattern(5000, 3), [2, 50, 1], pre, post)
    disk.write_to_granules(pattern(10, 3), [], pre, post)
    disk.write_to_granules(pattern(100, 9), [20], None, None)
    disk.write_to_granules(pattern(2299, 9), [21, 22], pre, post)
    out.append(sha(disk.get_buffer()))
    return out


rec("write_helpers", write_helpers)
rec("write_granules/too_few", lambda: DiskFile().write_to_granules(pattern(5000, 1), [3], None, Postamble()))
rec("write_bytes/past_end", lambda: DiskFile().write_bytes_to_buffer(DiskConstants.IMAGE_SIZE - 1, [1, 2]))


def amble_io():
    out = []
    for cls in (MLPreamble, BasicPreamble, ASCIIPreamble, Postamble):
        for source in ([0x00, 0x12, 0x34, 0x56, 0x78, 9], [0xFF, 0x00, 0x00, 0xAB, 0xCD, 9], [0xFF, 1, 0, 0, 0],
                       [0xFF, 0, 2, 0, 0], [0x00, 1], [], [0xFF, 0x01, 0x02], [7, 7, 7, 7, 7, 7]):
            for pointer in (0, 1):
                amble = cls()
                try:
                    end = amble.read(list(source), pointer)
                    got = [end, getattr(amble, "length", None)]
                    for attr in ("data_length", "load_addr", "exec_addr"):
                        if hasattr(amble, attr):
                            got.append(val(getattr(amble, attr)))
                    if hasattr(amble, "get_data_length"):
                        got.append([amble.get_data_length(), amble.is_ml()])
                except Exception as error:
                    got = ["EXC", type(error).__name__, str(error)]
                out.append(got)
                amble = cls()
                for attr, number in (("data_length", 0x1FE), ("load_addr", 0xFE), ("exec_addr", 0xABCD)):
                    if hasattr(amble, attr):
                        setattr(amble, attr, NumericValue(number))
                target = list(source)
                try:
                    got = [amble.write(target, pointer), target]
                except Exception as error:
                    got = ["EXC", type(error).__name__, str(error), target]
                out.append(got)
    return out


rec("amble_io", amble_io)
rec("amble/unset_write", lambda: (lambda b: [MLPreamble().write(b, 0), Postamble().write(b, 5), b])([9] * 12))

# tape helpers
def tape_helpers():
    tape = CassetteFile(buffer=[1, 0x55, 0x3C, 0x00, 5, 0x55, 0x3C, 0x01, 0x55])
    out = [tape.skip_to_sequence([0x55, 0x3C], start=s) for s in range(0, 12)]
    out += [tape.skip_to_sequence([0x55, 0x3C, 0x00], start=s) for s in range(0, 4)]
    out += [tape.skip_to_sequence([0x55], start=8), tape.skip_to_sequence([9]), tape.skip_to_sequence([1])]
    return out


rec("tape_helpers", tape_helpers)

# ---------------------------------------------------------------------------
# 3. library: damaged images
# ---------------------------------------------------------------------------

def listing_of(cls, image):
    return [describe(f) for f in cls(buffer=image).list_files()]


good_disk = list(used.get_buffer())
good_tape = (lambda t: (t.add_files(MIXED), list(t.get_buffer()))[1])(CassetteFile())

rec("damage/disk_short", lambda: listing_of(DiskFile, good_disk[:-1]))
rec("damage/disk_long", lambda: listing_of(DiskFile, good_disk + [0] * 100))
rec("damage/disk_empty", lambda: listing_of(DiskFile, []))


def poke(image, changes):
    image = list(image)
    for where, what in changes.items():
        image[where] = what
    return image


first_granule = good_disk[DiskConstants.DIR_OFFSET + 13]
start = DiskFile.seek_granule(first_granule)
rec("damage/preamble_flag", lambda: listing_of(DiskFile, poke(good_disk, {start: 0x01})))
rec("damage/preamble_len0", lambda: listing_of(DiskFile, poke(good_disk, {start + 1: 0, start + 2: 0})))
rec("damage/preamble_lenbig", lambda: listing_of(DiskFile, poke(good_disk, {start + 1: 0xFF, start + 2: 0xFF})))
rec("damage/preamble_len1", lambda: listing_of(DiskFile, poke(good_disk, {start + 1: 0, start + 2: 1})))
rec("damage/fat_loop", lambda: listing_of(DiskFile, poke(good_disk, {DiskConstants.FAT_OFFSET + first_granule: 200})))
rec("damage/dir_granule", lambda: listing_of(DiskFile, poke(good_disk, {DiskConstants.DIR_OFFSET + 13: 67})))
rec("damage/dir_granule_big", lambda: listing_of(DiskFile, poke(good_disk, {DiskConstants.DIR_OFFSET + 13: 250})))
rec("damage/dir_type", lambda: listing_of(DiskFile, poke(good_disk, {DiskConstants.DIR_OFFSET + 11: 0})))
rec("damage/dir_name", lambda: listing_of(DiskFile, poke(good_disk, {DiskConstants.DIR_OFFSET + 2: 0xC3})))
rec("damage/dir_deleted", lambda: listing_of(DiskFile, poke(good_disk, {DiskConstants.DIR_OFFSET: 0})))
rec("damage/tape_cut", lambda: listing_of(CassetteFile, good_tape[:600]))
rec("damage/tape_cut_header", lambda: listing_of(CassetteFile, good_tape[:270]))
rec("damage/tape_noise", lambda: listing_of(CassetteFile, [3, 4, 5] * 50))
rec("damage/tape_empty", lambda: listing_of(CassetteFile, []))
rec("damage/tape_blocktype", lambda: listing_of(CassetteFile, poke(good_tape, {
    CassetteFile(buffer=list(good_tape)).skip_to_sequence([0x55, 0x3C, 0x01]) + 2: 0x07})))

# ---------------------------------------------------------------------------
# 4. library: VirtualFile open / add / save in a scratch directory
# ---------------------------------------------------------------------------

scratch = tempfile.mkdtemp(prefix="c16lib")
os.chdir(scratch)


def write(name, image):
    with open(name, "wb") as handle:
        handle.write(bytes(bytearray(image)))


def read(name):
    with open(name, "rb") as handle:
        return sha(handle.read())


write("src.dsk", good_disk)
write("src.cas", good_tape)
write("junk.bin", [1, 2, 3, 4])
write("empty.bin", [])


def virtual(name, kind=None):
    return VirtualFile(SourceFile(name, file_type=SourceFileType.BINARY), virtual_file_type=kind)


def open_and_list(name, kind=None, names=None):
    vf = virtual(name, kind)
    vf.open_virtual_file()
    return [str(vf.virtual_file_type), vf.file_exists, [describe(f) for f in vf.list_files(names)]]


for name in ("src.dsk", "src.cas", "junk.bin", "empty.bin", "missing.bin"):
    for kind in (None, VirtualFileType.DISK, VirtualFileType.CASSETTE, VirtualFileType.BINARY, VirtualFileType.UNKNOWN):
        rec("vf/open/%s/%s" % (name, kind), lambda: open_and_list(name, kind))
rec("vf/list/filter", lambda: open_and_list("src.dsk", None, ["FIRST", "Third", "THIRD"]))
rec("vf/list/filter_tape", lambda: open_and_list("src.cas", None, ["first   ", "SECOND"]))
rec("vf/list/empty_filter", lambda: open_and_list("src.cas", None, []))


def save_case(target, kind, append, files):
    vf = virtual(target, kind)
    vf.open_virtual_file()
    for coco_file in files:
        vf.add_coco_file(coco_file)
    try:
        vf.save_virtual_file(append_mode=append)
        outcome = "saved"
    except Exception as error:
        outcome = ["EXC", type(error).__name__, str(error)]
    return [outcome, read(target) if os.path.exists(target) else None]


for kind in (VirtualFileType.DISK, VirtualFileType.CASSETTE, VirtualFileType.BINARY, VirtualFileType.UNKNOWN, None):
    target = "out_%s.img" % (kind.name if kind else "none")
    rec("vf/save/new/%s" % kind, lambda: save_case(target, kind, False, MIXED[:2]))
    rec("vf/save/again/%s" % kind, lambda: save_case(target, kind, False, MIXED[2:3]))
    rec("vf/save/append/%s" % kind, lambda: save_case(target, kind, True, MIXED[2:4]))
    rec("vf/save/relist/%s" % kind, lambda: open_and_list(target))
rec("vf/save/overfull", lambda: save_case("full.dsk", VirtualFileType.DISK, False,
                                           [make("G%d" % i, "BIN", 2, 0, i, i, 2400, i) for i in range(35)]))

os.chdir(tree)
shutil.rmtree(scratch)

# ---------------------------------------------------------------------------
# 5. command line: file_util.py of this tree run in scratch directories
# ---------------------------------------------------------------------------

scratch = tempfile.mkdtemp(prefix="c16cli")
write(os.path.join(scratch, "src.dsk"), good_disk)
write(os.path.join(scratch, "src.cas"), good_tape)
write(os.path.join(scratch, "junk.bin"), [1, 2, 3, 4])
one_disk = DiskFile()
one_disk.add_files(MIXED[4:5])
write(os.path.join(scratch, "one.dsk"), one_disk.get_buffer())
one_tape = CassetteFile()
one_tape.add_files(MIXED[:1])
write(os.path.join(scratch, "one.cas"), one_tape.get_buffer())
empty_disk = DiskFile()
write(os.path.join(scratch, "empty.dsk"), empty_disk.get_buffer())
write(os.path.join(scratch, "short.dsk"), good_disk[:5000])


def snapshot():
    return {name: read(os.path.join(scratch, name)) for name in sorted(os.listdir(scratch))}


def cli(*arguments):
    before = snapshot()
    done = subprocess.run(
        [sys.executable, os.path.join(tree, "file_util.py")] + list(arguments),
        cwd=scratch, stdout=subprocess.PIPE, stderr=subprocess.PIPE, universal_newlines=True,
        env=dict(os.environ, PYTHONDONTWRITEBYTECODE="1"),
    )
    after = snapshot()
    changed = {name: digest for name, digest in after.items() if before.get(name) != digest}
    return {"status": done.returncode, "stdout": done.stdout,
            "stderr": done.stderr.replace(tree, "<tree>"), "changed": changed}


CLI = [
    ["src.dsk", "--list"], ["src.cas", "--list"], ["junk.bin", "--list"], ["missing.dsk", "--list"],
    ["empty.dsk", "--list"], ["short.dsk", "--list"],
    ["src.dsk", "--to_cas", "a.cas"], ["a.cas", "--list"],
    ["a.cas", "--to_dsk", "a.dsk"], ["a.dsk", "--list"],
    ["a.dsk", "--to_cas", "a2.cas"], ["a2.cas", "--list"],
    ["src.cas", "--to_dsk", "b.dsk"], ["b.dsk", "--to_cas", "b.cas"], ["b.cas", "--to_dsk", "b2.dsk"], ["b2.dsk", "--list"],
    ["src.dsk", "--to_cas", "a.cas"],
    ["src.dsk", "--to_cas", "a.cas", "--append"], ["a.cas", "--list"],
    ["src.cas", "--to_dsk", "b.dsk"],
    ["src.cas", "--to_dsk", "b.dsk", "--append"], ["b.dsk", "--list"],
    ["src.dsk", "--to_cas", "c.cas", "--files", "first", "THIRD"], ["c.cas", "--list"],
    ["src.dsk", "--to_dsk", "c.dsk", "--files", "Fifth", "second", "nosuch"], ["c.dsk", "--list"],
    ["src.cas", "--to_dsk", "d.dsk", "--files", "fourth88", "SIXTH", "sixth"], ["d.dsk", "--list"],
    ["src.cas", "--to_cas", "d.cas", "--files", "FiRsT"], ["d.cas", "--list"],
    ["src.cas", "--to_cas", "e.cas", "--files", "nothing"], ["e.cas", "--list"],
    ["src.dsk", "--to_dsk", "e.dsk", "--files", "nothing"], ["e.dsk", "--list"],
    ["src.dsk", "--to_cas", "f.cas", "--to_dsk", "f.dsk", "--files", "sixth"], ["f.cas", "--list"], ["f.dsk", "--list"],
    ["src.dsk", "--to_bin", "many.bin"], ["src.cas", "--to_bin", "many.bin"],
    ["one.dsk", "--to_bin", "one_d.bin"], ["one.cas", "--to_bin", "one_c.bin"],
    ["one.dsk", "--to_bin", "one_d.bin"], ["one.dsk", "--to_bin", "one_d.bin", "--append"],
    ["one.cas", "--to_bin", "one_f.bin", "--files", "FIRST"], ["one.cas", "--to_bin", "one_g.bin", "--files", "other"],
    ["empty.dsk", "--to_bin", "none.bin"], ["junk.bin", "--to_bin", "none2.bin"],
    ["empty.dsk", "--to_cas", "none.cas"], ["junk.bin", "--to_dsk", "none.dsk"], ["none.dsk", "--list"],
    ["src.dsk", "--to_cas", "src.cas", "--append"], ["src.cas", "--list"],
    ["src.dsk", "--to_dsk", "one.cas"], ["src.dsk", "--to_cas", "one.dsk", "--append"],
    ["missing.dsk", "--to_cas", "m.cas"], ["src.dsk"], ["one.cas", "--to_dsk", "sub/dir/x.dsk"],
    ["one.dsk", "--to_cas", "g.cas"], ["g.cas", "--to_dsk", "g.dsk"], ["g.dsk", "--to_bin", "g.bin"],
]
for number, arguments in enumerate(CLI):
    rec("cli/%02d/%s" % (number, " ".join(arguments)), lambda: cli(*arguments))
rec("cli/final", snapshot)
shutil.rmtree(scratch)

json.dump(results, sys.stdout, sort_keys=True)
'''


def run(tree, driver_path):
    done = subprocess.run(
        [sys.executable, driver_path, tree], stdout=subprocess.PIPE, stderr=subprocess.PIPE,
        universal_newlines=True, cwd=tree, env=dict(os.environ, PYTHONDONTWRITEBYTECODE="1"),
    )
    if done.returncode != 0:
        sys.stderr.write(done.stderr)
        raise SystemExit("driver failed for %s" % tree)
    return json.loads(done.stdout)


def main():
    if len(sys.argv) != 3:
        raise SystemExit(__doc__)
    tree_a, tree_b = (os.path.abspath(p) for p in sys.argv[1:3])
    handle, driver_path = tempfile.mkstemp(suffix="_c16_driver.py")
    with os.fdopen(handle, "w") as driver:
        driver.write(DRIVER)
    try:
        result_a = run(tree_a, driver_path)
        result_b = run(tree_b, driver_path)
    finally:
        os.remove(driver_path)
    differences = 0
    for key in sorted(set(result_a) | set(result_b)):
        if result_a.get(key, "<missing>") != result_b.get(key, "<missing>"):
            differences += 1
            print("DIFFERENT: %s\n  A: %.400s\n  B: %.400s" % (key, json.dumps(result_a.get(key)), json.dumps(result_b.get(key))))
    errors = sum(1 for value in result_a.values() if isinstance(value, list) and value[:1] == ["EXC"])
    print("%d cases compared (%d of them raise in tree A), %d differences" % (len(result_a), errors, differences))
    return 1 if differences else 0


if __name__ == "__main__":
    sys.exit(main())
