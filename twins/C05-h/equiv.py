#!/venv/bin/python
"""
Differential check: run the same inputs through the code of two source trees
and compare every observable result.

usage: equiv.py <treeA> <treeB>      exit 0 = all results agree, 1 = differ

Refactoring C05/h: Program.get_binary_array - the three copy-pasted digit-pair loops become three calls of the new static helper Program.bytes_of(value), whose loop
index is shifted (position = 2, 4, ... used as position - 2 / position - 1) and whose length is (hex_len + 1) >> 1 pairs; the statement guard is inverted to a continue.
Inputs: get_binary_array() of programs made of data directives of every kind and size (including values that render with an odd or short digit string and
therefore fail), of hand-built statements whose code package holds every Value class, CLI image files (bin, cas, dsk), every mnemonic x ~150 operand forms.
"""
import hashlib
import json
import os
import subprocess
import sys
import tempfile

# --------------------------------------------------------------------------
# inputs
# --------------------------------------------------------------------------

# Operand forms put behind every mnemonic of the instruction table.
OPERAND_FORMS = [
    "", "#$12", "#$1234", "#V8", "#V16", "#-1", "#-200", "#'A", "#%10101010", "#TARGET",
    "$12", "$1234", "<$12", ">$12", "<$1234", ">$1234", "V8", "V16", "<V16", ">V8",
    "TARGET", "START", "200", "255", "256", "300", "-5", "%00001111", "%0000111100001111",
    "[$1234]", "[$12]", "[TARGET]", "[V16]", "[V8]",
    ",X", ",Y", ",U", ",S", "0,X", "-0,X", "1,X", "15,Y", "16,U", "-16,S", "-17,X", "127,X", "128,X",
    "-128,Y", "-129,Y", "$10,X", "$0010,X", "$1000,X", "32767,X", "-32768,X", "65535,X",
    "A,X", "B,Y", "D,U", "A,S", ",X+", ",X++", ",-Y", ",--Y", ",S+", ",--U",
    "[,X]", "[,Y]", "[,X++]", "[,--S]", "[,X+]", "[,-X]", "[A,X]", "[B,Y]", "[D,S]",
    "[0,X]", "[5,X]", "[-5,X]", "[127,X]", "[128,X]", "[-128,X]", "[-129,X]", "[$1000,U]", "[$10,U]",
    "5,PCR", "$12,PCR", "$1234,PCR", "-3,PCR", "TARGET,PCR", "START,PCR", "TARGET+2,PCR", "FAR,PCR",
    "[TARGET,PCR]", "[5,PCR]", "[$1234,PCR]", "[FAR,PCR]", "[TARGET-1,PCR]",
    "V8,X", "V16,X", "TARGET,X", "V8+1,X", "[V8,X]", "[V16,Y]",
    "V8+1", "V16-V8", "TARGET+1", "TARGET-V8", "V8*2", "V16/2", "#V8+1", "#TARGET+1", "$10+$20", "5+5",
    "A,B", "X,Y", "D,X", "CC,DP", "PC,S", "B,A", "DP,CC", "Y,PC", "A,B,X", "U", "S", "Z,X", "A", "Q",
    "X,Y,U,S,PC,CC,DP,A,B", "D,X,Y", "CC", "PC,U,Y,X,DP,B,A,CC", "A,A",
    "\"AB\"", "/hello/", "1,2,3", "$1234,$5678", "-1,-2", "10", "0", "65535", "65536", "-32768", "-32769",
    "$12345", "%101", "'A", "NOSUCH", "NOSUCH,X", "#NOSUCH", "X+,Y", "1,X+", "foo bar",
]

CORPUS_TEMPLATE = [
    "        ORG   $0E00",
    "V8      EQU   $12",
    "V16     EQU   $1234",
    "START   {mnemonic} {operand}",
    "        NOP",
    "TARGET  NOP",
    "        RMB   200",
    "FAR     RTS",
]

# Hand written programs: (name, [source lines])
CASES = [
    ('rmb sizes',
     [' ORG $100',
      ' RMB 0',
      ' RMB 1',
      ' RMB 2',
      ' RMB 3',
      ' RMB 7',
      ' RMB 16',
      ' RMB 255',
      ' RMB 256',
      ' RMB 257',
      ' FCB $AA']),
    ('rmb big', [' RMB 30000', ' FCB 1']),
    ('fcb singles',
     [' FCB 0',
      ' FCB 1',
      ' FCB 15',
      ' FCB 16',
      ' FCB 127',
      ' FCB 128',
      ' FCB 255',
      ' FCB -1',
      ' FCB -127',
      ' FCB -128',
      ' FCB $0',
      ' FCB $F',
      ' FCB $0F',
      ' FCB $FF',
      ' FCB $00F',
      ' FCB $000F',
      ' FCB %00000000',
      ' FCB %11111111',
      " FCB 'A",
      " FCB 'z"]),
    ('fdb singles',
     [' FDB 0',
      ' FDB 1',
      ' FDB 255',
      ' FDB 256',
      ' FDB 4095',
      ' FDB 4096',
      ' FDB 32767',
      ' FDB 32768',
      ' FDB 65535',
      ' FDB -1',
      ' FDB -255',
      ' FDB -256',
      ' FDB -32768',
      ' FDB $F',
      ' FDB $FF',
      ' FDB $FFF',
      ' FDB $FFFF',
      ' FDB %0000000011111111',
      " FDB 'A"]),
    ('fcb lists',
     [' FCB 1,2,3',
      ' FCB $FF,$00,$7F',
      ' FCB -1,-2',
      " FCB 'A,'B,'C",
      ' FCB 0,0,0,0,0,0,0,0,0,0,0,0',
      ' FCB 1,',
      ' FCB ,2',
      ' FCB 1,,2']),
    ('fdb lists', [' FDB 1,2,3', ' FDB $FFFF,$0000,$7FFF', ' FDB -1,-2', " FDB 'A,'B", ' FDB 1,', ' FDB ,2']),
    ('fcc strings',
     [' FCC /A/', ' FCC /AB C/', ' FCC "it\'s"', ' FCC /a,b;c/', ' FCC //', " FCC 'x y'", ' FCC /0123456789/']),
    ('non emitting', [' NAM X', ' ORG $100', 'A EQU 5', ' SETDP 0', ' END', 'B EQU $1234', ' ORG $200', ' END A']),
    ('mixed',
     [' ORG $100',
      'S LDA #1',
      ' FCB 2',
      ' LDX #S',
      ' FDB S',
      ' FCC /S/',
      ' RMB 2',
      ' BRA S',
      ' LEAX S,PCR',
      ' END S']),
    ('fcb 256', [' FCB 256']),
    ('fcb list 256', [' FCB 1,256']),
    ('fcb list 256 first', [' FCB 256,1,2']),
    ('fdb list 65536', [' FDB 1,65536']),
    ('fcb $123', [' FCB $123']),
    ('fcb $1234', [' FCB $1234']),
    ('fcb list $100', [' FCB 1,$100']),
    ('fcb symbol', ['V EQU 300', ' FCB V']),
    ('fdb label', [' ORG $1234', 'L FDB L']),
    ('fcb label', [' ORG $1234', 'L FCB L']),
    ('fcb expression', [' FCB 1+2', ' FDB 1+2', ' FCB 200+100']),
    ('fcb undefined', [' FCB NOPE']),
    ('rmb expression', [' RMB 2+2', ' FCB 1']),
    ('fcc control', [' FCC /\t/']),
    ('mixed program',
     ['        NAM   MIXED',
      '        ORG   $3F00',
      'SCREEN  EQU   $0400',
      'COUNT   EQU   32',
      'BEGIN   LDX   #SCREEN',
      '        LDA   #COUNT',
      'LOOP    STA   ,X+',
      '        DECA',
      '        BNE   LOOP',
      '        LDD   TABLE,PCR',
      '        LEAX  TABLE,PCR',
      '        LDY   [VECTOR]',
      '        JSR   SUB',
      '        LBRA  DONE',
      'SUB     PSHS  A,B,X',
      '        TFR   X,Y',
      '        EXG   A,B',
      '        LDA   5,X',
      '        LDB   -5,Y',
      '        STD   200,U',
      '        STD   -200,S',
      '        LDA   [10,X]',
      '        LDD   [D,Y]',
      '        PULS  A,B,X,PC',
      'TABLE   FCB   1,2,3,$FF',
      '        FDB   $1234,$5678',
      '        FDB   BEGIN',
      'VECTOR  FDB   $A000',
      'MSG     FCC   /HELLO, WORLD/',
      'BUF     RMB   4',
      'DONE    RTS',
      '        END   BEGIN']),
    ('branches forward and backward',
     ['        ORG   $1000',
      'TOP     NOP',
      '        BRA   TOP',
      '        BEQ   DOWN',
      '        LBNE  TOP',
      '        LBSR  DOWN',
      '        BSR   TOP',
      '        RMB   100',
      'DOWN    RTS']),
    ('short branch too far forward', ['A BRA B', ' RMB 128', 'B RTS']),
    ('short branch just reaching forward', ['A BRA B', ' RMB 127', 'B RTS']),
    ('short branch too far back', ['A NOP', ' RMB 126', ' BRA A']),
    ('short branch just reaching back', ['A NOP', ' RMB 125', ' BRA A']),
    ('pcr sizes near the boundary',
     ['        ORG   $2000',
      'S       LEAX  NEAR,PCR',
      '        LEAY  FARX,PCR',
      '        LDA   [NEAR,PCR]',
      '        LDD   NEAR+1,PCR',
      '        RMB   110',
      'NEAR    NOP',
      '        RMB   300',
      'FARX    NOP',
      '        LEAX  S,PCR',
      '        LEAX  NEAR,PCR']),
    ('pcr backwards boundary', [' ORG $100', 'L NOP', ' RMB 121', ' LEAX L,PCR', ' LEAX L,PCR', ' LEAX L,PCR']),
    ('equ forward reference',
     [' LDA #LATER', ' LDB LATER', ' LDX #BIG', 'LATER EQU 7', 'BIG EQU $1234', ' STA BIG']),
    ('expressions',
     ['        ORG   $4000',
      'BASE    EQU   $1000',
      'STEP    EQU   3',
      '        LDX   #BASE+STEP',
      '        LDA   #STEP*2',
      '        LDD   BASE/STEP',
      '        LDX   #HERE+2',
      '        LDX   #HERE-BASE',
      '        LDA   BASE-1',
      'HERE    LDA   STEP+4,X',
      '        JMP   HERE+1',
      '        FDB   HERE']),
    ('division by zero', ['Z EQU 0', ' LDA #4/Z']),
    ('undefined symbol', [' LDA MISSING']),
    ('undefined symbol in expression', [' LDA #MISSING+1']),
    ('duplicate label', ['A NOP', 'A NOP']),
    ('duplicate equ', ['A EQU 1', 'A EQU 2']),
    ('label defined after equ of same name', ['A EQU 1', 'A NOP']),
    ('bad mnemonic', [' FROB 1']),
    ('unparsable line', ['@@@ !!!']),
    ('org twice', [' ORG $100', ' NOP', ' ORG $200', 'X NOP', ' JMP X']),
    ('code before org', [' NOP', ' ORG $200', 'X NOP', ' JMP X']),
    ('no org', ['A LDA #1', ' JMP A']),
    ('data directives',
     ['        ORG   $10',
      '        FCB   1',
      "        FCB   $FF,255,-1,'A,%10101010",
      '        FDB   1',
      '        FDB   $FFFF,-1,65535,$12',
      '        FCC   "two words" trailing',
      '        FCC   /a;b/',
      '        RMB   3',
      '        RMB   0']),
    ('data directives 2',
     ['        FCB   -128',
      '        FDB   -32768',
      '        FCB   ,1,,2',
      "        FCC   'x'",
      'N       EQU   $10',
      '        RMB   N',
      '        FCB   N',
      '        FDB   N',
      '        SETDP $10',
      '        END']),
    ('fcb too big', [' FCB 256']),
    ('fcb list too big', [' FCB 1,256']),
    ('fdb too big', [' FDB 65536']),
    ('fcc unterminated', [' FCC /abc']),
    ('fcc empty', [' FCC']),
    ('rmb symbol undefined', [' RMB NOPE']),
    ('equ of label', ['A NOP', 'B EQU A', ' JMP B']),
    ('equ string-ish', ['S EQU X,Y', ' LDA S']),
    ('comments and blanks', ['; comment only', '', '   ', ' NOP ; trailing', 'L NOP', ' ; indented comment']),
    ('include missing', [' INCLUDE /nonexistent/file.asm']),
    ('nam and end', [' NAM PROG', ' ORG $E00', 'S RTS', ' END S']),
    ('inherent with operand', [' RTS 5']),
    ('operand missing', [' LDA']),
    ('immediate store', [' STA #5']),
    ('lea immediate', [' LEAX #5']),
    ('tfr mixed size', [' TFR A,X']),
    ('pshs own stack', [' PSHS S']),
    ('pshu own stack', [' PSHU U']),
    ('pshs empty', [' PSHS']),
    ('exg three', [' EXG A,B,X']),
    ('indexed auto with offset', [' LDA 1,X+']),
    ('indirect single auto', [' LDA [,X+]']),
    ('16 bit immediates',
     [' LDX #1',
      ' LDD #$12',
      ' CMPX #-1',
      ' LDS #%00000001',
      " LDU #'A",
      ' CMPY #300',
      ' ADDD #1',
      ' SUBD #$1234',
      ' CMPD #5',
      ' CMPS #5',
      ' CMPU #5',
      ' LDY #5']),
    ('8 bit immediates',
     [' LDA #1',
      ' LDB #$12',
      ' CMPA #-1',
      ' ANDCC #%11110000',
      ' ORCC #$50',
      " LDA #'z",
      ' LDA #255',
      ' LDA #256',
      ' LDA #$1234',
      ' CWAI #$FF']),
    ('direct and extended',
     [' LDA $12',
      ' LDA $0012',
      ' LDA <$0012',
      ' LDA >$12',
      ' LDA 18',
      ' LDA 300',
      ' JMP $12',
      ' JSR <$12',
      ' STA >$00',
      ' NEG $12',
      ' CLR <$FF',
      ' TST >$FF',
      ' LDA %00010010',
      ' LDA >%00010010',
      ' LDA <%0000000000010010']),
]

# Python expressions evaluated inside each tree (modules of the tree imported
# beforehand); the value - or the exception - is compared.
PROBES = [
    ("(lambda p, s: (setattr(s.code_pkg, 'op_code', NoneValue()), setattr(s.code_pkg, 'post_byte', NoneValue()), "
     "setattr(s.code_pkg, 'additional', NoneValue()), setattr(p, 'statements', [s, s]), "
     "p.get_binary_array())[-1])(Program(), Statement(' NOP\\n'))"),
    ("(lambda p, s: (setattr(s.code_pkg, 'op_code', NumericValue(5)), setattr(s.code_pkg, 'post_byte', "
     "NoneValue()), setattr(s.code_pkg, 'additional', NoneValue()), setattr(p, 'statements', [s, s]), "
     "p.get_binary_array())[-1])(Program(), Statement(' NOP\\n'))"),
    ("(lambda p, s: (setattr(s.code_pkg, 'op_code', NumericValue(0x1234)), setattr(s.code_pkg, 'post_byte', "
     "NoneValue()), setattr(s.code_pkg, 'additional', NoneValue()), setattr(p, 'statements', [s, s]), "
     "p.get_binary_array())[-1])(Program(), Statement(' NOP\\n'))"),
    ("(lambda p, s: (setattr(s.code_pkg, 'op_code', NumericValue(0x10, size_hint=4)), setattr(s.code_pkg, "
     "'post_byte', NoneValue()), setattr(s.code_pkg, 'additional', NoneValue()), setattr(p, 'statements', [s, "
     "s]), p.get_binary_array())[-1])(Program(), Statement(' NOP\\n'))"),
    ("(lambda p, s: (setattr(s.code_pkg, 'op_code', NumericValue(0x1234, size_hint=2)), setattr(s.code_pkg, "
     "'post_byte', NoneValue()), setattr(s.code_pkg, 'additional', NoneValue()), setattr(p, 'statements', [s, "
     "s]), p.get_binary_array())[-1])(Program(), Statement(' NOP\\n'))"),
    ("(lambda p, s: (setattr(s.code_pkg, 'op_code', NumericValue(0x123, size_hint=3)), setattr(s.code_pkg, "
     "'post_byte', NoneValue()), setattr(s.code_pkg, 'additional', NoneValue()), setattr(p, 'statements', [s, "
     "s]), p.get_binary_array())[-1])(Program(), Statement(' NOP\\n'))"),
    ("(lambda p, s: (setattr(s.code_pkg, 'op_code', NumericValue(1, size_hint=1)), setattr(s.code_pkg, "
     "'post_byte', NoneValue()), setattr(s.code_pkg, 'additional', NoneValue()), setattr(p, 'statements', [s, "
     "s]), p.get_binary_array())[-1])(Program(), Statement(' NOP\\n'))"),
    ("(lambda p, s: (setattr(s.code_pkg, 'op_code', NumericValue(0, size_hint=0)), setattr(s.code_pkg, "
     "'post_byte', NoneValue()), setattr(s.code_pkg, 'additional', NoneValue()), setattr(p, 'statements', [s, "
     "s]), p.get_binary_array())[-1])(Program(), Statement(' NOP\\n'))"),
    ("(lambda p, s: (setattr(s.code_pkg, 'op_code', NumericValue(0, size_hint=7)), setattr(s.code_pkg, "
     "'post_byte', NoneValue()), setattr(s.code_pkg, 'additional', NoneValue()), setattr(p, 'statements', [s, "
     "s]), p.get_binary_array())[-1])(Program(), Statement(' NOP\\n'))"),
    ("(lambda p, s: (setattr(s.code_pkg, 'op_code', NumericValue(-1)), setattr(s.code_pkg, 'post_byte', "
     "NoneValue()), setattr(s.code_pkg, 'additional', NoneValue()), setattr(p, 'statements', [s, s]), "
     "p.get_binary_array())[-1])(Program(), Statement(' NOP\\n'))"),
    ("(lambda p, s: (setattr(s.code_pkg, 'op_code', NumericValue(-1, size_hint=4)), setattr(s.code_pkg, "
     "'post_byte', NoneValue()), setattr(s.code_pkg, 'additional', NoneValue()), setattr(p, 'statements', [s, "
     "s]), p.get_binary_array())[-1])(Program(), Statement(' NOP\\n'))"),
    ("(lambda p, s: (setattr(s.code_pkg, 'op_code', AddressValue(0)), setattr(s.code_pkg, 'post_byte', "
     "NoneValue()), setattr(s.code_pkg, 'additional', NoneValue()), setattr(p, 'statements', [s, s]), "
     "p.get_binary_array())[-1])(Program(), Statement(' NOP\\n'))"),
    ("(lambda p, s: (setattr(s.code_pkg, 'op_code', AddressValue(0xE00)), setattr(s.code_pkg, 'post_byte', "
     "NoneValue()), setattr(s.code_pkg, 'additional', NoneValue()), setattr(p, 'statements', [s, s]), "
     "p.get_binary_array())[-1])(Program(), Statement(' NOP\\n'))"),
    ("(lambda p, s: (setattr(s.code_pkg, 'op_code', AddressValue(0x1234)), setattr(s.code_pkg, 'post_byte', "
     "NoneValue()), setattr(s.code_pkg, 'additional', NoneValue()), setattr(p, 'statements', [s, s]), "
     "p.get_binary_array())[-1])(Program(), Statement(' NOP\\n'))"),
    ("(lambda p, s: (setattr(s.code_pkg, 'op_code', AddressValue(0x12345)), setattr(s.code_pkg, 'post_byte', "
     "NoneValue()), setattr(s.code_pkg, 'additional', NoneValue()), setattr(p, 'statements', [s, s]), "
     "p.get_binary_array())[-1])(Program(), Statement(' NOP\\n'))"),
    ("(lambda p, s: (setattr(s.code_pkg, 'op_code', StringValue('/AB/')), setattr(s.code_pkg, 'post_byte', "
     "NoneValue()), setattr(s.code_pkg, 'additional', NoneValue()), setattr(p, 'statements', [s, s]), "
     "p.get_binary_array())[-1])(Program(), Statement(' NOP\\n'))"),
    ("(lambda p, s: (setattr(s.code_pkg, 'op_code', StringValue('//')), setattr(s.code_pkg, 'post_byte', "
     "NoneValue()), setattr(s.code_pkg, 'additional', NoneValue()), setattr(p, 'statements', [s, s]), "
     "p.get_binary_array())[-1])(Program(), Statement(' NOP\\n'))"),
    ("(lambda p, s: (setattr(s.code_pkg, 'op_code', MultiByteValue('1,2,3')), setattr(s.code_pkg, 'post_byte', "
     "NoneValue()), setattr(s.code_pkg, 'additional', NoneValue()), setattr(p, 'statements', [s, s]), "
     "p.get_binary_array())[-1])(Program(), Statement(' NOP\\n'))"),
    ("(lambda p, s: (setattr(s.code_pkg, 'op_code', MultiByteValue('1,256')), setattr(s.code_pkg, 'post_byte', "
     "NoneValue()), setattr(s.code_pkg, 'additional', NoneValue()), setattr(p, 'statements', [s, s]), "
     "p.get_binary_array())[-1])(Program(), Statement(' NOP\\n'))"),
    ("(lambda p, s: (setattr(s.code_pkg, 'op_code', MultiWordValue('1,2')), setattr(s.code_pkg, 'post_byte', "
     "NoneValue()), setattr(s.code_pkg, 'additional', NoneValue()), setattr(p, 'statements', [s, s]), "
     "p.get_binary_array())[-1])(Program(), Statement(' NOP\\n'))"),
    ("(lambda p, s: (setattr(s.code_pkg, 'op_code', MultiWordValue('1,65536')), setattr(s.code_pkg, 'post_byte', "
     "NoneValue()), setattr(s.code_pkg, 'additional', NoneValue()), setattr(p, 'statements', [s, s]), "
     "p.get_binary_array())[-1])(Program(), Statement(' NOP\\n'))"),
    ("(lambda p, s: (setattr(s.code_pkg, 'op_code', SymbolValue('FOO')), setattr(s.code_pkg, 'post_byte', "
     "NoneValue()), setattr(s.code_pkg, 'additional', NoneValue()), setattr(p, 'statements', [s, s]), "
     "p.get_binary_array())[-1])(Program(), Statement(' NOP\\n'))"),
    ("(lambda p, s: (setattr(s.code_pkg, 'op_code', ExpressionValue('1+2')), setattr(s.code_pkg, 'post_byte', "
     "NoneValue()), setattr(s.code_pkg, 'additional', NoneValue()), setattr(p, 'statements', [s, s]), "
     "p.get_binary_array())[-1])(Program(), Statement(' NOP\\n'))"),
    ("(lambda p, s: (setattr(s.code_pkg, 'op_code', LeftRightValue('1,X')), setattr(s.code_pkg, 'post_byte', "
     "NoneValue()), setattr(s.code_pkg, 'additional', NoneValue()), setattr(p, 'statements', [s, s]), "
     "p.get_binary_array())[-1])(Program(), Statement(' NOP\\n'))"),
    ("(lambda p, s: (setattr(s.code_pkg, 'op_code', 'AB'), setattr(s.code_pkg, 'post_byte', NoneValue()), "
     "setattr(s.code_pkg, 'additional', NoneValue()), setattr(p, 'statements', [s, s]), "
     "p.get_binary_array())[-1])(Program(), Statement(' NOP\\n'))"),
    ("(lambda p, s: (setattr(s.code_pkg, 'op_code', None), setattr(s.code_pkg, 'post_byte', NoneValue()), "
     "setattr(s.code_pkg, 'additional', NoneValue()), setattr(p, 'statements', [s, s]), "
     "p.get_binary_array())[-1])(Program(), Statement(' NOP\\n'))"),
    ("(lambda p, s: (setattr(s.code_pkg, 'op_code', 5), setattr(s.code_pkg, 'post_byte', NoneValue()), "
     "setattr(s.code_pkg, 'additional', NoneValue()), setattr(p, 'statements', [s, s]), "
     "p.get_binary_array())[-1])(Program(), Statement(' NOP\\n'))"),
    ("(lambda p, s: (setattr(s.code_pkg, 'op_code', NumericValue(0x86)), setattr(s.code_pkg, 'post_byte', "
     "NoneValue()), setattr(s.code_pkg, 'additional', NoneValue()), setattr(p, 'statements', [s, s]), "
     "p.get_binary_array())[-1])(Program(), Statement(' NOP\\n'))"),
    ("(lambda p, s: (setattr(s.code_pkg, 'op_code', NumericValue(0x86)), setattr(s.code_pkg, 'post_byte', "
     "NoneValue()), setattr(s.code_pkg, 'additional', NumericValue(5)), setattr(p, 'statements', [s, s]), "
     "p.get_binary_array())[-1])(Program(), Statement(' NOP\\n'))"),
    ("(lambda p, s: (setattr(s.code_pkg, 'op_code', NumericValue(0x86)), setattr(s.code_pkg, 'post_byte', "
     "NoneValue()), setattr(s.code_pkg, 'additional', NumericValue(0x1234)), setattr(p, 'statements', [s, s]), "
     "p.get_binary_array())[-1])(Program(), Statement(' NOP\\n'))"),
    ("(lambda p, s: (setattr(s.code_pkg, 'op_code', NumericValue(0x86)), setattr(s.code_pkg, 'post_byte', "
     "NoneValue()), setattr(s.code_pkg, 'additional', NumericValue(0x10, size_hint=4)), setattr(p, 'statements', "
     "[s, s]), p.get_binary_array())[-1])(Program(), Statement(' NOP\\n'))"),
    ("(lambda p, s: (setattr(s.code_pkg, 'op_code', NumericValue(0x86)), setattr(s.code_pkg, 'post_byte', "
     "NoneValue()), setattr(s.code_pkg, 'additional', NumericValue(0x1234, size_hint=2)), setattr(p, "
     "'statements', [s, s]), p.get_binary_array())[-1])(Program(), Statement(' NOP\\n'))"),
    ("(lambda p, s: (setattr(s.code_pkg, 'op_code', NumericValue(0x86)), setattr(s.code_pkg, 'post_byte', "
     "NoneValue()), setattr(s.code_pkg, 'additional', NumericValue(0x123, size_hint=3)), setattr(p, "
     "'statements', [s, s]), p.get_binary_array())[-1])(Program(), Statement(' NOP\\n'))"),
    ("(lambda p, s: (setattr(s.code_pkg, 'op_code', NumericValue(0x86)), setattr(s.code_pkg, 'post_byte', "
     "NoneValue()), setattr(s.code_pkg, 'additional', NumericValue(1, size_hint=1)), setattr(p, 'statements', "
     "[s, s]), p.get_binary_array())[-1])(Program(), Statement(' NOP\\n'))"),
    ("(lambda p, s: (setattr(s.code_pkg, 'op_code', NumericValue(0x86)), setattr(s.code_pkg, 'post_byte', "
     "NoneValue()), setattr(s.code_pkg, 'additional', NumericValue(0, size_hint=0)), setattr(p, 'statements', "
     "[s, s]), p.get_binary_array())[-1])(Program(), Statement(' NOP\\n'))"),
    ("(lambda p, s: (setattr(s.code_pkg, 'op_code', NumericValue(0x86)), setattr(s.code_pkg, 'post_byte', "
     "NoneValue()), setattr(s.code_pkg, 'additional', NumericValue(0, size_hint=7)), setattr(p, 'statements', "
     "[s, s]), p.get_binary_array())[-1])(Program(), Statement(' NOP\\n'))"),
    ("(lambda p, s: (setattr(s.code_pkg, 'op_code', NumericValue(0x86)), setattr(s.code_pkg, 'post_byte', "
     "NoneValue()), setattr(s.code_pkg, 'additional', NumericValue(-1)), setattr(p, 'statements', [s, s]), "
     "p.get_binary_array())[-1])(Program(), Statement(' NOP\\n'))"),
    ("(lambda p, s: (setattr(s.code_pkg, 'op_code', NumericValue(0x86)), setattr(s.code_pkg, 'post_byte', "
     "NoneValue()), setattr(s.code_pkg, 'additional', NumericValue(-1, size_hint=4)), setattr(p, 'statements', "
     "[s, s]), p.get_binary_array())[-1])(Program(), Statement(' NOP\\n'))"),
    ("(lambda p, s: (setattr(s.code_pkg, 'op_code', NumericValue(0x86)), setattr(s.code_pkg, 'post_byte', "
     "NoneValue()), setattr(s.code_pkg, 'additional', AddressValue(0)), setattr(p, 'statements', [s, s]), "
     "p.get_binary_array())[-1])(Program(), Statement(' NOP\\n'))"),
    ("(lambda p, s: (setattr(s.code_pkg, 'op_code', NumericValue(0x86)), setattr(s.code_pkg, 'post_byte', "
     "NoneValue()), setattr(s.code_pkg, 'additional', AddressValue(0xE00)), setattr(p, 'statements', [s, s]), "
     "p.get_binary_array())[-1])(Program(), Statement(' NOP\\n'))"),
    ("(lambda p, s: (setattr(s.code_pkg, 'op_code', NumericValue(0x86)), setattr(s.code_pkg, 'post_byte', "
     "NoneValue()), setattr(s.code_pkg, 'additional', AddressValue(0x1234)), setattr(p, 'statements', [s, s]), "
     "p.get_binary_array())[-1])(Program(), Statement(' NOP\\n'))"),
    ("(lambda p, s: (setattr(s.code_pkg, 'op_code', NumericValue(0x86)), setattr(s.code_pkg, 'post_byte', "
     "NoneValue()), setattr(s.code_pkg, 'additional', AddressValue(0x12345)), setattr(p, 'statements', [s, s]), "
     "p.get_binary_array())[-1])(Program(), Statement(' NOP\\n'))"),
    ("(lambda p, s: (setattr(s.code_pkg, 'op_code', NumericValue(0x86)), setattr(s.code_pkg, 'post_byte', "
     "NoneValue()), setattr(s.code_pkg, 'additional', StringValue('/AB/')), setattr(p, 'statements', [s, s]), "
     "p.get_binary_array())[-1])(Program(), Statement(' NOP\\n'))"),
    ("(lambda p, s: (setattr(s.code_pkg, 'op_code', NumericValue(0x86)), setattr(s.code_pkg, 'post_byte', "
     "NoneValue()), setattr(s.code_pkg, 'additional', StringValue('//')), setattr(p, 'statements', [s, s]), "
     "p.get_binary_array())[-1])(Program(), Statement(' NOP\\n'))"),
    ("(lambda p, s: (setattr(s.code_pkg, 'op_code', NumericValue(0x86)), setattr(s.code_pkg, 'post_byte', "
     "NoneValue()), setattr(s.code_pkg, 'additional', MultiByteValue('1,2,3')), setattr(p, 'statements', [s, "
     "s]), p.get_binary_array())[-1])(Program(), Statement(' NOP\\n'))"),
    ("(lambda p, s: (setattr(s.code_pkg, 'op_code', NumericValue(0x86)), setattr(s.code_pkg, 'post_byte', "
     "NoneValue()), setattr(s.code_pkg, 'additional', MultiByteValue('1,256')), setattr(p, 'statements', [s, "
     "s]), p.get_binary_array())[-1])(Program(), Statement(' NOP\\n'))"),
    ("(lambda p, s: (setattr(s.code_pkg, 'op_code', NumericValue(0x86)), setattr(s.code_pkg, 'post_byte', "
     "NoneValue()), setattr(s.code_pkg, 'additional', MultiWordValue('1,2')), setattr(p, 'statements', [s, s]), "
     "p.get_binary_array())[-1])(Program(), Statement(' NOP\\n'))"),
    ("(lambda p, s: (setattr(s.code_pkg, 'op_code', NumericValue(0x86)), setattr(s.code_pkg, 'post_byte', "
     "NoneValue()), setattr(s.code_pkg, 'additional', MultiWordValue('1,65536')), setattr(p, 'statements', [s, "
     "s]), p.get_binary_array())[-1])(Program(), Statement(' NOP\\n'))"),
    ("(lambda p, s: (setattr(s.code_pkg, 'op_code', NumericValue(0x86)), setattr(s.code_pkg, 'post_byte', "
     "NoneValue()), setattr(s.code_pkg, 'additional', SymbolValue('FOO')), setattr(p, 'statements', [s, s]), "
     "p.get_binary_array())[-1])(Program(), Statement(' NOP\\n'))"),
    ("(lambda p, s: (setattr(s.code_pkg, 'op_code', NumericValue(0x86)), setattr(s.code_pkg, 'post_byte', "
     "NoneValue()), setattr(s.code_pkg, 'additional', ExpressionValue('1+2')), setattr(p, 'statements', [s, s]), "
     "p.get_binary_array())[-1])(Program(), Statement(' NOP\\n'))"),
    ("(lambda p, s: (setattr(s.code_pkg, 'op_code', NumericValue(0x86)), setattr(s.code_pkg, 'post_byte', "
     "NoneValue()), setattr(s.code_pkg, 'additional', LeftRightValue('1,X')), setattr(p, 'statements', [s, s]), "
     "p.get_binary_array())[-1])(Program(), Statement(' NOP\\n'))"),
    ("(lambda p, s: (setattr(s.code_pkg, 'op_code', NumericValue(0x86)), setattr(s.code_pkg, 'post_byte', "
     "NoneValue()), setattr(s.code_pkg, 'additional', 'AB'), setattr(p, 'statements', [s, s]), "
     "p.get_binary_array())[-1])(Program(), Statement(' NOP\\n'))"),
    ("(lambda p, s: (setattr(s.code_pkg, 'op_code', NumericValue(0x86)), setattr(s.code_pkg, 'post_byte', "
     "NoneValue()), setattr(s.code_pkg, 'additional', None), setattr(p, 'statements', [s, s]), "
     "p.get_binary_array())[-1])(Program(), Statement(' NOP\\n'))"),
    ("(lambda p, s: (setattr(s.code_pkg, 'op_code', NumericValue(0x86)), setattr(s.code_pkg, 'post_byte', "
     "NoneValue()), setattr(s.code_pkg, 'additional', 5), setattr(p, 'statements', [s, s]), "
     "p.get_binary_array())[-1])(Program(), Statement(' NOP\\n'))"),
    ("(lambda p, s: (setattr(s.code_pkg, 'op_code', NumericValue(0x10A6)), setattr(s.code_pkg, 'post_byte', "
     "NoneValue()), setattr(s.code_pkg, 'additional', NumericValue(7)), setattr(p, 'statements', [s, s]), "
     "p.get_binary_array())[-1])(Program(), Statement(' NOP\\n'))"),
    ("(lambda p, s: (setattr(s.code_pkg, 'op_code', NumericValue(0x10A6)), setattr(s.code_pkg, 'post_byte', "
     "NumericValue(5)), setattr(s.code_pkg, 'additional', NumericValue(7)), setattr(p, 'statements', [s, s]), "
     "p.get_binary_array())[-1])(Program(), Statement(' NOP\\n'))"),
    ("(lambda p, s: (setattr(s.code_pkg, 'op_code', NumericValue(0x10A6)), setattr(s.code_pkg, 'post_byte', "
     "NumericValue(0x1234)), setattr(s.code_pkg, 'additional', NumericValue(7)), setattr(p, 'statements', [s, "
     "s]), p.get_binary_array())[-1])(Program(), Statement(' NOP\\n'))"),
    ("(lambda p, s: (setattr(s.code_pkg, 'op_code', NumericValue(0x10A6)), setattr(s.code_pkg, 'post_byte', "
     "NumericValue(0x10, size_hint=4)), setattr(s.code_pkg, 'additional', NumericValue(7)), setattr(p, "
     "'statements', [s, s]), p.get_binary_array())[-1])(Program(), Statement(' NOP\\n'))"),
    ("(lambda p, s: (setattr(s.code_pkg, 'op_code', NumericValue(0x10A6)), setattr(s.code_pkg, 'post_byte', "
     "NumericValue(0x1234, size_hint=2)), setattr(s.code_pkg, 'additional', NumericValue(7)), setattr(p, "
     "'statements', [s, s]), p.get_binary_array())[-1])(Program(), Statement(' NOP\\n'))"),
    ("(lambda p, s: (setattr(s.code_pkg, 'op_code', NumericValue(0x10A6)), setattr(s.code_pkg, 'post_byte', "
     "NumericValue(0x123, size_hint=3)), setattr(s.code_pkg, 'additional', NumericValue(7)), setattr(p, "
     "'statements', [s, s]), p.get_binary_array())[-1])(Program(), Statement(' NOP\\n'))"),
    ("(lambda p, s: (setattr(s.code_pkg, 'op_code', NumericValue(0x10A6)), setattr(s.code_pkg, 'post_byte', "
     "NumericValue(1, size_hint=1)), setattr(s.code_pkg, 'additional', NumericValue(7)), setattr(p, "
     "'statements', [s, s]), p.get_binary_array())[-1])(Program(), Statement(' NOP\\n'))"),
    ("(lambda p, s: (setattr(s.code_pkg, 'op_code', NumericValue(0x10A6)), setattr(s.code_pkg, 'post_byte', "
     "NumericValue(0, size_hint=0)), setattr(s.code_pkg, 'additional', NumericValue(7)), setattr(p, "
     "'statements', [s, s]), p.get_binary_array())[-1])(Program(), Statement(' NOP\\n'))"),
    ("(lambda p, s: (setattr(s.code_pkg, 'op_code', NumericValue(0x10A6)), setattr(s.code_pkg, 'post_byte', "
     "NumericValue(0, size_hint=7)), setattr(s.code_pkg, 'additional', NumericValue(7)), setattr(p, "
     "'statements', [s, s]), p.get_binary_array())[-1])(Program(), Statement(' NOP\\n'))"),
    ("(lambda p, s: (setattr(s.code_pkg, 'op_code', NumericValue(0x10A6)), setattr(s.code_pkg, 'post_byte', "
     "NumericValue(-1)), setattr(s.code_pkg, 'additional', NumericValue(7)), setattr(p, 'statements', [s, s]), "
     "p.get_binary_array())[-1])(Program(), Statement(' NOP\\n'))"),
    ("(lambda p, s: (setattr(s.code_pkg, 'op_code', NumericValue(0x10A6)), setattr(s.code_pkg, 'post_byte', "
     "NumericValue(-1, size_hint=4)), setattr(s.code_pkg, 'additional', NumericValue(7)), setattr(p, "
     "'statements', [s, s]), p.get_binary_array())[-1])(Program(), Statement(' NOP\\n'))"),
    ("(lambda p, s: (setattr(s.code_pkg, 'op_code', NumericValue(0x10A6)), setattr(s.code_pkg, 'post_byte', "
     "AddressValue(0)), setattr(s.code_pkg, 'additional', NumericValue(7)), setattr(p, 'statements', [s, s]), "
     "p.get_binary_array())[-1])(Program(), Statement(' NOP\\n'))"),
    ("(lambda p, s: (setattr(s.code_pkg, 'op_code', NumericValue(0x10A6)), setattr(s.code_pkg, 'post_byte', "
     "AddressValue(0xE00)), setattr(s.code_pkg, 'additional', NumericValue(7)), setattr(p, 'statements', [s, "
     "s]), p.get_binary_array())[-1])(Program(), Statement(' NOP\\n'))"),
    ("(lambda p, s: (setattr(s.code_pkg, 'op_code', NumericValue(0x10A6)), setattr(s.code_pkg, 'post_byte', "
     "AddressValue(0x1234)), setattr(s.code_pkg, 'additional', NumericValue(7)), setattr(p, 'statements', [s, "
     "s]), p.get_binary_array())[-1])(Program(), Statement(' NOP\\n'))"),
    ("(lambda p, s: (setattr(s.code_pkg, 'op_code', NumericValue(0x10A6)), setattr(s.code_pkg, 'post_byte', "
     "AddressValue(0x12345)), setattr(s.code_pkg, 'additional', NumericValue(7)), setattr(p, 'statements', [s, "
     "s]), p.get_binary_array())[-1])(Program(), Statement(' NOP\\n'))"),
    ("(lambda p, s: (setattr(s.code_pkg, 'op_code', NumericValue(0x10A6)), setattr(s.code_pkg, 'post_byte', "
     "StringValue('/AB/')), setattr(s.code_pkg, 'additional', NumericValue(7)), setattr(p, 'statements', [s, "
     "s]), p.get_binary_array())[-1])(Program(), Statement(' NOP\\n'))"),
    ("(lambda p, s: (setattr(s.code_pkg, 'op_code', NumericValue(0x10A6)), setattr(s.code_pkg, 'post_byte', "
     "StringValue('//')), setattr(s.code_pkg, 'additional', NumericValue(7)), setattr(p, 'statements', [s, s]), "
     "p.get_binary_array())[-1])(Program(), Statement(' NOP\\n'))"),
    ("(lambda p, s: (setattr(s.code_pkg, 'op_code', NumericValue(0x10A6)), setattr(s.code_pkg, 'post_byte', "
     "MultiByteValue('1,2,3')), setattr(s.code_pkg, 'additional', NumericValue(7)), setattr(p, 'statements', [s, "
     "s]), p.get_binary_array())[-1])(Program(), Statement(' NOP\\n'))"),
    ("(lambda p, s: (setattr(s.code_pkg, 'op_code', NumericValue(0x10A6)), setattr(s.code_pkg, 'post_byte', "
     "MultiByteValue('1,256')), setattr(s.code_pkg, 'additional', NumericValue(7)), setattr(p, 'statements', [s, "
     "s]), p.get_binary_array())[-1])(Program(), Statement(' NOP\\n'))"),
    ("(lambda p, s: (setattr(s.code_pkg, 'op_code', NumericValue(0x10A6)), setattr(s.code_pkg, 'post_byte', "
     "MultiWordValue('1,2')), setattr(s.code_pkg, 'additional', NumericValue(7)), setattr(p, 'statements', [s, "
     "s]), p.get_binary_array())[-1])(Program(), Statement(' NOP\\n'))"),
    ("(lambda p, s: (setattr(s.code_pkg, 'op_code', NumericValue(0x10A6)), setattr(s.code_pkg, 'post_byte', "
     "MultiWordValue('1,65536')), setattr(s.code_pkg, 'additional', NumericValue(7)), setattr(p, 'statements', "
     "[s, s]), p.get_binary_array())[-1])(Program(), Statement(' NOP\\n'))"),
    ("(lambda p, s: (setattr(s.code_pkg, 'op_code', NumericValue(0x10A6)), setattr(s.code_pkg, 'post_byte', "
     "SymbolValue('FOO')), setattr(s.code_pkg, 'additional', NumericValue(7)), setattr(p, 'statements', [s, s]), "
     "p.get_binary_array())[-1])(Program(), Statement(' NOP\\n'))"),
    ("(lambda p, s: (setattr(s.code_pkg, 'op_code', NumericValue(0x10A6)), setattr(s.code_pkg, 'post_byte', "
     "ExpressionValue('1+2')), setattr(s.code_pkg, 'additional', NumericValue(7)), setattr(p, 'statements', [s, "
     "s]), p.get_binary_array())[-1])(Program(), Statement(' NOP\\n'))"),
    ("(lambda p, s: (setattr(s.code_pkg, 'op_code', NumericValue(0x10A6)), setattr(s.code_pkg, 'post_byte', "
     "LeftRightValue('1,X')), setattr(s.code_pkg, 'additional', NumericValue(7)), setattr(p, 'statements', [s, "
     "s]), p.get_binary_array())[-1])(Program(), Statement(' NOP\\n'))"),
    ("(lambda p, s: (setattr(s.code_pkg, 'op_code', NumericValue(0x10A6)), setattr(s.code_pkg, 'post_byte', "
     "'AB'), setattr(s.code_pkg, 'additional', NumericValue(7)), setattr(p, 'statements', [s, s]), "
     "p.get_binary_array())[-1])(Program(), Statement(' NOP\\n'))"),
    ("(lambda p, s: (setattr(s.code_pkg, 'op_code', NumericValue(0x10A6)), setattr(s.code_pkg, 'post_byte', "
     "None), setattr(s.code_pkg, 'additional', NumericValue(7)), setattr(p, 'statements', [s, s]), "
     "p.get_binary_array())[-1])(Program(), Statement(' NOP\\n'))"),
    ("(lambda p, s: (setattr(s.code_pkg, 'op_code', NumericValue(0x10A6)), setattr(s.code_pkg, 'post_byte', 5), "
     "setattr(s.code_pkg, 'additional', NumericValue(7)), setattr(p, 'statements', [s, s]), "
     "p.get_binary_array())[-1])(Program(), Statement(' NOP\\n'))"),
    'Program().get_binary_array()',
    ("(lambda p: (setattr(p, 'statements', [Statement(''), Statement('; c'), Statement(' NOP\\n')]), "
     'p.get_binary_array()))(Program())'),
    ("(lambda p: (p.process([' FCB 1,2\\n', ' RMB 2\\n', ' FDB $1234\\n']), p.get_binary_array(), "
     'p.get_binary_array()))(Program())'),
]

# Command line runs: (name, [source lines], [arguments], [files expected])
CLI_CASES = [
    ('data image',
     [' NAM DATA',
      ' ORG $E00',
      'S FCB 1,2,$FF',
      ' FCB -1',
      ' FDB $1234,5',
      ' FDB -2',
      ' FCC /HI THERE/',
      ' RMB 5',
      ' FCB 7',
      'E RTS',
      ' END S'],
     [['--print', '--symbols', '--to_bin', 'o.bin', '--to_cas', 'o.cas', '--to_dsk', 'o.dsk']],
     []),
    ('bad list image', [' NAM BAD', ' ORG $E00', ' FCB 1,256', ' RTS'], [['--print', '--to_bin', 'o.bin']], []),
    ('only directives',
     [' NAM NONE', ' ORG $E00', 'A EQU 1', ' END'],
     [['--print', '--symbols', '--to_bin', 'o.bin', '--to_cas', 'o.cas']],
     []),
]

USE_CORPUS = True

# --------------------------------------------------------------------------
# worker: runs inside ONE tree
# --------------------------------------------------------------------------


def show(obj, depth=0):
    """Turns a library object into plain comparable data."""
    from enum import Enum
    if depth > 6:
        return "<deep>"
    if obj is None or isinstance(obj, (bool, int, float, str)):
        return obj
    if isinstance(obj, bytes):
        return obj.hex()
    if isinstance(obj, Enum):
        return "{}.{}".format(type(obj).__name__, obj.name)
    if isinstance(obj, (list, tuple)):
        return [show(x, depth + 1) for x in obj]
    if isinstance(obj, (set, frozenset)):
        return sorted(repr(show(x, depth + 1)) for x in obj)
    if isinstance(obj, dict):
        return {str(k): show(v, depth + 1) for k, v in obj.items()}
    if isinstance(obj, BaseException):
        return describe_error(obj)
    if isinstance(obj, type):
        return "class " + obj.__name__
    result = {"__class__": type(obj).__name__}
    fields = getattr(obj, "__dict__", None)
    if fields is None:
        return repr(obj)
    for key in sorted(fields):
        if key.startswith("_"):
            continue
        result[key] = show(fields[key], depth + 1)
    for method in ("hex", "hex_len", "byte_len", "ascii", "is_8_bit", "is_16_bit", "is_4_bit",
                   "high_byte", "low_byte"):
        function = getattr(obj, method, None)
        if callable(function) and hasattr(obj, "explict_addressing_mode"):
            try:
                result["." + method] = show(function(), depth + 1)
            except Exception as error:
                result["." + method] = describe_error(error)
    return result


def describe_error(error):
    description = {"error": type(error).__name__, "text": str(error), "args": show(list(error.args))}
    if hasattr(error, "value"):
        description["value"] = show(getattr(error, "value"))
    if hasattr(error, "statement"):
        statement = getattr(error, "statement")
        try:
            description["statement"] = str(statement)
        except Exception as inner:
            description["statement"] = "unprintable: " + type(inner).__name__
    return description


def assemble(lines):
    from cocoasm.program import Program
    program = Program()
    try:
        program.process(list(lines))
    except BaseException as error:
        return {"raised": describe_error(error),
                "symbols_so_far": sorted(program.symbol_table.keys())}
    outcome = {}
    for name, function in (
            ("binary", program.get_binary_array),
            ("listing", program.get_statements),
            ("symbols", program.get_symbol_table),
    ):
        try:
            outcome[name] = show(function())
        except BaseException as error:
            outcome[name] = describe_error(error)
    outcome["origin"] = show(program.origin)
    outcome["name"] = show(program.name)
    outcome["packages"] = [
        [s.code_pkg.size, s.code_pkg.max_size, s.fixed_size, s.pcr_size_hint,
         show(s.code_pkg.post_byte_choices), s.code_pkg.additional_needs_resolution,
         type(s.operand).__name__, show(s.operand.type)]
        for s in program.statements
    ]
    return outcome


def final_line_of_traceback(text):
    """An uncaught exception prints source lines and line numbers of the tree; only its last line is behaviour."""
    if "Traceback (most recent call last)" not in text:
        return text
    head = text.split("Traceback (most recent call last)")[0]
    return head + "<traceback> " + text.strip().split("\n")[-1]


def run_cli(tree, name, lines, arguments, files):
    results = {}
    with tempfile.TemporaryDirectory() as scratch:
        source = os.path.join(scratch, "input.asm")
        with open(source, "w") as handle:
            handle.write("\n".join(lines) + "\n")
        environment = dict(os.environ, PYTHONPATH=tree, PYTHONDONTWRITEBYTECODE="1")
        for round_number, argument_list in enumerate(arguments):
            completed = subprocess.run(
                [sys.executable, os.path.join(tree, "assembler.py"), "input.asm"] + argument_list,
                cwd=scratch, env=environment, capture_output=True, text=True, timeout=120,
            )
            results["run{}".format(round_number)] = {
                "stdout": completed.stdout.replace(tree, "<TREE>"),
                "stderr": final_line_of_traceback(completed.stderr.replace(tree, "<TREE>")),
                "code": completed.returncode,
            }
        produced = {}
        for file_name in sorted(os.listdir(scratch)):
            if file_name == "input.asm":
                continue
            with open(os.path.join(scratch, file_name), "rb") as handle:
                produced[file_name] = handle.read().hex()
        results["files"] = produced
    return results


def worker(tree):
    tree = os.path.abspath(tree)
    sys.path.insert(0, tree)
    os.chdir(tree)
    sys.dont_write_bytecode = True
    results = {}

    import cocoasm.instruction
    import cocoasm.operands
    import cocoasm.values
    import cocoasm.statement
    import cocoasm.program
    assert os.path.abspath(cocoasm.program.__file__).startswith(tree), cocoasm.program.__file__

    for name, lines in CASES:
        # as SourceFile.readlines() delivers them, and bare
        results["case:" + name] = assemble([line + "\n" for line in lines])
        results["bare:" + name] = assemble(lines)

    namespace = {"show": show}
    for module in (cocoasm.instruction, cocoasm.operands, cocoasm.values, cocoasm.statement, cocoasm.program):
        namespace.update({k: v for k, v in vars(module).items() if not k.startswith("__")})
    namespace["MN"] = {i.mnemonic: i for i in cocoasm.instruction.INSTRUCTIONS}
    for expression in PROBES:
        try:
            results["probe:" + expression] = show(eval(expression, dict(namespace)))
        except BaseException as error:
            results["probe:" + expression] = {"raised": describe_error(error)}

    if USE_CORPUS:
        for instruction in cocoasm.instruction.INSTRUCTIONS:
            for operand in OPERAND_FORMS:
                lines = [x.format(mnemonic=instruction.mnemonic, operand=operand) + "\n" for x in CORPUS_TEMPLATE]
                outcome = assemble(lines)
                # the corpus is big: keep a digest plus the essentials
                blob = json.dumps(outcome, sort_keys=True)
                results["corpus:{} {}".format(instruction.mnemonic, operand)] = [
                    hashlib.sha1(blob.encode()).hexdigest(),
                    outcome.get("binary", outcome.get("raised")),
                ]

    for name, lines, arguments, files in CLI_CASES:
        results["cli:" + name] = run_cli(tree, name, lines, arguments, files)

    json.dump(results, sys.stdout, sort_keys=True)


# --------------------------------------------------------------------------
# driver
# --------------------------------------------------------------------------


def main():
    if len(sys.argv) == 3 and sys.argv[1] == "--worker":
        worker(sys.argv[2])
        return 0
    if len(sys.argv) != 3:
        print(__doc__)
        return 2
    outputs = []
    for tree in sys.argv[1:3]:
        tree = os.path.abspath(tree)
        completed = subprocess.run(
            [sys.executable, os.path.abspath(__file__), "--worker", tree],
            capture_output=True, text=True, cwd=tree,
            env=dict(os.environ, PYTHONDONTWRITEBYTECODE="1"),
        )
        if completed.returncode != 0:
            print("worker failed for", tree)
            print(completed.stderr[-3000:])
            return 1
        outputs.append(json.loads(completed.stdout))
    first, second = outputs
    differences = 0
    for key in sorted(set(first) | set(second)):
        if first.get(key, "<missing>") != second.get(key, "<missing>"):
            differences += 1
            if differences <= 10:
                print("DIFFERENT:", key)
                print("   A:", json.dumps(first.get(key, "<missing>"), sort_keys=True)[:300])
                print("   B:", json.dumps(second.get(key, "<missing>"), sort_keys=True)[:300])
    kinds = {}
    for key in first:
        kinds[key.split(":")[0]] = kinds.get(key.split(":")[0], 0) + 1
    print("compared {} results ({}); {} differ".format(
        len(first), ", ".join("{} {}".format(v, k) for k, v in sorted(kinds.items())), differences))
    return 1 if differences else 0


if __name__ == "__main__":
    sys.exit(main())
