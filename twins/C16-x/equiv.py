#!/venv/bin/python
"""
Differential demonstration for property C16 (file_util conversions).

usage: equiv.py <treeA> <treeB>

A probe script is run once per tree (as a subprocess, with the tree as cwd and at
the front of sys.path). The probe builds source images with the tree's own
library, drives the tree's file_util.py as a subprocess in a scratch directory,
and also calls the container / VirtualFile API directly. Everything observable
(stdout, exit status, produced files, listings, exception type + message) is
dumped as JSON; the two dumps are compared.
"""
import json
import subprocess
import sys
import os

PROBE = r'''
import hashlib, io, json, os, shutil, subprocess, sys, tempfile, contextlib
TREE = os.getcwd()
sys.path.insert(0, TREE)

from cocoasm.values import NumericValue, NoneValue
from cocoasm.virtualfiles.coco_file import CoCoFile
from cocoasm.virtualfiles.cassette import CassetteFile
from cocoasm.virtualfiles.disk import DiskFile, DiskConstants
from cocoasm.virtualfiles.binary import BinaryFile
from cocoasm.virtualfiles.source_file import SourceFile, SourceFileType
from cocoasm.virtualfiles.virtual_file import VirtualFile, VirtualFileType

RESULTS = []


def record(label, value):
    RESULTS.append([label, value])


def digest(data):
    return hashlib.sha256(bytes(data)).hexdigest()


def guarded(label, fn):
    try:
        record(label, ["ok", fn()])
    except SystemExit as error:
        record(label, ["exit", repr(error.code)])
    except BaseException as error:
        record(label, ["raise", type(error).__name__, str(error)])


def data_of(length, seed):
    return [(seed * 7 + index * 13) & 0xFF for index in range(length)]


def ml(name, length, load=0x0E00, exe=0x0E10, seed=1, ext="BIN"):
    return CoCoFile(name=name, extension=ext, type=NumericValue(2), data_type=NumericValue(0),
                    gaps=NumericValue(0), load_addr=NumericValue(load), exec_addr=NumericValue(exe),
                    data=data_of(length, seed))


def bas(name, length, seed=2, ascii_flag=0x00, ftype=0):
    return CoCoFile(name=name, extension="BAS", type=NumericValue(ftype), data_type=NumericValue(ascii_flag),
                    gaps=NumericValue(0), load_addr=NumericValue(0), exec_addr=NumericValue(0),
                    data=data_of(length, seed))


def describe(coco_file):
    return {
        "name": coco_file.name, "ext": coco_file.extension,
        "type": coco_file.type.hex(), "dtype": coco_file.data_type.hex(),
        "gaps": coco_file.gaps.hex() if not coco_file.gaps.is_none() else None,
        "load": coco_file.load_addr.hex(size=4) if not coco_file.load_addr.is_none() else None,
        "exec": coco_file.exec_addr.hex(size=4) if not coco_file.exec_addr.is_none() else None,
        "len": len(coco_file.data), "sha": digest(coco_file.data), "str": str(coco_file),
        "ignore_gaps": coco_file.ignore_gaps,
    }


FILE_SETS = {
    "one_ml": [ml("HELLO", 40)],
    "one_bas": [bas("PROG", 100)],
    "mixed": [ml("Alpha", 10, seed=3), bas("beta", 300, seed=4), bas("GAMMA", 77, seed=5, ascii_flag=0xFF),
              ml("delta123", 2000, load=0x3F00, exe=0x3F05, seed=6), bas("E", 1, ftype=1, seed=7)],
    "sizes": [ml("S254", 254, seed=8), ml("S255", 255, seed=9), ml("S256", 256, seed=10), ml("S2293", 2293, seed=11),
              ml("S5000", 5000, seed=14), bas("B2300", 2300, seed=12), bas("A2305", 2305, seed=13, ascii_flag=0xFF)],
    "edge": [ml("S2294", 2294, seed=11), ml("S2295", 2295, seed=12), ml("S2299", 2299, seed=12), ml("S2304", 2304, seed=13)],
    "names": [ml("LONGNAME9", 12, seed=15), ml("a b", 13, seed=16), ml("x\0y", 14, seed=17), ml("  pad", 15, seed=18),
              ml("", 16, seed=19), ml("dup", 17, seed=20), ml("DUP", 18, seed=21), ml("Mi.Xed", 19, seed=22, ext="b\0"),
              ml("ext", 20, seed=23, ext="longer"), ml("q", 21, seed=24, ext="")],
    "empty_data": [ml("FIRST", 5, seed=25), ml("NODATA", 0, seed=26), ml("AFTER", 6, seed=27)],
    "none": [],
}


def build(kind, files):
    container = CassetteFile() if kind == "cas" else DiskFile()
    container.add_files(files)
    return container.get_buffer()


def snapshot_dir(path):
    out = {}
    for entry in sorted(os.listdir(path)):
        full = os.path.join(path, entry)
        with open(full, "rb") as handle:
            content = handle.read()
        info = {"size": len(content), "sha": hashlib.sha256(content).hexdigest()}
        parsed = []
        try:
            buf = list(content)
            try:
                parsed = ["dsk", [describe(f) for f in DiskFile(buffer=buf).list_files()]]
            except Exception as disk_error:
                parsed = ["cas", [describe(f) for f in CassetteFile(buffer=list(content)).list_files()]]
        except BaseException as error:
            parsed = ["unparsed", type(error).__name__, str(error)]
        info["parsed"] = parsed
        out[entry] = info
    return out


def run_util(workdir, *arguments):
    proc = subprocess.run([sys.executable, os.path.join(TREE, "file_util.py")] + list(arguments),
                          cwd=workdir, stdout=subprocess.PIPE, stderr=subprocess.PIPE, universal_newlines=True)
    stderr = proc.stderr.replace(TREE, "<TREE>")
    # keep only the exception line(s) of a traceback, the line numbers legitimately differ
    stderr_tail = [line for line in stderr.splitlines() if line and not line.startswith(" ")]
    return {"rc": proc.returncode, "out": proc.stdout, "err": stderr_tail}


def cli_case(label, sources, steps):
    """sources: {filename: bytes-list}; steps: list of argument lists, run in order in one directory."""
    workdir = tempfile.mkdtemp(prefix="c16_")
    try:
        for name, content in sources.items():
            with open(os.path.join(workdir, name), "wb") as handle:
                handle.write(bytearray(content))
        outcome = []
        for step in steps:
            outcome.append([step, run_util(workdir, *step)])
        record(label, {"steps": outcome, "files": snapshot_dir(workdir)})
    except BaseException as error:
        record(label, ["probe-raise", type(error).__name__, str(error)])
    finally:
        shutil.rmtree(workdir, ignore_errors=True)


# ---------------------------------------------------------------- CLI cases
for set_name, files in FILE_SETS.items():
    for kind in ("cas", "dsk"):
        try:
            image = build(kind, files)
        except BaseException as error:
            record("build %s %s" % (set_name, kind), ["raise", type(error).__name__, str(error)])
            continue
        record("build %s %s" % (set_name, kind), digest(image))
        src = "src." + kind
        cli_case("list %s %s" % (set_name, kind), {src: image}, [[src, "--list"]])
        cli_case("chain %s %s" % (set_name, kind), {src: image}, [
            [src, "--to_dsk", "a.dsk"], ["a.dsk", "--to_cas", "b.cas"], ["b.cas", "--to_dsk", "c.dsk"],
            [src, "--to_cas", "d.cas"], ["d.cas", "--to_dsk", "e.dsk"], ["e.dsk", "--to_cas", "f.cas"],
            ["c.dsk", "--list"], ["f.cas", "--list"],
        ])
        cli_case("to_bin %s %s" % (set_name, kind), {src: image}, [[src, "--to_bin", "out.bin"]])

mixed = FILE_SETS["mixed"]
names = FILE_SETS["names"]
for kind in ("cas", "dsk"):
    src = "src." + kind
    image = build(kind, mixed)
    selections = [["ALPHA"], ["alpha"], ["AlPhA", "gamma"], ["beta", "E", "nothere"], ["nothere"], ["DELTA123", "delta123"],
                  ["alpha "], [" alpha"], ["e"], ["BETA", "ALPHA"], ["Alpha.BIN"], ["alph"], [""]]
    for index, selection in enumerate(selections):
        cli_case("files %s #%d" % (kind, index), {src: image}, [
            [src, "--to_cas", "o.cas", "--files"] + selection,
            [src, "--to_dsk", "o.dsk", "--files"] + selection,
            ["o.cas", "--to_dsk", "back.dsk"], ["o.dsk", "--to_cas", "back.cas"],
        ])
    image = build(kind, names)
    for index, selection in enumerate([["dup"], ["LONGNAME"], ["LONGNAME9"], ["a b"], ["xy"], ["pad"], ["MI.XED", "Q"], ["x y"]]):
        cli_case("names %s #%d" % (kind, index), {src: image}, [
            [src, "--to_cas", "o.cas", "--files"] + selection,
            [src, "--to_dsk", "o.dsk", "--files"] + selection,
            ["o.cas", "--list"], ["o.dsk", "--list"],
        ])
    single = build(kind, [ml("Solo", 300, seed=40)])
    cli_case("bin select hit %s" % kind, {src: single}, [[src, "--to_bin", "o.bin", "--files", "solo"]])
    cli_case("bin select miss %s" % kind, {src: single}, [[src, "--to_bin", "o.bin", "--files", "other"]])
    cli_case("bin exists %s" % kind, {src: single, "o.bin": [1, 2, 3]}, [[src, "--to_bin", "o.bin"]])
    cli_case("bin exists append %s" % kind, {src: single, "o.bin": [1, 2, 3]}, [[src, "--to_bin", "o.bin", "--append"]])
    cli_case("all three targets %s" % kind, {src: single}, [[src, "--to_cas", "o.cas", "--to_dsk", "o.dsk", "--to_bin", "o.bin"]])
    cli_case("list wins %s" % kind, {src: single}, [[src, "--list", "--to_cas", "o.cas"]])
    cli_case("no action %s" % kind, {src: single}, [[src]])
    other = build(kind, [bas("Second", 50, seed=41)])
    for target_kind, flag in (("cas", "--to_cas"), ("dsk", "--to_dsk")):
        target = "t." + target_kind
        cli_case("exists no append %s->%s" % (kind, target_kind), {src: single, target: build(target_kind, [bas("OLD", 9)])},
                 [[src, flag, target], [target, "--list"]])
        cli_case("exists append %s->%s" % (kind, target_kind), {src: single, target: build(target_kind, [bas("OLD", 9)])},
                 [[src, flag, target, "--append"], ["src2." + kind, flag, target, "--append"], [target, "--list"]])
        cli_case("append twice %s->%s" % (kind, target_kind), {src: single, "src2." + kind: other},
                 [[src, flag, target], ["src2." + kind, flag, target, "--append"], [target, "--list"]])
        wrong_kind = "dsk" if target_kind == "cas" else "cas"
        cli_case("target wrong type %s->%s" % (kind, target_kind), {src: single, target: build(wrong_kind, [bas("OLD", 9)])},
                 [[src, flag, target, "--append"], [src, flag, target]])
        cli_case("target junk %s->%s" % (kind, target_kind), {src: single, target: [9, 8, 7, 6]},
                 [[src, flag, target, "--append"]])

cli_case("missing source", {}, [["nope.cas", "--list"], ["nope.cas", "--to_dsk", "o.dsk"], ["nope.cas", "--to_bin", "o.bin"]])
cli_case("empty source", {"e.cas": []}, [["e.cas", "--list"], ["e.cas", "--to_dsk", "o.dsk"], ["e.cas", "--to_bin", "o.bin"]])
cli_case("junk source", {"j.bin": list(range(200))}, [["j.bin", "--list"], ["j.bin", "--to_cas", "o.cas"], ["j.bin", "--to_bin", "o.bin"]])
cli_case("short dsk", {"s.dsk": build("dsk", mixed)[:100000]}, [["s.dsk", "--list"], ["s.dsk", "--to_cas", "o.cas"]])
cli_case("truncated cas", {"t.cas": build("cas", mixed)[:700]}, [["t.cas", "--list"], ["t.cas", "--to_dsk", "o.dsk"]])
cli_case("truncated cas name", {"t.cas": build("cas", mixed)[:264]}, [["t.cas", "--list"]])
cli_case("bad args", {}, [[], ["--list"], ["x.cas", "--files"], ["x.cas", "--bogus"]])
full = [ml("F%d" % index, 2300, seed=index) for index in range(69)]
guarded("build too many granules", lambda: digest(build("dsk", full)))
cli_case("disk full", {"big.cas": build("cas", full)}, [["big.cas", "--to_dsk", "o.dsk"]])
many = [bas("M%d" % index, 3, seed=index) for index in range(68)]
cli_case("68 files", {"many.cas": build("cas", many)}, [["many.cas", "--to_dsk", "o.dsk"], ["o.dsk", "--to_cas", "p.cas"]])

# ---------------------------------------------------------------- direct API
def dir_entry_bytes(name, ext, entry=0, ftype=2, dtype=0):
    disk = DiskFile()
    coco = CoCoFile(name=name, extension=ext, type=NumericValue(ftype), data_type=NumericValue(dtype), data=[1])
    disk.write_dir_entry(entry, coco, 5, 0x1234)
    start = DiskConstants.DIR_OFFSET + entry * 32
    return [disk.buffer[start - 2:start + 40], len(disk.buffer), hashlib.sha256(repr(disk.buffer).encode()).hexdigest()]


for name, ext in [("A", "B"), ("abcdefgh", "bin"), ("abcdefghij", "binx"), ("", ""), ("a\0b", "\0"), ("straße", "bß"),
                  ("ßßßßßßßß", "ßßß"), ("ıx", "ﬁ"), ("  x  ", " y "),
                  ("MiXeD", "bAs"), ("tab\tnl\n", "\r"), ("Ābig", "ok"), (None, "x"), ("x", None), (b"bytes", "x"), (5, "x")]:
    for entry in (0, 1, 71):
        guarded("write_dir_entry %r %r %d" % (name, ext, entry), lambda: dir_entry_bytes(name, ext, entry))
guarded("write_dir_entry huge entry", lambda: dir_entry_bytes("A", "B", 2573))
guarded("write_dir_entry last fitting entry", lambda: dir_entry_bytes("A", "B", 2575))
guarded("write_dir_entry negative entry", lambda: dir_entry_bytes("A", "B", -1))


def disk_roundtrip(files):
    disk = DiskFile()
    disk.add_files(files)
    listed = DiskFile(buffer=list(disk.buffer)).list_files()
    return [digest(disk.buffer), [describe(f) for f in listed]]


def cas_roundtrip(files):
    tape = CassetteFile()
    tape.add_files(files)
    listed = CassetteFile(buffer=list(tape.buffer)).list_files()
    return [digest(tape.buffer), [describe(f) for f in listed]]


for set_name, files in FILE_SETS.items():
    guarded("disk roundtrip " + set_name, lambda: disk_roundtrip(files))
    guarded("cas roundtrip " + set_name, lambda: cas_roundtrip(files))

# directory entries whose name field is not plain upper-case ASCII
def patched_dir(name_bytes, ext_bytes):
    disk = DiskFile()
    disk.add_file(ml("PATCHME", 30))
    start = DiskConstants.DIR_OFFSET
    disk.buffer[start:start + 8] = name_bytes
    disk.buffer[start + 8:start + 11] = ext_bytes
    return [describe(f) for f in DiskFile(buffer=list(disk.buffer)).list_files()]


for name_bytes, ext_bytes in [([0x41, 0x20, 0x42, 0x20, 0x20, 0x20, 0x20, 0x20], [0x20, 0x20, 0x20]),
                              ([0x20] * 8, [0x42, 0x20, 0x4E]), ([0x61] * 8, [0x62] * 3),
                              ([0x41, 0, 0x42, 0, 0x20, 0x20, 0x20, 0x20], [0, 0, 0]),
                              ([0xC3, 0x9F, 0x41, 0x20, 0x20, 0x20, 0x20, 0x20], [0x42, 0x49, 0x4E]),
                              ([0x41, 0x80, 0x20, 0x20, 0x20, 0x20, 0x20, 0x20], [0x42, 0x49, 0x4E]),
                              ([0x41] * 8, [0x42, 0x49, 0xFF])]:
    guarded("patched dir %r %r" % (name_bytes, ext_bytes), lambda: patched_dir(name_bytes, ext_bytes))
guarded("disk list short", lambda: DiskFile(buffer=[0] * 1000).list_files())
guarded("disk list filenames arg", lambda: [describe(f) for f in DiskFile(buffer=build("dsk", mixed)).list_files(filenames=["ALPHA"])])
guarded("cas list filenames arg", lambda: [describe(f) for f in CassetteFile(buffer=build("cas", mixed)).list_files(filenames=["Alpha   ", "beta"])])


# VirtualFile API
def vf_case(fn):
    workdir = tempfile.mkdtemp(prefix="c16v_")
    try:
        value = fn(workdir)
        return [value, snapshot_dir(workdir)]
    finally:
        shutil.rmtree(workdir, ignore_errors=True)


def write(path, content):
    with open(path, "wb") as handle:
        handle.write(bytearray(content))


def vf_open(workdir, content, vtype):
    path = os.path.join(workdir, "img")
    if content is not None:
        write(path, content)
    vf = VirtualFile(SourceFile(path, file_type=SourceFileType.BINARY), virtual_file_type=vtype)
    vf.open_virtual_file()
    return vf


def vf_summary(vf):
    return [str(vf.virtual_file_type), vf.file_exists, [describe(f) for f in vf.coco_file_list]]


CONTENTS = {"cas": build("cas", mixed), "dsk": build("dsk", mixed), "junk": [1, 2, 3], "empty": [], "absent": None,
            "short_dsk": build("dsk", mixed)[:161279], "long_dsk": build("dsk", mixed) + [0] * 10,
            "cas_then_junk": build("cas", [ml("ONE", 5)]) + [0x55, 0x3C, 0x00, 0x0F]}
for content_name, content in CONTENTS.items():
    for vtype in (None, VirtualFileType.UNKNOWN, VirtualFileType.CASSETTE, VirtualFileType.BINARY, VirtualFileType.DISK):
        def open_case(workdir, content=content, vtype=vtype):
            try:
                return vf_summary(vf_open(workdir, content, vtype))
            except Exception as error:
                return ["raise", type(error).__name__, str(error).replace(workdir, "<W>")]
        guarded("vf open %s as %s" % (content_name, vtype), lambda: vf_case(open_case))

        def save_case(workdir, content=content, vtype=vtype):
            out = []
            for append in (False, True):
                try:
                    vf = vf_open(workdir, content, vtype)
                    vf.add_coco_file(ml("Added", 33, seed=50))
                    vf.add_coco_file(bas("two", 44, seed=51))
                    out.append(["ret", repr(vf.save_virtual_file(append_mode=append)), vf_summary(vf)])
                except Exception as error:
                    out.append(["raise", type(error).__name__, str(error).replace(workdir, "<W>")])
            return out
        guarded("vf save %s as %s" % (content_name, vtype), lambda: vf_case(save_case))


def vf_list(workdir):
    vf = vf_open(workdir, build("cas", mixed), None)
    out = []
    for selection in (None, [], (), "", ["Alpha   "], ["Alpha"], ["beta    ", "E       "], "Alpha   ", ("GAMMA   ",), {"beta    ": 1},
                      ["nothere"], ["ALPHA   "]):
        listed = vf.list_files(selection) if selection is not None else vf.list_files()
        out.append([repr(selection), [f.name for f in listed], listed is vf.coco_file_list])
    out.append(repr(vf.delete_coco_file("Alpha")))
    out.append(repr(vf.add_coco_file(ml("More", 3))))
    out.append([f.name for f in vf.list_files()])
    out.append(repr(VirtualFile().list_files()))
    out.append(repr(VirtualFile().list_files(["x"])))
    return out


guarded("vf list_files", lambda: vf_case(vf_list))


def vf_no_source(workdir):
    out = []
    for action in (lambda v: v.open_virtual_file(), lambda v: v.save_virtual_file(), lambda v: v.get_coco_files()):
        for vtype in (None, VirtualFileType.DISK):
            try:
                out.append(repr(action(VirtualFile(virtual_file_type=vtype))))
            except Exception as error:
                out.append(["raise", type(error).__name__, str(error)])
    return out


guarded("vf no source", lambda: vf_case(vf_no_source))


def vf_get_coco_files(workdir):
    out = []
    for content_name, content in CONTENTS.items():
        if content is None:
            continue
        source = SourceFile(os.path.join(workdir, "x"), file_type=SourceFileType.BINARY)
        source.set_buffer(list(content))
        try:
            files, vtype = VirtualFile(source).get_coco_files()
            out.append([content_name, str(vtype), [describe(f) for f in files]])
        except Exception as error:
            out.append([content_name, "raise", type(error).__name__, str(error)])
    return out


guarded("vf get_coco_files", lambda: vf_case(vf_get_coco_files))

json.dump(RESULTS, sys.stdout, sort_keys=True, default=repr)
'''


def start_probe(tree):
    tree = os.path.abspath(tree)
    env = dict(os.environ)
    env["PYTHONPATH"] = tree
    env["PYTHONDONTWRITEBYTECODE"] = "1"
    env["PYTHONHASHSEED"] = "0"
    return tree, subprocess.Popen([sys.executable, "-c", PROBE], cwd=tree, env=env,
                                  stdout=subprocess.PIPE, stderr=subprocess.PIPE, universal_newlines=True)


def finish_probe(started):
    tree, proc = started
    stdout, stderr = proc.communicate()
    if proc.returncode != 0:
        print("probe failed in", tree)
        print(stderr[-3000:])
        sys.exit(1)
    return json.loads(stdout)


def main():
    if len(sys.argv) != 3:
        print(__doc__)
        sys.exit(2)
    started = [start_probe(sys.argv[1]), start_probe(sys.argv[2])]
    result_a, result_b = [finish_probe(item) for item in started]
    differences = 0
    if len(result_a) != len(result_b):
        print("different number of cases: {} vs {}".format(len(result_a), len(result_b)))
        differences += 1
    for (label_a, value_a), (label_b, value_b) in zip(result_a, result_b):
        if label_a != label_b or value_a != value_b:
            differences += 1
            print("DIFF in case [{}] / [{}]".format(label_a, label_b))
            print("  A:", json.dumps(value_a, sort_keys=True)[:1500])
            print("  B:", json.dumps(value_b, sort_keys=True)[:1500])
    raised = sum(1 for _, value in result_a if isinstance(value, list) and value and value[0] in ("raise", "probe-raise"))
    print("{} cases compared ({} of them raise), {} differences".format(len(result_a), raised, differences))
    sys.exit(1 if differences else 0)


if __name__ == "__main__":
    main()
