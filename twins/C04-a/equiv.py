#!/usr/bin/env python
"""
Differential check for refactoring C04/a: NumericValue.__init__ takes Python
integers and decimal literals through the new NumericValue.set_integer(), the
negative literal branch uses a local, and post_init_direct_check is an if/elif.

usage: equiv.py <treeA> <treeB>   (exit 0 = every observable result agrees)
"""


def build_cases():
    cases = []
    numbers = [0, 1, 9, 10, 15, 16, 17, 99, 100, 127, 128, 129, 254, 255, 256, 257, 999, 1000, 4095, 4096, 32767, 32768,
               32769, 65534, 65535, 65536, 65537, 70000, 99999, 100000, 1 << 20]
    modes = ["NONE", "DIRECT", "EXTENDED", "RELATIVE", "IMMEDIATE", "EXTENDED_INDIRECT", "EXPLICIT_DIRECT",
             "EXPLICIT_EXTENDED"]
    hints = ["None", "0", "2", "4", "6"]
    # the constructor itself: ints and strings x size hints x modes
    for n in numbers:
        arguments = [str(n), str(-n), repr(str(n)), repr("-" + str(n)), repr("0" + str(n)), repr("-0" + str(n)),
                     repr("${:X}".format(n)), repr("+" + str(n))]
        for a_index, argument in enumerate(arguments):
            for m_index, mode in enumerate(modes):
                for h_index, hint in enumerate(hints):
                    if (a_index + m_index + h_index + n) % 7 == 0 or (m_index == 0 and h_index == 0):
                        cases.append({"kind": "eval", "expr": "NumericValue({}, size_hint={}, mode=values_module."
                                      "ExplicitAddressingMode.{})".format(argument, hint, mode)})
    for argument in ["True", "False", "None", "2.5", "''", "' '", "'-'", "'--1'", "'1-'", "' 1'", "'1 '", "'1\\n'", "'-1\\n'",
                     "'١٢'", "'-١٢'", "'0'", "'-0'", "'00000'", "'-32768'", "'-32769'", "'-65535'", "-32768", "-32769",
                     "-65535", "-65536", "-70000", "'1e3'", "'0x10'", "'1_000'", "1_000", "b'12'", "[1]", "'%101'",
                     "'%10101010'", "'%1010101010101010'", "'$FF'", "'$0FF'", "'$12345'", "\"'A\"", "\"'é\""]:
        cases.append({"kind": "eval", "expr": "NumericValue({})".format(argument)})
        cases.append({"kind": "eval", "expr": "values_module.DirectNumericValue({})".format(argument)})
        cases.append({"kind": "eval", "expr": "values_module.ExtendedNumericValue({})".format(argument)})
    # post_init_direct_check called again on a finished value (it is a public method)
    for argument in ["5", "300", "'$05'", "'%00000101'", "-5", "'-5'", "\"'A\""]:
        for mode in modes:
            setup = ("value = NumericValue({}, mode=values_module.ExplicitAddressingMode.{})\nbefore = dump(value)\n"
                     "value.post_init_direct_check()\n").format(argument, mode)
            cases.append({"kind": "eval", "setup": setup, "expr": "[before, value]"})

    # the literal in every operand position, through Value.create_from_str
    spellings = []
    for n in numbers:
        spellings += [str(n), "-" + str(n), "0" + str(n)]
    for text in spellings:
        for prefix in ["", "#", "<", ">"]:
            for mnemonic in [None, "LDA", "LDX"]:
                cases.append({"kind": "value", "text": prefix + text, "mnemonic": mnemonic})
        cases.append({"kind": "value", "text": text, "default_mode_extended": False})
    # ... and through whole programs: as operand, inside expressions, as EQU, in data directives
    for n in numbers:
        for text in [str(n), "-" + str(n)]:
            cases.append({"kind": "prog", "lines": [
                "  ORG $1000", "V EQU {}".format(text), "L LDA #{}".format(text), "  LDX #{}".format(text),
                "  LDA {}".format(text), "  STX {}".format(text), "  LDA <{}".format(text), "  LDA >{}".format(text),
                "  LDA [{}]".format(text), "  LDA {},X".format(text), "  LDA [{},Y]".format(text), "  LEAX {},PCR".format(text),
                "  LDA #V", "  LDX #V", "  LDA V", "  LDA V,X", "  LDD #V+1", "  LDD #1+{}".format(n), "  LDD #{}-1".format(n),
                "  LDD #{}*2".format(n), "  LDD #{}/2".format(n), "  LDD #L+{}".format(n), "  FCB {}".format(text),
                "  FDB {}".format(text), "  FCB 1,{}".format(text), "  FDB 1,{}".format(text), "  RMB {}".format(text),
                "E RTS"]})
            for line in ["  LDA #{}", "  LDX #{}", "  LDA {}", "  LDA <{}", "  LDA >{}", "  LDA [{}]", "  LDA {},X",
                         "  LDA [{},Y]", "  LEAX {},PCR", "V EQU {}|  LDA V|  LDX #V|  LDA V,X", "  FCB {}", "  FDB {}",
                         "  FCB 1,{}", "  FDB 1,{}", "  RMB {}", "  ORG {}", "  LDD #1+{}", "  LDD #L+{}", "  LDD L-{}",
                         "  SETDP {}"]:
                cases.append({"kind": "prog", "lines": ["L NOP"] + line.format(text).split("|") + ["E RTS"]})
    source = "  ORG 3584\nV EQU 255\nW EQU 256\nN EQU -1\n  LDA #V\n  LDX #W\n  LDA V\n  LDA W\n  LDA N,X\n  FDB 65535,-32768\n"
    cases.append({"kind": "cli", "args": ["in.asm", "--print", "--symbols", "--to_bin", "out.bin"], "files": {"in.asm": source}})
    cases.append({"kind": "cli", "args": ["in.asm", "--print"], "files": {"in.asm": "  LDX #65536\n"}})
    cases.append({"kind": "cli", "args": ["in.asm", "--print"], "files": {"in.asm": "  LDX #-32769\n"}})
    return cases


# ---------------------------------------------------------------------------
# Common differential harness: one worker subprocess per tree, same cases.
# ---------------------------------------------------------------------------

WORKER = r'''
import sys, os, json, io, tempfile, subprocess, contextlib
tree = os.path.abspath(sys.argv[1])
sys.path.insert(0, tree)
os.chdir(tree)

from cocoasm.program import Program
from cocoasm.statement import Statement
from cocoasm.instruction import INSTRUCTIONS, CodePackage, Instruction, Mode
from cocoasm.operands import Operand
from cocoasm import operands as operands_module
from cocoasm import values as values_module
from cocoasm.values import Value, NumericValue, AddressValue, NoneValue


def instr(mnemonic):
    if mnemonic is None:
        return None
    return next(op for op in INSTRUCTIONS if op.mnemonic == mnemonic)


def dump(obj, depth=0):
    if depth > 6:
        return "<deep>"
    if obj is None or isinstance(obj, (bool, int, str, float)):
        return obj
    if isinstance(obj, (list, tuple)):
        return [dump(x, depth + 1) for x in obj]
    if isinstance(obj, dict):
        return {str(k): dump(v, depth + 1) for k, v in obj.items()}
    if isinstance(obj, Value):
        out = {"class": type(obj).__name__}
        for name in ("type", "int", "size_hint", "explict_addressing_mode", "negative", "resolved",
                     "original_string", "operation", "hex_array", "original_value"):
            if hasattr(obj, name):
                out[name] = dump(getattr(obj, name), depth + 1)
        for name in ("left", "right", "value"):
            if hasattr(obj, name):
                out[name] = dump(getattr(obj, name), depth + 1)
        for name in ("hex", "hex_len", "byte_len", "is_8_bit", "is_16_bit", "high_byte", "low_byte", "ascii"):
            out[name + "()"] = attempt(getattr(obj, name))
        if hasattr(obj, "is_4_bit"):
            out["is_4_bit()"] = attempt(obj.is_4_bit)
            out["hex(2)"] = attempt(lambda: obj.hex(size=2))
            out["hex(4)"] = attempt(lambda: obj.hex(size=4))
            out["get_negative()"] = attempt(obj.get_negative)
        return out
    if isinstance(obj, CodePackage):
        return {"class": "CodePackage",
                "op_code": dump(obj.op_code, depth + 1), "address": dump(obj.address, depth + 1),
                "post_byte": dump(obj.post_byte, depth + 1), "additional": dump(obj.additional, depth + 1),
                "size": obj.size, "max_size": obj.max_size,
                "additional_needs_resolution": obj.additional_needs_resolution,
                "post_byte_choices": dump(obj.post_byte_choices, depth + 1)}
    if isinstance(obj, Operand):
        return {"class": type(obj).__name__, "type": str(obj.type), "operand_string": obj.operand_string,
                "requires_resolution": obj.requires_resolution, "operation": obj.operation,
                "instruction": obj.instruction.mnemonic if obj.instruction else None,
                "value": dump(obj.value, depth + 1), "left": dump(obj.left, depth + 1),
                "right": dump(obj.right, depth + 1)}
    if isinstance(obj, Statement):
        return {"class": "Statement", "label": obj.label, "mnemonic": obj.mnemonic, "comment": obj.comment,
                "is_empty": obj.is_empty, "is_comment_only": obj.is_comment_only,
                "fixed_size": obj.fixed_size, "pcr_size_hint": obj.pcr_size_hint,
                "instruction": obj.instruction.mnemonic if obj.instruction else None,
                "operand": dump(obj.operand, depth + 1), "original_operand": dump(obj.original_operand, depth + 1),
                "code_pkg": dump(obj.code_pkg, depth + 1),
                "str": attempt(lambda: str(obj))}
    if isinstance(obj, BaseException):
        return describe_error(obj)
    if hasattr(obj, "name") and hasattr(obj, "value") and type(obj).__module__.startswith("cocoasm"):
        return str(obj)
    return repr(obj)


def describe_error(error):
    out = {"exception": type(error).__name__, "str": str(error), "args": dump(list(error.args), 3)}
    if hasattr(error, "value"):
        out["value"] = dump(error.value, 3)
    if hasattr(error, "statement"):
        statement = error.statement
        if isinstance(statement, Statement):
            out["statement"] = attempt(lambda: str(statement))
            out["statement_label"] = statement.label
            out["statement_mnemonic"] = statement.mnemonic
        else:
            out["statement"] = dump(statement, 3)
    return out


def attempt(function):
    try:
        return dump(function(), 3)
    except BaseException as error:
        return {"raised": describe_error(error)}


def run_prog(case):
    program = Program()
    out = {}
    # source lines come from readlines(), so they end in a newline unless the case says otherwise
    lines = case["lines"] if case.get("raw") else [line if line.endswith("\n") else line + "\n" for line in case["lines"]]
    try:
        program.process(lines)
        out["process"] = "ok"
    except BaseException as error:
        out["process"] = describe_error(error)
    out["binary"] = attempt(program.get_binary_array)
    out["listing"] = attempt(program.get_statements)
    out["symbols"] = attempt(program.get_symbol_table)
    out["origin"] = dump(program.origin)
    out["name"] = dump(program.name)
    out["symbol_table"] = attempt(lambda: {k: v for k, v in program.symbol_table.items()})
    if case.get("deep"):
        out["statements"] = attempt(lambda: list(program.statements))
    return out


def run_cli(case):
    tool = case.get("tool", "assembler.py")
    with tempfile.TemporaryDirectory() as work:
        for name, content in case.get("files", {}).items():
            path = os.path.join(work, name)
            if isinstance(content, list):
                with open(path, "wb") as handle:
                    handle.write(bytes(content))
            else:
                with open(path, "w") as handle:
                    handle.write(content)
        env = dict(os.environ)
        env["PYTHONPATH"] = tree
        env["PYTHONDONTWRITEBYTECODE"] = "1"
        env["COLUMNS"] = "80"
        done = subprocess.run([sys.executable, os.path.join(tree, tool)] + case["args"], cwd=work, env=env,
                              capture_output=True, text=True)
        produced = {}
        for name in sorted(os.listdir(work)):
            with open(os.path.join(work, name), "rb") as handle:
                produced[name] = handle.read().hex()
        stderr_lines = done.stderr.strip().splitlines()
        return {"rc": done.returncode, "stdout": done.stdout.replace(tree, "<tree>"),
                "stderr_tail": stderr_lines[-1].replace(tree, "<tree>") if stderr_lines else "",
                "stderr_is_traceback": done.stderr.startswith("Traceback"),
                "files": produced}


def run_operand(case):
    out = {}
    instruction = instr(case["mnemonic"])
    table = {}
    for name, spec in case.get("symbols", {}).items():
        kind, number = spec
        table[name] = AddressValue(number) if kind == "addr" else NumericValue(number)
    try:
        operand = Operand.create_from_str(case["operand"], instruction)
    except BaseException as error:
        return {"create": describe_error(error)}
    out["create"] = dump(operand)
    if case.get("resolve", True):
        try:
            operand = operand.resolve_symbols(table)
            out["resolve"] = dump(operand)
        except BaseException as error:
            out["resolve"] = describe_error(error)
            return out
    try:
        out["translate"] = dump(operand.translate())
        out["after_translate"] = dump(operand)
    except BaseException as error:
        out["translate"] = describe_error(error)
    return out


def run_value(case):
    try:
        value = Value.create_from_str(case["text"], instr(case.get("mnemonic")), case.get("default_mode_extended", True))
    except BaseException as error:
        return {"create": describe_error(error)}
    out = {"create": dump(value)}
    if "symbols" in case:
        table = {}
        for name, spec in case["symbols"].items():
            kind, number = spec
            table[name] = AddressValue(number) if kind == "addr" else NumericValue(number)
        try:
            out["resolve"] = dump(value.resolve(table))
            out["after_resolve"] = dump(value)
        except BaseException as error:
            out["resolve"] = describe_error(error)
    return out


def run_statement(case):
    line = case["line"] if case.get("raw") or case["line"].endswith("\n") else case["line"] + "\n"
    try:
        statement = Statement(line)
    except BaseException as error:
        return {"parse": describe_error(error)}
    return {"parse": dump(statement)}


def run_eval(case):
    scope = dict(globals())
    try:
        exec(case.get("setup", ""), scope)
        return {"result": dump(eval(case["expr"], scope))}
    except BaseException as error:
        return {"raised": describe_error(error)}


RUNNERS = {"prog": run_prog, "cli": run_cli, "operand": run_operand, "value": run_value,
           "statement": run_statement, "eval": run_eval}

cases = json.load(sys.stdin)
results = []
for case in cases:
    captured = io.StringIO()
    with contextlib.redirect_stdout(captured):
        try:
            result = RUNNERS[case["kind"]](case)
        except BaseException as error:
            result = {"harness_error": describe_error(error)}
    results.append({"result": result, "printed": captured.getvalue()})
sys.__stdout__.write(json.dumps(results, sort_keys=True))
'''


def run_tree(tree, cases):
    import json
    import os
    import subprocess
    import sys
    env = dict(os.environ)
    env.pop("PYTHONPATH", None)
    env["PYTHONDONTWRITEBYTECODE"] = "1"
    done = subprocess.run([sys.executable, "-c", WORKER, tree], input=json.dumps(cases), cwd=tree, env=env,
                          capture_output=True, text=True)
    if done.returncode != 0:
        print("worker failed for", tree)
        print(done.stderr)
        sys.exit(1)
    return json.loads(done.stdout)


def main():
    import json
    import os
    import sys
    if len(sys.argv) != 3:
        print("usage: equiv.py <treeA> <treeB>")
        sys.exit(2)
    tree_a, tree_b = (os.path.abspath(p) for p in sys.argv[1:3])
    cases = build_cases()
    results_a = run_tree(tree_a, cases)
    results_b = run_tree(tree_b, cases)
    differences = 0
    errors = 0
    for case, a, b in zip(cases, results_a, results_b):
        text = json.dumps(a, sort_keys=True)
        if '"exception"' in text:
            errors += 1
        if "harness_error" in a["result"] or "harness_error" in b["result"]:
            differences += 1
            print("HARNESS ERROR in case", json.dumps(case)[:200])
            print("  A:", json.dumps(a)[:600])
            print("  B:", json.dumps(b)[:600])
        elif a != b:
            differences += 1
            print("DIFFERENCE in case", json.dumps(case)[:300])
            print("  A:", json.dumps(a, sort_keys=True)[:1500])
            print("  B:", json.dumps(b, sort_keys=True)[:1500])
    print("{} cases ({} involving an error/diagnostic), {} differences".format(len(cases), errors, differences))
    sys.exit(1 if differences or len(results_a) != len(cases) or len(results_b) != len(cases) else 0)


if __name__ == "__main__":
    main()
