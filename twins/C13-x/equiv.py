"""
Differential demonstration for property C13 (assembly always terminates with
output or a source-level diagnostic).

usage: equiv.py <treeA> <treeB>

The probe below is executed once per tree in a separate interpreter, with the
tree at the front of sys.path and a private scratch directory as cwd. Every
case runs under a watchdog. It prints one JSON record per group of cases; the
two transcripts must be identical.
"""
import subprocess
import sys
import tempfile
import os

PROBE = r'''
import sys, os, io, json, hashlib, contextlib, random, signal
tree = os.path.abspath(sys.argv[1])
work = os.path.abspath(sys.argv[2])
sys.path.insert(0, tree)
os.chdir(work)

import cocoasm
assert os.path.abspath(cocoasm.__file__).startswith(tree + os.sep), cocoasm.__file__

from cocoasm.exceptions import ParseError, TranslationError, ValueTypeError, OperandTypeError
from cocoasm.instruction import INSTRUCTIONS
from cocoasm.program import Program
from cocoasm.statement import Statement
from cocoasm.operands import Operand
from cocoasm.values import Value, NumericValue, AddressValue, NoneValue, ExpressionValue, ExplicitAddressingMode
import assembler
assert os.path.abspath(assembler.__file__).startswith(tree + os.sep)

CASES = 0
def emit(label, payload):
    global CASES
    CASES += 1
    print(json.dumps([label, payload], sort_keys=True, default=repr))

class Timeout(BaseException):
    pass

def on_alarm(signum, frame):
    raise Timeout()
signal.signal(signal.SIGALRM, on_alarm)

def failure(error):
    info = [type(error).__name__, str(error)]
    statement = getattr(error, "statement", None)
    if statement is not None:
        try:
            info.append(str(statement))
        except BaseException as nested:
            info.append("unprintable statement: " + type(nested).__name__)
    return info

def attempt(fn, limit=20):
    signal.alarm(limit)
    try:
        return ["ok", fn()]
    except Timeout:
        return ["timeout"]
    except BaseException as error:
        return ["raised"] + failure(error)
    finally:
        signal.alarm(0)

def digest(data):
    return [len(data), hashlib.sha256(bytes(data)).hexdigest()]

def assemble(lines, full=True):
    program = Program()
    program.process([line + "\n" for line in lines])
    image = program.get_binary_array()
    listing = program.get_statements()
    symbols = program.get_symbol_table()
    if full:
        return [image, listing, symbols, program.origin.hex(), program.name]
    return [digest(image), hashlib.sha256("\n".join(listing + symbols).encode()).hexdigest(), program.origin.hex(), program.name]

# ---------------------------------------------------------------- corpus
VALID = {
    "hello": [
        "        NAM HELLO", "        ORG $0E00", "SCREEN  EQU $0400", "START   LDX #SCREEN", "        LDY #TEXT",
        "LOOP    LDA ,Y+", "        BEQ DONE", "        STA ,X+", "        BRA LOOP", "DONE    RTS",
        'TEXT    FCC "HELLO"', "        FCB 0", "        END START",
    ],
    "modes": [
        "        ORG $2000", "VAL     EQU $12", "WORD    EQU $1234", "BEGIN   LDA #VAL", "        LDB <VAL", "        LDD >WORD",
        "        LDX #WORD+1", "        STA WORD", "        STB VAL", "        LDA [WORD]", "        LDA [,X]", "        LDA 5,X",
        "        LDA -5,Y", "        LDA 100,U", "        LDA $1000,S", "        LDA A,X", "        LDA [D,Y]", "        LEAX TAB,PCR",
        "        LDA [TAB,PCR]", "        PSHS A,B,X", "        PULS A,B,X,PC", "        TFR A,B", "        EXG X,Y", "        LBSR BEGIN",
        "        BSR BEGIN", "        JMP BEGIN", "TAB     FDB $1234,5", "        FDB BEGIN", "        FCB 1,2,3", "        RMB 4", "        SETDP $20", "        SWI2",
    ],
    "comments": ["; leading comment", "", "   ", "START NOP ; trailing", "        LDA #1 no semicolon comment", "        RTS", "; end"],
}

def mutations(lines):
    for index, line in enumerate(lines):
        yield "delete-%d" % index, lines[:index] + lines[index + 1:]
        yield "duplicate-%d" % index, lines[:index + 1] + lines[index:]
        fields = line.split()
        for position in range(len(fields)):
            yield "drop-field-%d-%d" % (index, position), lines[:index] + ["        " + " ".join(fields[:position] + fields[position + 1:])] + lines[index + 1:]
        if len(fields) >= 2:
            yield "empty-operand-%d" % index, lines[:index] + [line.rsplit(fields[-1], 1)[0]] + lines[index + 1:]
        for tail in ('"', "'", "/", ",", "[", "]", "#", "+", "-", "$", "<", ">", ",PCR", "++", ";", "*"):
            yield "append-%s-%d" % (tail, index), lines[:index] + [line + tail] + lines[index + 1:]
        yield "unindent-%d" % index, lines[:index] + [line.lstrip()] + lines[index + 1:]
        yield "lower-%d" % index, lines[:index] + [line.lower()] + lines[index + 1:]
        yield "truncate-%d" % index, lines[:index] + [line[:len(line) // 2]] + lines[index + 1:]

# ---------------------------------------------------------------- section A
for name, lines in VALID.items():
    emit("A/valid/" + name, attempt(lambda: assemble(lines)))
    results = []
    for label, mutated in mutations(lines):
        results.append([label, attempt(lambda: assemble(mutated, full=False))])
    emit("A/mutations/" + name, results)

# ---------------------------------------------------------------- section B
random.seed(1313)
ALPHABET = "ABCDXYUSPCR abcdxy0123456789 $#<>[],+-*/'\"%;@.:_()!&=?^\t"
MNEMONICS = [instruction.mnemonic for instruction in INSTRUCTIONS]
def random_line():
    shape = random.random()
    if shape < 0.3:
        return "".join(random.choice(ALPHABET) for _ in range(random.randint(0, 25)))
    label = random.choice(["", "", "L1", "L2", "START", "@A", "9X"])
    mnemonic = random.choice(MNEMONICS + ["FOO", "", "lda"])
    operand = "".join(random.choice(ALPHABET.replace(" ", "").replace("\t", "")) for _ in range(random.randint(0, 8)))
    return "%s %s %s" % (label, mnemonic, operand)
results = []
for _ in range(2500):
    line = random_line()
    results.append([line, attempt(lambda: assemble([line], full=False))])
emit("B/random-lines", results)
results = []
for _ in range(300):
    lines = [random_line() for _ in range(random.randint(2, 8))]
    results.append([lines, attempt(lambda: assemble(lines, full=False))])
emit("B/random-programs", results)

# ---------------------------------------------------------------- section C
# PCR operands and branches at every distance around the 8/16 bit boundaries
def filler(count):
    return ["        RMB %d" % count] if count else []
results = []
for distance in list(range(110, 140)) + list(range(245, 265)) + [0, 1, 2, 3, 32760, 40000]:
    forward = ["        ORG $1000", "        LEAX TARGET,PCR"] + filler(distance) + ["TARGET  NOP"]
    backward = ["        ORG $1000", "TARGET  NOP"] + filler(distance) + ["        LEAX TARGET,PCR"]
    double = ["        ORG $1000", "        LEAX TARGET,PCR", "        LEAY TARGET,PCR"] + filler(distance) + ["TARGET  NOP", "        LDA [TARGET,PCR]"]
    crossed = ["        ORG $1000", "A1      LEAX B1,PCR"] + filler(distance) + ["B1      LEAY A1,PCR"]
    expression = ["        ORG $1000", "        LEAX TARGET+2,PCR"] + filler(distance) + ["TARGET  NOP", "        LEAX TARGET-1,PCR"]
    short_forward = ["        BRA TARGET"] + filler(distance) + ["TARGET  NOP"]
    short_backward = ["TARGET  NOP"] + filler(distance) + ["        BNE TARGET"]
    long_branch = ["        LBRA TARGET"] + filler(distance) + ["TARGET  NOP", "        LBNE TARGET"]
    for label, lines in (("forward", forward), ("backward", backward), ("double", double), ("crossed", crossed),
                         ("expression", expression), ("bra-forward", short_forward), ("bne-backward", short_backward),
                         ("long", long_branch)):
        results.append([label, distance, attempt(lambda: assemble(lines, full=(distance < 4)))])
emit("C/pcr-distances", results)
chain = ["        ORG $1000"] + ["L%d     LEAX L%d,PCR" % (i, (i * 7 + 3) % 60) for i in range(60)]
emit("C/pcr-chain", attempt(lambda: assemble(chain)))
emit("C/pcr-self", attempt(lambda: assemble(["SELF LEAX SELF,PCR", "  LDA [SELF,PCR]", "  LEAX UNKNOWN,PCR"])))
emit("C/pcr-undefined", attempt(lambda: assemble(["  LEAX NOWHERE,PCR"])))

# ---------------------------------------------------------------- section D
# INCLUDE: nesting, cycles, missing files, odd contents
def write(name, lines):
    with open(name, "w") as handle:
        handle.write("\n".join(lines) + "\n")
write("inner.asm", ["INNER   NOP", "        RTS"])
write("middle.asm", ["MIDDLE  NOP", "        INCLUDE inner.asm"])
write("selfish.asm", ["        NOP", "        INCLUDE selfish.asm"])
write("ping.asm", ["        INCLUDE pong.asm"])
write("pong.asm", ["        INCLUDE ping.asm"])
write("broken.asm", ["        FOO 1"])
write("badop.asm", ["        LDA #"])
write("empty.asm", [])
os.mkdir("adir")
INCLUDES = {
    "nested": ["START NOP", "  INCLUDE middle.asm", "  JMP INNER"],
    "twice": ["  INCLUDE inner.asm", "  INCLUDE inner.asm"],
    "self": ["  INCLUDE selfish.asm"],
    "cycle": ["  NOP", "  INCLUDE ping.asm"],
    "missing": ["  INCLUDE nothere.asm"],
    "directory": ["  INCLUDE adir"],
    "broken": ["  INCLUDE broken.asm"],
    "badop": ["  INCLUDE badop.asm"],
    "empty": ["  INCLUDE empty.asm", "  NOP"],
    "no-operand": ["  INCLUDE"],
    "labelled": ["HERE INCLUDE inner.asm", "  JMP HERE"],
}
for name, lines in INCLUDES.items():
    emit("D/include/" + name, attempt(lambda: assemble(lines)))

# ---------------------------------------------------------------- section E
# the command line: exit status, streams and files
def snapshot():
    files = {}
    for name in sorted(os.listdir(".")):
        if os.path.isfile(name):
            with open(name, "rb") as handle:
                files[name] = digest(handle.read())
    return files

def run_cli(argv):
    out, err = io.StringIO(), io.StringIO()
    saved, status = sys.argv, ["returned"]
    sys.argv = ["assembler.py"] + argv
    signal.alarm(30)
    try:
        with contextlib.redirect_stdout(out), contextlib.redirect_stderr(err):
            try:
                assembler.main(assembler.parse_arguments())
            except SystemExit as stop:
                status = ["exit", stop.code]
            except Timeout:
                status = ["timeout"]
            except BaseException as error:
                status = ["raised"] + failure(error)
    finally:
        signal.alarm(0)
        sys.argv = saved
    return [status, out.getvalue(), err.getvalue()]

CLI_PROGRAMS = dict(VALID)
CLI_PROGRAMS.update({
    "bad-mnemonic": ["  NAM X", "  FOO 1"],
    "bad-operand": ["  NAM X", "  LDA #"],
    "redefined": ["A NOP", "A NOP"],
    "undefined": ["  NAM X", "  JMP NOWHERE"],
    "range": ["  NAM X", "  BRA FAR", "  RMB 200", "FAR NOP"],
    "bad-register": ["  NAM X", "  PSHS Q"],
    "divide": ["A EQU 0", "  NAM X", "  LDA #4/A"],
    "unparsable": ["  NAM X", "%%%%"],
    "include-cycle": ["  NAM X", "  INCLUDE ping.asm"],
    "include-missing": ["  NAM X", "  INCLUDE nothere.asm"],
    "unterminated": ["  NAM X", '  FCC "ABC'],
    "pcr": ["  NAM X", "  LEAX T,PCR", "  RMB 126", "T NOP"],
})
os.mkdir("cli")
os.chdir("cli")
for name in ("inner.asm", "ping.asm", "pong.asm"):
    with open(os.path.join("..", name)) as source, open(name, "w") as target:
        target.write(source.read())
with open("kept.bin", "wb") as handle:
    handle.write(b"precious")
for name, lines in CLI_PROGRAMS.items():
    write("prog.asm", lines)
    before = snapshot()
    fresh = "out-%s" % name
    first = run_cli(["prog.asm", "--print", "--symbols", "--to_bin", fresh + ".bin", "--to_cas", fresh + ".cas", "--to_dsk", fresh + ".dsk"])
    second = run_cli(["prog.asm", "--append", "--to_bin", "kept.bin"])
    third = run_cli(["prog.asm", "--to_bin", "kept.bin", "--width", "60"])
    after = snapshot()
    emit("E/cli/" + name, [first, second, third, {k: v for k, v in after.items() if before.get(k) != v},
                           sorted(set(before) - set(after))])
emit("E/cli/missing-source", run_cli(["nothere.asm"]))
emit("E/cli/directory-source", run_cli([".."]))
os.chdir(work)

# ---------------------------------------------------------------- section F
# pieces of the pipeline called directly
def symbol_steps():
    program = Program()
    statements = Program.parse(["A NOP\n", "B EQU $10\n", "  RTS\n", "; note\n", "\n", "A RTS\n", "C EQU B+1\n"])
    log = [len(statements)]
    for index, statement in enumerate(statements):
        log.append(attempt(lambda: program.save_symbol(index, statement)))
        log.append(sorted((k, type(v).__name__, v.int) for k, v in program.symbol_table.items()))
    return log
emit("F/save-symbol", attempt(symbol_steps))

def fixed_flags():
    log = []
    program = Program()
    log.append(program.all_sizes_fixed())
    program.statements = Program.parse(["  NOP\n", "  RTS\n"])
    log.append(program.all_sizes_fixed())
    for flags in ([True, False], [False, True], [False, False], [True, True], [1, "x"], [1, 0], [None, True], [[], True]):
        for statement, flag in zip(program.statements, flags):
            statement.fixed_size = flag
        log.append([repr(flags), repr(program.all_sizes_fixed())])
    return log
emit("F/all-sizes-fixed", attempt(fixed_flags))

def thrown(error):
    out = io.StringIO()
    with contextlib.redirect_stdout(out):
        try:
            assembler.throw_error(error)
            status = "returned"
        except SystemExit as stop:
            status = ["exit", stop.code]
    return [status, out.getvalue()]
emit("F/throw-error", [
    attempt(lambda: thrown(ParseError("message", "  FOO 1\n"))),
    attempt(lambda: thrown(TranslationError("other", Statement("L LDA #1 ; c\n")))),
    attempt(lambda: thrown(TranslationError(None, None))),
    attempt(lambda: thrown(ParseError(12, ["a", 1]))),
    attempt(lambda: thrown(ValueError("no value attribute"))),
])

# ---------------------------------------------------------------- section G
# Value.create_from_str over a wide universe
def show(value):
    out = [type(value).__name__, repr(value.type), value.int, value.negative, value.size_hint, repr(value.explict_addressing_mode),
           value.resolved, value.ascii()]
    for call in (value.hex, value.hex_len):
        signal.alarm(0)
        try:
            out.append(call())
        except BaseException as error:
            out.append(failure(error))
    for name in ("left", "right", "operation"):
        part = getattr(value, name, None)
        out.append(part if isinstance(part, (str, type(None))) else [type(part).__name__, part.int, repr(part.explict_addressing_mode)])
    return out

by_name = {instruction.mnemonic: instruction for instruction in INSTRUCTIONS}
TEXTS = [
    "", "0", "5", "255", "256", "65535", "65536", "-1", "-128", "-129", "-32768", "-32769", "$0", "$7F", "$FF", "$100", "$1234", "$FFFF",
    "$12345", "$G", "$", "%1", "%10101010", "%1010101010101010", "%102", "%", "'A", "''", "'", "'AB", "LABEL", "label", "@L", "L@1", "9LIVES",
    "A", "X", "PCR", "1+2", "$10+$20", "A+B", "L-1", "1-L", "2*3", "8/2", "8/0", "1+", "+1", "1++2", "$$1+1", "1+2+3", "L+$1234",
    "#5", "#$FF", "#$1234", "#L", "#1+2", "#", "##5", "#<5", "<5", "<$12", "<$1234", "<L", "<", "<<5", "<#5", ">5", ">$12", ">$1234", ">L", ">",
    ">>5", "><5", ",X", "5,X", "A,X", "L,PCR", "5,X,Y", ",", ",,", "X,", "1,2", "$12,$34", "[5]", "[,X]", "[L,PCR]", "5 ", " 5", "5;", "5.5",
    '"TEXT"', "/TEXT/", '"', '""', '"A', 'A"', "/A,B/", '"A+B"', "!", "(1)", "1)", "a b", "\t", "\n", "5\n", "€", "٣", "１２",
]
for mnemonic in (None, "LDA", "LDX", "FCC", "FCB", "FDB", "EQU", "BRA", "ORG"):
    instruction = by_name[mnemonic] if mnemonic else None
    for default_extended in (True, False):
        results = []
        for text in TEXTS:
            results.append([text, attempt(lambda: show(Value.create_from_str(text, instruction, default_mode_extended=default_extended)))])
        emit("G/values/%s/%s" % (mnemonic, default_extended), results)
emit("G/values/non-strings", [[repr(item), attempt(lambda: show(Value.create_from_str(item)))] for item in (None, 0, 5, b"", b"5", b"<5", [], 5.0)])

# ---------------------------------------------------------------- section H
# Statement: parsing, symbol resolution, translation and addressing step by step
STATEMENT_LINES = [
    "L LDA #1 ; c", "  LDA L", "  LDA UNDEFINED", "  LDA 1+L", "  LDA 8/ZERO", "  LDA ,X", "  LDA 5,Z", "  STA #1", "  LEAX #1", "  LEAX L,PCR",
    "  PSHS Q", "  TFR A,X", "  NOP 5", "  LDA", "  BRA L", "  BRA 5", "  LBRA UNDEFINED", "  FCB 1,2", "  FCB 300", "  FDB 70000", "  RMB L",
    "  RMB -1", "  ORG $1000", "  ORG L", "  EQU 5", "V EQU 5", "V EQU", "  FCC /X/", "  FCC X", "  FCC", "  END", "  SETDP 1", "  INCLUDE f",
    "  NAM n", "  LDA [L]", "  LDA [5,X]", "  LDA [,X+]", "  LDA A,X", "  LDA E,X", "  LDA L,X", "  JMP [L,PCR]", "  LDA #L", "  LDA <L", "  LDA >L",
    "  LDA #$1234", "  LDX #$12", "; only comment", "", "garbage", "  FOO", "L", "L L L L L",
]
TABLE = {"L": AddressValue(0), "ZERO": NumericValue(0), "V": NumericValue(5)}
def statement_steps(line):
    log = []
    statement = None
    def build():
        nonlocal statement
        statement = Statement(line + "\n")
        return [statement.label, statement.mnemonic, statement.is_empty, statement.is_comment_only, statement.comment,
                type(statement.operand).__name__]
    log.append(attempt(build))
    if statement is None or statement.operand is None:
        return log
    def describe():
        pkg = statement.code_pkg
        return [type(statement.operand).__name__, pkg.op_code.hex(), pkg.post_byte.hex(), pkg.additional.hex(), pkg.size, pkg.max_size,
                pkg.address.hex(), statement.fixed_size, statement.pcr_size_hint, pkg.post_byte_choices, pkg.additional_needs_resolution]
    log.append(attempt(lambda: statement.resolve_symbols(TABLE)))
    log.append(attempt(describe))
    log.append(attempt(statement.translate))
    log.append(attempt(describe))
    log.append(attempt(lambda: statement.set_address(0x1234)))
    log.append(attempt(lambda: statement.set_address(0x2000)))
    log.append(attempt(lambda: statement.set_address(70000)))
    log.append(attempt(describe))
    log.append(attempt(lambda: str(statement)))
    log.append(attempt(statement.get_include_filename))
    return log
for line in STATEMENT_LINES:
    emit("H/statement/" + line, attempt(lambda: statement_steps(line)))

def fresh_addresses():
    log = []
    for address in (0, 1, 255, 256, 65535, 65536, -1, "12", "$12", None, 1.5):
        statement = Statement("  NOP\n")
        log.append([repr(address), attempt(lambda: statement.set_address(address)), statement.code_pkg.address.hex()])
    return log
emit("H/set-address", attempt(fresh_addresses))

print(json.dumps(["cases", CASES]))
'''


def run(tree):
    tree = os.path.abspath(tree)
    with tempfile.TemporaryDirectory() as work:
        completed = subprocess.run(
            [sys.executable, "-c", PROBE, tree, work],
            cwd=work, capture_output=True, text=True, timeout=3000,
        )
    return completed.returncode, completed.stdout, completed.stderr


def count_cases(lines):
    import json
    total = 0
    for line in lines:
        payload = json.loads(line)[1]
        if isinstance(payload, list) and payload and all(isinstance(item, list) for item in payload):
            total += len(payload)
        else:
            total += 1
    return total


def main():
    if len(sys.argv) != 3:
        print(__doc__)
        return 2
    code_a, out_a, err_a = run(sys.argv[1])
    code_b, out_b, err_b = run(sys.argv[2])
    if code_a != 0 or code_b != 0:
        print("probe failed: A={} B={}".format(code_a, code_b))
        print(err_a[-2000:])
        print(err_b[-2000:])
        return 1
    lines_a = out_a.splitlines()
    lines_b = out_b.splitlines()
    differences = 0
    for index in range(max(len(lines_a), len(lines_b))):
        left = lines_a[index] if index < len(lines_a) else "<missing>"
        right = lines_b[index] if index < len(lines_b) else "<missing>"
        if left != right:
            differences += 1
            if differences <= 10:
                position = next((i for i, (a, b) in enumerate(zip(left, right)) if a != b), 0)
                start = max(0, position - 200)
                print("DIFF in {}\n  A: ...{}\n  B: ...{}".format(left[:40], left[start:position + 200], right[start:position + 200]))
    if err_a != err_b:
        differences += 1
        print("stderr differs")
    print("{} records ({} individual cases) compared, {} differing records".format(
        len(lines_a), count_cases(lines_a), differences))
    return 1 if differences else 0


if __name__ == "__main__":
    sys.exit(main())
