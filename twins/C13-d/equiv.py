#!/usr/bin/env python
"""
Differential demonstration: runs the same set of cases against two source trees
(one subprocess per tree, tree first on sys.path) and compares every observable
result.  Usage: equiv.py <treeA> <treeB>; exit status 0 when everything agrees.
"""
import json
import os
import shutil
import subprocess
import sys
import tempfile

HERE = os.path.abspath(__file__)


# ----------------------------------------------------------------- driver side

def norm(obj, depth=0):
    """Turns library objects into plain JSON-able data, without memory addresses."""
    if obj is None or isinstance(obj, (bool, int, float, str)):
        return obj
    if isinstance(obj, (bytes, bytearray)):
        return {"__bytes__": obj.hex()}
    if isinstance(obj, (list, tuple)):
        if len(obj) > 64 and all(isinstance(x, int) and not isinstance(x, bool) for x in obj):
            import hashlib
            return {"__ints__": len(obj), "sha": hashlib.sha256(repr(list(obj)).encode()).hexdigest(),
                    "head": list(obj[:16]), "tail": list(obj[-16:])}
        return [norm(x, depth + 1) for x in obj]
    if isinstance(obj, dict):
        return {str(k): norm(v, depth + 1) for k, v in obj.items()}
    if hasattr(obj, "_asdict") and depth < 6:
        return {"__nt__": type(obj).__name__, "fields": norm(obj._asdict(), depth + 1)}
    import enum
    if isinstance(obj, enum.Enum):
        return "enum:" + str(obj)
    if hasattr(obj, "__dict__") and depth < 6:
        return {"__obj__": type(obj).__name__,
                "attrs": {k: norm(v, depth + 1) for k, v in sorted(vars(obj).items())}}
    return "repr:" + type(obj).__name__


def attempt(fn, *args, **kwargs):
    """Calls fn and records either its normalised result or the exception type and message."""
    try:
        return ["ok", norm(fn(*args, **kwargs))]
    except SystemExit as error:
        return ["exit", repr(error.code)]
    except BaseException as error:  # noqa - we want to see everything
        return ["raised", type(error).__name__, str(error)]


def file_state(path):
    """The observable state of a file: absent, or its bytes."""
    if not os.path.exists(path):
        return None
    with open(path, "rb") as handle:
        data = handle.read()
    import hashlib
    return {"len": len(data), "sha": hashlib.sha256(data).hexdigest(), "head": data[:48].hex()}


def run_cli(tree, script, arguments, cwd):
    """Runs one of the command-line tools of the tree; tracebacks are reduced to their last line."""
    env = dict(os.environ, PYTHONDONTWRITEBYTECODE="1", PYTHONPATH=tree)
    try:
        done = subprocess.run([sys.executable, "-B", os.path.join(tree, script)] + list(arguments),
                              cwd=cwd, env=env, stdout=subprocess.PIPE, stderr=subprocess.PIPE, timeout=20)
    except subprocess.TimeoutExpired:
        return {"status": "timeout"}
    err = done.stderr.decode("utf-8", "replace").replace(tree, "<TREE>")
    if "Traceback (most recent call last)" in err:
        err = "TRACEBACK ... " + err.strip().splitlines()[-1]
    out = done.stdout.decode("utf-8", "replace").replace(tree, "<TREE>")
    return {"status": done.returncode, "stdout": out, "stderr": err}


def write_text(path, text):
    with open(path, "w") as handle:
        handle.write(text)


def write_bytes(path, data):
    with open(path, "wb") as handle:
        handle.write(bytes(data))


# ------------------------------------------------------- shared assembly cases

def assemble(lines):
    """Assembles the lines with the tree's Program and reports everything observable about the outcome."""
    from cocoasm.program import Program
    program = Program()
    try:
        program.process(lines)
    except Exception as error:
        statement = getattr(error, "statement", None)
        return {"raised": type(error).__name__, "message": str(error), "value": repr(getattr(error, "value", None)),
                "statement": attempt(str, statement) if statement is not None else None}
    report = {
        "bytes": attempt(program.get_binary_array),
        "listing": attempt(program.get_statements),
        "symbols": attempt(program.get_symbol_table),
        "origin": attempt(lambda: (type(program.origin).__name__, program.origin.hex(), program.origin.int)),
        "name": program.name,
        "sizes": attempt(lambda: [(s.code_pkg.size, s.code_pkg.max_size, s.fixed_size, s.pcr_size_hint,
                                   type(s.operand).__name__, s.code_pkg.address.hex())
                                  for s in program.statements]),
    }
    return report


FRAME = """VAL5    EQU     5
VAL200  EQU     200
VALW    EQU     $1234
VALN    EQU     -3
        ORG     $2000
BEFORE  NOP
{label:<8}{mnemonic:<8}{operand}
AFTER   NOP
FAR     EQU     $7FFF
"""


def statement_cases(prefix, mnemonics, operands, label=""):
    """One program per mnemonic and operand: the statement framed by labelled NOPs and some EQUs."""
    results = []
    for mnemonic in mnemonics:
        for operand in operands:
            text = FRAME.format(label=label, mnemonic=mnemonic, operand=operand)
            results.append(("{}/{} {}".format(prefix, mnemonic, operand), assemble(text.splitlines(True))))
    return results

# ----------------------------------------------------- shared corpus for C13

import signal


class Timeout(Exception):
    pass


def guarded(function, *args):
    """Runs the function under a watchdog so that a non-terminating assembly is reported, not suffered."""
    def expired(signum, frame):
        raise Timeout()
    previous = signal.signal(signal.SIGALRM, expired)
    signal.setitimer(signal.ITIMER_REAL, 10.0)
    try:
        return function(*args)
    except Timeout:
        return {"timeout": True}
    finally:
        signal.setitimer(signal.ITIMER_REAL, 0)
        signal.signal(signal.SIGALRM, previous)


VALID_PROGRAM = """; demonstration program
        NAM     DEMO
SCREEN  EQU     $0400
COUNT   EQU     32
        ORG     $3000
START   LDX     #SCREEN         ; point at the screen
        LDB     #COUNT
        LDA     #'*
LOOP    STA     ,X+
        DECB
        BNE     LOOP
        LEAY    TABLE,PCR
        LDD     2,Y
        STD     [VECTOR]
        LDA     <$10
        STA     >$0010
        PSHS    A,B,X
        TFR     X,Y
        JSR     SUB
        LBRA    FINISH
SUB     LDA     TABLE+1
        ADDA    #$10
        RTS
TABLE   FCB     1,2,3,4
        FDB     $1234,START
MSG     FCC     "HELLO" greeting
VECTOR  RMB     2
FINISH  PULS    A,B,X,PC
        END     START
"""

ODD_LINES = [
    "", " ", "\t", "\n", ";", "; just a comment", "   ; indented comment", ";;;", "* star comment",
    "LABEL", "LABEL ", "LABEL  NOP", " NOP", "  NOP  ", "NOP", "\tNOP", "LABEL\tLDA\t#1", "LABEL NOP ; c",
    "lower   lda     #1", "        lda     #1", "L@BEL   NOP", "@       NOP", "1LABEL  NOP", "LA-BEL  NOP",
    "        FROB", "        FROB    #1", "X       FROB    1,2  ; comment", "        ", "        LDA", "        LDA     ",
    "        LDA     #", "        LDA     #$", "        LDA     #$GG", "        LDA     #%2", "        LDA     #'",
    "        LDA     1 2", "        LDA     #1 trailing words", "        LDA     #1;tight", "        LDA     #1 ;",
    "        LDA     ,", "        LDA     ,,", "        LDA     ,X,", "        LDA     [", "        LDA     ]",
    "        LDA     []", "        LDA     [,X", "        LDA     ,X]", "        LDA     (1)", "        LDA     {1}",
    "        LDA     #1+", "        LDA     #+1", "        LDA     1+2+3", "        LDA     #1/0", "        LDA     #A/B",
    "        LDA     #UNDEF", "        LDA     UNDEF", "        LDA     UNDEF,X", "        LDA     UNDEF,PCR",
    "        LDA     [UNDEF]", "        LDA     [UNDEF,PCR]", "        BRA     UNDEF", "        LBRA    UNDEF",
    "        BRA", "        BRA     #1", "        BRA     1", "        BRA     $1000", "        BRA     ,X",
    "        BRA     START+1", "        JMP     START+1", "        JMP     START-START", "        LDA     START*2",
    "        LEAX    START,PCR", "        LEAX    START+1,PCR", "        LEAX    1+START,PCR", "        LEAX    ,PCR",
    "        PSHS", "        PSHS    ", "        PSHS    Q", "        PSHS    A,", "        PSHS    S", "        PULU    U",
    "        TFR", "        TFR     A", "        TFR     A,X", "        TFR     A,B,C", "        EXG     Q,R",
    "        FCC", "        FCC     ", "        FCC     \"", "        FCC     \"abc", "        FCC     abc\"",
    "        FCC     \"\"", "        FCC     \"a\"b\"", "        FCC     /a b c/", "        FCC     /a b c", "        FCC     a",
    "        FCB", "        FCB     ,", "        FCB     1,", "        FCB     1,,2", "        FCB     256", "        FCB     1,256",
    "        FCB     X", "        FDB     ,", "        FDB     70000", "        FDB     1,70000", "        RMB", "        RMB     -1",
    "        RMB     X", "        RMB     70000", "        ORG", "        ORG     X", "        ORG     70000", "        ORG     -1",
    "X       EQU", "X       EQU     Y", "X       EQU     X", "        EQU     5", "START   EQU     5", "START   NOP",
    "        INCLUDE", "        INCLUDE nothere.asm", "        INCLUDE .", "        INCLUDE self.asm", "        INCLUDE good.asm",
    "        INCLUDE loop_a.asm", "        NAM", "        NAM     A B", "        END", "        END     UNDEF", "        SETDP",
    "        NOP     #1", "        NOP     X", "        RTS     ; c", "        STA     #1", "        LEAX    #1", "        LEAX    $10",
    "        JMP     #1", "        CLR     #1", "        LDA     <$1234", "        LDA     >$12", "        LDA     <UNDEF",
    "        LDA     70000", "        LDA     #70000", "        LDA     #256", "        LDA     #-129", "        LDD     #-32769",
    "        LDA     70000,X", "        LDA     -70000,X", "        LDA     5,Z", "        LDA     5,PC", "        LDA     A,Z",
    "        LDA     ,X+++", "        LDA     ,---X", "        LDA     5,X+", "        LDA     [,X+]", "        LDA     [5,X++]",
    "\x00", "\x7f", "\xe9", "LABEL\x00 NOP", "        LDA     #\x01", "        FCC     \"\xe9\"", "﻿        NOP",
    "        LDA     #1\r", "        NOP\r\n", "LABEL   NOP\r", "A" * 300, "        LDA     #" + "1" * 300,
    "        FCB     " + ",".join(["1"] * 300), "L" * 40 + " NOP", "        " + "N" * 40,
]


def corpus_programs():
    """Named programs: the valid one, every single-line replacement and deletion, prefixes, and stress cases."""
    valid = VALID_PROGRAM.splitlines(True)
    programs = [("valid", valid), ("empty", []), ("blank", ["\n", "\n"]), ("comment-only", ["; nothing\n"])]
    for index in range(len(valid)):
        programs.append(("delete/{}".format(index), valid[:index] + valid[index + 1:]))
        programs.append(("duplicate/{}".format(index), valid[:index + 1] + valid[index:]))
        programs.append(("prefix/{}".format(index), valid[:index]))
    for index, line in enumerate(ODD_LINES):
        position = 6 + index % 20
        programs.append(("insert/{}/{!r}".format(position, line[:40]), valid[:position] + [line + "\n"] + valid[position:]))
        programs.append(("alone/{!r}".format(line[:40]), [line]))
    # field level mutations of every line of the valid program
    for index, line in enumerate(valid):
        fields = line.split()
        if len(fields) < 2 or line.startswith(";"):
            continue
        body = line.rstrip("\n")
        for name, mutant in (("no-operand", body[:16]), ("no-label", "        " + body[8:]),
                             ("swap", body[:8] + body[16:24].ljust(8) + body[8:16]),
                             ("upper-half", body[:len(body) // 2]), ("tight", "".join(body.split())),
                             ("one-space", " ".join(body.split())), ("quote", body + " \""),
                             ("bracket", body[:16] + "[" + body[16:]), ("hash", body[:16] + "#" + body[16:]),
                             ("comma", body[:16] + "," + body[16:]), ("lt", body[:16] + "<" + body[16:])):
            programs.append(("mutate/{}/{}".format(index, name), valid[:index] + [mutant + "\n"] + valid[index + 1:]))
    # PCR references around the 8/16 bit boundary, forwards and backwards, one and several
    for gap in list(range(118, 133)) + [0, 1, 60, 250, 255, 256, 300]:
        programs.append(("pcr/forward/{}".format(gap),
                         ["        LEAX    TARGET,PCR\n", "        RMB     {}\n".format(gap), "TARGET  RTS\n"]))
        programs.append(("pcr/backward/{}".format(gap),
                         ["TARGET  NOP\n", "        RMB     {}\n".format(gap), "        LEAX    TARGET,PCR\n"]))
        programs.append(("pcr/two/{}".format(gap),
                         ["A1      LEAX    B1,PCR\n", "        LEAY    B1,PCR\n", "        RMB     {}\n".format(gap),
                          "B1      LEAU    A1,PCR\n", "        LDA     [A1,PCR]\n"]))
        programs.append(("pcr/self/{}".format(gap),
                         ["        RMB     {}\n".format(gap), "HERE    LEAX    HERE,PCR\n", "        LDA     HERE+1,PCR\n"]))
        programs.append(("branch/forward/{}".format(gap),
                         ["        BRA     T\n", "        RMB     {}\n".format(gap), "T       RTS\n"]))
        programs.append(("branch/backward/{}".format(gap),
                         ["T       NOP\n", "        RMB     {}\n".format(gap), "        BNE     T\n", "        LBNE    T\n"]))
    return programs


def prepare_includes(work):
    write_text(os.path.join(work, "good.asm"), "INCL    NOP\n        RTS\n")
    write_text(os.path.join(work, "self.asm"), "        NOP\n        INCLUDE self.asm\n")
    write_text(os.path.join(work, "loop_a.asm"), "        INCLUDE loop_b.asm\n")
    write_text(os.path.join(work, "loop_b.asm"), "        INCLUDE loop_a.asm\n")
    write_text(os.path.join(work, "bad_inside.asm"), "        FROB\n")
    write_text(os.path.join(work, "dup_inside.asm"), "INCL    NOP\n")


def cli_diagnostics(tree, work, limit=None):
    """Runs assembler.py on a selection of programs with every output switch and records status, output, files."""
    results = []
    chosen = [item for item in corpus_programs()
              if item[0].split("/")[0] in ("valid", "empty", "alone", "pcr", "branch") or item[0].startswith("mutate/1")]
    chosen = chosen[::3] if limit is None else chosen[::limit]
    folder = os.path.join(work, "clidiag")
    os.makedirs(folder)
    prepare_includes(folder)
    for number, (name, lines) in enumerate(chosen):
        source = "p{}.asm".format(number)
        try:
            write_text(os.path.join(folder, source), "".join(lines))
        except UnicodeEncodeError:
            continue
        targets = ["p{}.bin".format(number), "p{}.cas".format(number), "p{}.dsk".format(number)]
        outcome = run_cli(tree, "assembler.py", [source, "--symbols", "--print", "--to_bin", targets[0],
                                                 "--to_cas", targets[1], "--to_dsk", targets[2]], folder)
        outcome["files"] = {target[-3:]: file_state(os.path.join(folder, target)) for target in targets}
        results.append(("cli/" + name, outcome))
    return results

MINIMUM_CASES = 30


def cases(tree, work):
    from cocoasm.statement import Statement
    prepare_includes(work)
    results = []
    for name, lines in corpus_programs():
        results.append(("program/" + name, guarded(assemble, lines)))

    # single statements: what the parser makes of them and how they print
    def parse(line):
        statement = Statement(line)
        facts = {key: value for key, value in vars(statement).items() if key not in ("code_pkg",)}
        facts["str"] = attempt(str, statement)
        facts["include"] = attempt(statement.get_include_filename)
        return facts
    lines = ODD_LINES + VALID_PROGRAM.splitlines() + VALID_PROGRAM.splitlines(True)
    for index, line in enumerate(lines):
        results.append(("statement/{}/{!r}".format(index, line[:50]), attempt(parse, line)))
    for odd in (None, 5, b"        NOP", ["        NOP"]):
        results.append(("statement/odd/{!r}".format(odd), attempt(parse, odd)))

    # the diagnostic carries the statement: what throw_error would print
    def diagnostic(lines):
        from cocoasm.program import Program
        try:
            Program().process(lines)
        except Exception as error:
            statement = getattr(error, "statement", "<none>")
            return type(error).__name__, repr(getattr(error, "value", None)), "{}".format(str(statement))
        return "assembled"
    for name, lines in corpus_programs()[::2]:
        results.append(("diagnostic/" + name, guarded(lambda: attempt(diagnostic, lines))))

    results.extend(cli_diagnostics(tree, work))
    return results


# ------------------------------------------------------------- comparison side

def driver(tree):
    tree = os.path.abspath(tree)
    sys.path.insert(0, tree)
    sys.dont_write_bytecode = True
    work = tempfile.mkdtemp(prefix="equiv_")
    previous = os.getcwd()
    os.chdir(work)
    try:
        results = cases(tree, work)
    finally:
        os.chdir(previous)
        shutil.rmtree(work, ignore_errors=True)
    text = json.dumps(results, sort_keys=True)
    sys.stdout.write(text.replace(work, "<WORK>").replace(tree, "<TREE>"))


def run_tree(tree):
    env = dict(os.environ, PYTHONDONTWRITEBYTECODE="1")
    env.pop("PYTHONPATH", None)
    done = subprocess.run([sys.executable, "-B", HERE, "--driver", os.path.abspath(tree)],
                          cwd=os.path.abspath(tree), env=env, stdout=subprocess.PIPE, stderr=subprocess.PIPE)
    if done.returncode != 0:
        sys.stderr.write(done.stderr.decode("utf-8", "replace"))
        raise SystemExit("driver failed for {}".format(tree))
    return json.loads(done.stdout.decode("utf-8"))


def main():
    if len(sys.argv) == 3 and sys.argv[1] == "--driver":
        driver(sys.argv[2])
        return 0
    if len(sys.argv) != 3:
        print("usage: equiv.py <treeA> <treeB>")
        return 2
    first, second = run_tree(sys.argv[1]), run_tree(sys.argv[2])
    names = [name for name, _ in first]
    if names != [name for name, _ in second]:
        print("DIFFERENT case lists")
        return 1
    if len(names) < MINIMUM_CASES:
        print("too few cases: {}".format(len(names)))
        return 1
    failures = 0
    for (name, left), (_, right) in zip(first, second):
        if left != right:
            failures += 1
            print("DIFFER {}\n  A: {}\n  B: {}".format(name, json.dumps(left)[:600], json.dumps(right)[:600]))
    print("{} cases compared, {} differ".format(len(names), failures))
    return 1 if failures else 0


if __name__ == "__main__":
    sys.exit(main())
