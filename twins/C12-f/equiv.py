#!/usr/bin/env python
"""
Differential demonstration: runs the same set of cases against two source trees
(one subprocess per tree, tree first on sys.path) and compares every observable
result.  Usage: equiv.py <treeA> <treeB>; exit status 0 when everything agrees.
"""
import json
import os
import shutil
import subprocess
import sys
import tempfile

HERE = os.path.abspath(__file__)


# ----------------------------------------------------------------- driver side

def norm(obj, depth=0):
    """Turns library objects into plain JSON-able data, without memory addresses."""
    if obj is None or isinstance(obj, (bool, int, float, str)):
        return obj
    if isinstance(obj, (bytes, bytearray)):
        return {"__bytes__": obj.hex()}
    if isinstance(obj, (list, tuple)):
        if len(obj) > 64 and all(isinstance(x, int) and not isinstance(x, bool) for x in obj):
            import hashlib
            return {"__ints__": len(obj), "sha": hashlib.sha256(repr(list(obj)).encode()).hexdigest(),
                    "head": list(obj[:16]), "tail": list(obj[-16:])}
        return [norm(x, depth + 1) for x in obj]
    if isinstance(obj, dict):
        return {str(k): norm(v, depth + 1) for k, v in obj.items()}
    if hasattr(obj, "_asdict") and depth < 6:
        return {"__nt__": type(obj).__name__, "fields": norm(obj._asdict(), depth + 1)}
    import enum
    if isinstance(obj, enum.Enum):
        return "enum:" + str(obj)
    if hasattr(obj, "__dict__") and depth < 6:
        return {"__obj__": type(obj).__name__,
                "attrs": {k: norm(v, depth + 1) for k, v in sorted(vars(obj).items())}}
    return "repr:" + type(obj).__name__


def attempt(fn, *args, **kwargs):
    """Calls fn and records either its normalised result or the exception type and message."""
    try:
        return ["ok", norm(fn(*args, **kwargs))]
    except SystemExit as error:
        return ["exit", repr(error.code)]
    except BaseException as error:  # noqa - we want to see everything
        return ["raised", type(error).__name__, str(error)]


def file_state(path):
    """The observable state of a file: absent, or its bytes."""
    if not os.path.exists(path):
        return None
    with open(path, "rb") as handle:
        data = handle.read()
    import hashlib
    return {"len": len(data), "sha": hashlib.sha256(data).hexdigest(), "head": data[:48].hex()}


def run_cli(tree, script, arguments, cwd):
    """Runs one of the command-line tools of the tree; tracebacks are reduced to their last line."""
    env = dict(os.environ, PYTHONDONTWRITEBYTECODE="1", PYTHONPATH=tree)
    done = subprocess.run([sys.executable, "-B", os.path.join(tree, script)] + list(arguments),
                          cwd=cwd, env=env, stdout=subprocess.PIPE, stderr=subprocess.PIPE, timeout=120)
    err = done.stderr.decode("utf-8", "replace").replace(tree, "<TREE>")
    if "Traceback (most recent call last)" in err:
        err = "TRACEBACK ... " + err.strip().splitlines()[-1]
    out = done.stdout.decode("utf-8", "replace").replace(tree, "<TREE>")
    return {"status": done.returncode, "stdout": out, "stderr": err}


def write_text(path, text):
    with open(path, "w") as handle:
        handle.write(text)


def write_bytes(path, data):
    with open(path, "wb") as handle:
        handle.write(bytes(data))


# ------------------------------------------------------- shared assembly cases

def assemble(lines):
    """Assembles the lines with the tree's Program and reports everything observable about the outcome."""
    from cocoasm.program import Program
    program = Program()
    try:
        program.process(lines)
    except Exception as error:
        statement = getattr(error, "statement", None)
        return {"raised": type(error).__name__, "message": str(error), "value": repr(getattr(error, "value", None)),
                "statement": attempt(str, statement) if statement is not None else None}
    report = {
        "bytes": attempt(program.get_binary_array),
        "listing": attempt(program.get_statements),
        "symbols": attempt(program.get_symbol_table),
        "origin": attempt(lambda: (type(program.origin).__name__, program.origin.hex(), program.origin.int)),
        "name": program.name,
        "sizes": attempt(lambda: [(s.code_pkg.size, s.code_pkg.max_size, s.fixed_size, s.pcr_size_hint,
                                   type(s.operand).__name__, s.code_pkg.address.hex())
                                  for s in program.statements]),
    }
    return report


FRAME = """VAL5    EQU     5
VAL200  EQU     200
VALW    EQU     $1234
VALN    EQU     -3
        ORG     $2000
BEFORE  NOP
{label:<8}{mnemonic:<8}{operand}
AFTER   NOP
FAR     EQU     $7FFF
"""


def statement_cases(prefix, mnemonics, operands, label=""):
    """One program per mnemonic and operand: the statement framed by labelled NOPs and some EQUs."""
    results = []
    for mnemonic in mnemonics:
        for operand in operands:
            text = FRAME.format(label=label, mnemonic=mnemonic, operand=operand)
            results.append(("{}/{} {}".format(prefix, mnemonic, operand), assemble(text.splitlines(True))))
    return results

MINIMUM_CASES = 30

NUMBERS = ["0", "1", "15", "16", "17", "127", "128", "129", "255", "256", "257", "4095", "32767", "32768", "65535",
           "65536", "-0", "-1", "-15", "-16", "-17", "-127", "-128", "-129", "-255", "-256", "-32767", "-32768",
           "-32769", "$0", "$F", "$10", "$7F", "$80", "$FF", "$100", "$0FF", "$00FF", "$7FFF", "$8000", "$FFFF",
           "$10000", "%00000000", "%01111111", "%10000000", "%11111111", "%0000000100000000", "%1111111111111111",
           "%1", "%111111111", "'A", "'0", "'$", "''"]

OPERANDS = (
    NUMBERS + ["#" + n for n in NUMBERS] + ["<" + n for n in NUMBERS[::2]] + [">" + n for n in NUMBERS[::2]] +
    [n + ",X" for n in NUMBERS] + [n + ",Y" for n in NUMBERS[::3]] + [n + ",PCR" for n in NUMBERS[::3]] +
    ["[" + n + ",U]" for n in NUMBERS[::2]] + ["[" + n + "]" for n in NUMBERS[::4]] +
    ["VALN,X", "VAL200,S", "VALW,X", "VAL5,X", "VALN", "#VALN", "VAL5-VAL200", "#VAL5-VAL200", "VAL5-VAL200,X",
     "BEFORE-AFTER", "1,2", "1,2,3", ",", "A,B", "X,Y", "D,X", ",X", ",-X", ",X++", "1,,X"]
)

MNEMONICS = ["LDA", "LDB", "LDD", "LDX", "STA", "STD", "CMPA", "CMPX", "ADDD", "LEAX", "LEAY", "JMP", "JSR", "CLR",
             "ANDCC", "ORCC", "CWAI", "BRA", "LBSR", "TFR", "EXG", "PSHS", "PULU", "FCB", "FDB", "RMB", "EQU"]

LISTS = ["1,2", "1,2,3", "1,", ",1", ",", ",,", "", "5", "255,256", "65535,65536", "-1,-128,-129", "$1,$FF,$100",
         "$FFFF,$10000", "%00000001,%1", "'A,'B", "A,B", "1, 2", "1,x", "0,0,0,0,0,0,0,0,0,0,0,0,0,0,0,0,0,0,0,0,0"]

STRINGS = ["\"TEXT\"", "\"\"", "\"", "/a/", "/a", "a/", "'''", "xAx", "\"\x01\x0f\x10\"", "\"é€\"", "\"a\"b\"",
           "AB", "ABA", "A", "", " ", "  ", " x "]


def cases(tree, work):
    from cocoasm import values as v
    results = []

    def describe(value):
        facts = {"class": type(value).__name__, "attrs": vars(value)}
        for label, call in (("hex", value.hex), ("hex2", lambda: value.hex(size=2)), ("hex4", lambda: value.hex(size=4)),
                            ("hex3", lambda: value.hex(size=3)), ("hex_len", value.hex_len),
                            ("byte_len", value.byte_len), ("high", value.high_byte), ("low", value.low_byte),
                            ("str", lambda: str(value)), ("ascii", value.ascii), ("8", value.is_8_bit),
                            ("16", value.is_16_bit), ("neg", value.is_negative)):
            facts[label] = attempt(call)
        if isinstance(value, v.NumericValue):
            facts["4"] = attempt(value.is_4_bit)
            for size in (None, 0, 2, 4, 6):
                facts["get_negative{}".format(size)] = attempt(value.get_negative, size)
        return facts

    modes = list(v.ExplicitAddressingMode)
    integers = [0, 1, 15, 16, 127, 128, 129, 255, 256, 65535, 65536, -1, -16, -17, -128, -129, -32768, -65535, -65536,
                True, 2.5, None]
    for text in NUMBERS + integers + ["", "x", "1 ", "0x10", "+5", "--5", "$-5", "1.0", "$$", "%%", "'AB"]:
        for mode in modes:
            for hint in (None, 2, 4, 0, 6):
                results.append(("numeric/{!r}/{}/{}".format(text, mode.name, hint),
                                attempt(lambda: describe(v.NumericValue(text, size_hint=hint, mode=mode)))))
        results.append(("numeric-default/{!r}".format(text), attempt(lambda: describe(v.NumericValue(text)))))
        results.append(("direct-numeric/{!r}".format(text), attempt(lambda: describe(v.DirectNumericValue(text)))))
        results.append(("extended-numeric/{!r}".format(text),
                        attempt(lambda: describe(v.ExtendedNumericValue(text)))))

    for text in LISTS + [None, 5, ["1", "2"]]:
        results.append(("multibyte/{!r}".format(text), attempt(lambda: describe(v.MultiByteValue(text)))))
        results.append(("multiword/{!r}".format(text), attempt(lambda: describe(v.MultiWordValue(text)))))
    for text in STRINGS + [None, 5, ["a", "b", "a"], ("q",)]:
        results.append(("string/{!r}".format(text), attempt(lambda: describe(v.StringValue(text)))))
    for text in LISTS + ["A,X", ",X", "5,PCR", "a,b,c", "no comma", None, 5, ["a,b"], ("a", "b")]:
        for mode in (v.ExplicitAddressingMode.NONE, v.ExplicitAddressingMode.EXTENDED):
            results.append(("leftright/{!r}/{}".format(text, mode.name),
                            attempt(lambda: describe(v.LeftRightValue(text, mode=mode)))))

    class Flags(object):
        def __init__(self, **flags):
            self.is_string_define = flags.get("string", False)
            self.is_16_bit = flags.get("wide", False)
    for text in OPERANDS + STRINGS + LISTS:
        for name, instruction in (("none", None), ("plain", Flags()), ("wide", Flags(wide=True)),
                                  ("string", Flags(string=True))):
            for extended in (True, False):
                results.append(("create/{!r}/{}/{}".format(text, name, extended),
                                attempt(lambda: describe(v.Value.create_from_str(text, instruction, extended)))))

    results.extend(statement_cases("statement", MNEMONICS, OPERANDS))
    return results


# ------------------------------------------------------------- comparison side

def driver(tree):
    tree = os.path.abspath(tree)
    sys.path.insert(0, tree)
    sys.dont_write_bytecode = True
    work = tempfile.mkdtemp(prefix="equiv_")
    previous = os.getcwd()
    os.chdir(work)
    try:
        results = cases(tree, work)
    finally:
        os.chdir(previous)
        shutil.rmtree(work, ignore_errors=True)
    text = json.dumps(results, sort_keys=True)
    sys.stdout.write(text.replace(work, "<WORK>").replace(tree, "<TREE>"))


def run_tree(tree):
    env = dict(os.environ, PYTHONDONTWRITEBYTECODE="1")
    env.pop("PYTHONPATH", None)
    done = subprocess.run([sys.executable, "-B", HERE, "--driver", os.path.abspath(tree)],
                          cwd=os.path.abspath(tree), env=env, stdout=subprocess.PIPE, stderr=subprocess.PIPE)
    if done.returncode != 0:
        sys.stderr.write(done.stderr.decode("utf-8", "replace"))
        raise SystemExit("driver failed for {}".format(tree))
    return json.loads(done.stdout.decode("utf-8"))


def main():
    if len(sys.argv) == 3 and sys.argv[1] == "--driver":
        driver(sys.argv[2])
        return 0
    if len(sys.argv) != 3:
        print("usage: equiv.py <treeA> <treeB>")
        return 2
    first, second = run_tree(sys.argv[1]), run_tree(sys.argv[2])
    names = [name for name, _ in first]
    if names != [name for name, _ in second]:
        print("DIFFERENT case lists")
        return 1
    if len(names) < MINIMUM_CASES:
        print("too few cases: {}".format(len(names)))
        return 1
    failures = 0
    for (name, left), (_, right) in zip(first, second):
        if left != right:
            failures += 1
            print("DIFFER {}\n  A: {}\n  B: {}".format(name, json.dumps(left)[:600], json.dumps(right)[:600]))
    print("{} cases compared, {} differ".format(len(names), failures))
    return 1 if failures else 0


if __name__ == "__main__":
    sys.exit(main())
