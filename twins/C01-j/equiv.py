#!/usr/bin/env python
"""
Differential demonstration: runs the same inputs through the code of two source
trees (one subprocess per tree, the tree first on sys.path and as cwd) and
compares every observable result.

usage: equiv.py <treeA> <treeB>      exit 0 = all cases agree, 1 = a difference
"""
import json
import os
import subprocess
import sys
import tempfile

WORKER = r'''
import contextlib, io, json, os, subprocess, sys, tempfile

tree = os.path.abspath(sys.argv[1])
sys.path.insert(0, tree)
os.chdir(tree)
cases = json.load(sys.stdin)

from cocoasm.program import Program


def describe_exc(error):
    info = {"type": type(error).__name__, "str": str(error)}
    if hasattr(error, "value"):
        info["value"] = str(error.value)
    statement = getattr(error, "statement", None)
    if statement is not None:
        try:
            info["statement"] = str(statement)
        except Exception as inner:
            info["statement"] = "unprintable " + type(inner).__name__
    return info


def guarded(function):
    try:
        return function()
    except Exception as error:
        return {"error": describe_exc(error)}


def observe_program(lines):
    program = Program()
    try:
        program.process(lines)
    except Exception as error:
        return {"error": describe_exc(error)}
    return {
        "binary": guarded(program.get_binary_array),
        "listing": guarded(program.get_statements),
        "symbols": guarded(program.get_symbol_table),
        "origin": guarded(lambda: program.origin.hex()),
        "name": program.name,
        "detail": guarded(lambda: [
            [s.code_pkg.size, s.code_pkg.max_size, s.fixed_size, s.pcr_size_hint,
             type(s.operand).__name__, list(s.code_pkg.post_byte_choices),
             s.code_pkg.additional_needs_resolution, s.code_pkg.op_code.hex(),
             s.code_pkg.post_byte.hex(), s.code_pkg.additional.hex(), s.code_pkg.address.hex()]
            for s in program.statements]),
    }


def observe_call(code):
    namespace = {}
    try:
        exec(code, namespace)
        return {"result": namespace.get("result")}
    except Exception as error:
        return {"error": describe_exc(error)}


def observe_cli(lines, args, tool="assembler.py", extra_files=None):
    with tempfile.TemporaryDirectory() as work:
        with open(os.path.join(work, "prog.asm"), "w") as handle:
            handle.writelines(lines)
        for name, text in (extra_files or {}).items():
            with open(os.path.join(work, name), "w") as handle:
                handle.write(text)
        before = set(os.listdir(work))
        done = subprocess.run(
            [sys.executable, os.path.join(tree, tool)] + args,
            cwd=work, capture_output=True, text=True,
            env=dict(os.environ, PYTHONPATH=tree, PYTHONDONTWRITEBYTECODE="1"),
        )
        files = {}
        for name in sorted(set(os.listdir(work)) - before):
            with open(os.path.join(work, name), "rb") as handle:
                files[name] = handle.read().hex()
        stderr_tail = done.stderr.strip().splitlines()[-1:] if done.stderr.strip() else []
        return {"code": done.returncode, "stdout": done.stdout, "stderr_tail": stderr_tail, "files": files}


results = []
for case in cases:
    kind = case["kind"]
    if kind == "program":
        results.append(observe_program(case["lines"]))
    elif kind == "call":
        results.append(observe_call(case["code"]))
    elif kind == "cli":
        results.append(observe_cli(case["lines"], case["args"], case.get("tool", "assembler.py"),
                                   case.get("extra_files")))
    else:
        raise SystemExit("unknown case kind " + kind)
json.dump(results, sys.stdout)
'''


def prog(*lines):
    """A program case; every line gets its newline like a line read from a file."""
    return {"kind": "program", "lines": [line + "\n" for line in lines]}


def call(code):
    """A direct library call; the snippet leaves a JSON-friendly value in `result`."""
    return {"kind": "call", "code": code}


def cli(lines, args=("prog.asm", "--print", "--symbols", "--to_bin", "out.bin"), extra_files=None):
    return {"kind": "cli", "lines": [line + "\n" for line in lines], "args": list(args),
            "extra_files": extra_files}


def run_tree(tree, cases):
    with tempfile.TemporaryDirectory() as work:
        worker = os.path.join(work, "worker.py")
        with open(worker, "w") as handle:
            handle.write(WORKER)
        done = subprocess.run(
            [sys.executable, worker, tree], input=json.dumps(cases), capture_output=True, text=True,
            cwd=tree, env=dict(os.environ, PYTHONDONTWRITEBYTECODE="1"),
        )
    if done.returncode != 0:
        print("worker failed for", tree)
        print(done.stderr)
        sys.exit(1)
    return json.loads(done.stdout)


def main(cases):
    if len(sys.argv) != 3:
        print(__doc__)
        sys.exit(2)
    tree_a, tree_b = (os.path.abspath(p) for p in sys.argv[1:3])
    results_a = run_tree(tree_a, cases)
    results_b = run_tree(tree_b, cases)
    differences = 0
    accepted = 0
    for number, (case, a, b) in enumerate(zip(cases, results_a, results_b)):
        if "error" not in a:
            accepted += 1
        if a != b:
            differences += 1
            print("DIFFERENCE in case", number, json.dumps(case)[:300])
            print("   A:", json.dumps(a)[:600])
            print("   B:", json.dumps(b)[:600])
    print("{} cases, {} without error in tree A, {} differences".format(len(cases), accepted, differences))
    sys.exit(1 if differences or len(results_a) != len(cases) or len(results_b) != len(cases) else 0)


# ---------------------------------------------------------------------------
# cases
# ---------------------------------------------------------------------------
CASES = []

MNEMONICS = ["LDA", "LDX", "LDY", "LEAX", "STD", "JMP", "CMPS", "JSR"]
NUMBERS = ["0", "1", "15", "16", "-16", "-17", "127", "128", "-128", "-129", "255", "256", "$10", "$7F", "$80",
           "$FF", "$0010", "$1234", "%00001111", "%0000000100000000", "32767", "65535", "-32768", "'A"]

# n,PCR and [n,PCR] with a plain number: every spelling and width class
for position, number in enumerate(NUMBERS):
    mnemonic = MNEMONICS[position % len(MNEMONICS)]
    CASES.append(prog("      ORG $3000", "START {} {},PCR".format(mnemonic, number), "      RTS ",
                      "      {} [{},PCR]".format(mnemonic, number), "      END START"))

# label,PCR / [label,PCR] forward and backward around the 8/16 bit limits
for gap in (0, 1, 100, 120, 121, 122, 123, 124, 125, 126, 127, 128, 129, 130, 200, 300):
    for mnemonic in ("LEAX", "LDY"):
        CASES.append(prog("      ORG $1000", "      {} AHEAD,PCR".format(mnemonic), "      RMB {}".format(gap),
                          "AHEAD NOP ", "      {} [AHEAD,PCR]".format(mnemonic), "      END"))
        CASES.append(prog("      ORG $1000", "BACK  NOP ", "      RMB {}".format(gap),
                          "      {} BACK,PCR".format(mnemonic), "      {} [BACK,PCR]".format(mnemonic)))

# several open PCR statements whose sizes depend on each other, expressions and EQU symbols
CASES.append(prog("A     LDA B,PCR", "      LDX C,PCR", "      RMB 118", "B     LDA A,PCR", "      RMB 3",
                  "C     LEAY [A,PCR]", "      FCB 1,2,3"))
CASES.append(prog("LA    LDA LB,PCR", "      LDX LC,PCR", "      RMB 118", "LB    LDA LA,PCR", "      RMB 3",
                  "LC    LEAY [LA,PCR]", "      LDU [LC,PCR]", "      FCB 1,2,3"))
CASES.append(prog("      ORG $E00", "TABLE FDB 1,2", "      LDX TABLE+2,PCR", "      LDU [TABLE+1,PCR]",
                  "      LDD TABLE-1,PCR", "      LEAS LATER+3,PCR", "      RMB 200", "LATER NOP "))
CASES.append(prog("FIVE  EQU 5", "BIG   EQU $1234", "      LDA FIVE,PCR", "      LDA BIG,PCR", "      LDA [FIVE,PCR]",
                  "      LDA [BIG,PCR]", "      LDA FIVE+1,PCR", "      LDA BIG+FIVE,PCR"))

# neighbouring indexed forms that go through the same translate() methods
CASES.append(prog("      LDA ,X", "      LDA 5,Y", "      LDA -5,U", "      LDA 100,S", "      LDA 1000,X", "      LDA A,X",
                  "      LDA [D,Y]", "      LDA ,X++", "      LDA [,--Y]", "      LDA [$1234]", "      LDA [200,U]",
                  "      LDA [-200,U]", "      LDA [5,X]"))

# errors
CASES.append(prog("      LDA 5,PCR+"))
CASES.append(prog("      LDA [5,PCR+]"))
CASES.append(prog("      LDA 5,-PCR"))
CASES.append(prog("      RTS 5,PCR"))
CASES.append(prog("      LDA NOWHERE,PCR"))
CASES.append(prog("      LDA [NOWHERE,PCR]"))
CASES.append(prog("      LDA 70000,PCR"))
CASES.append(prog("X     EQU 1", "X     LDA X,PCR"))
CASES.append(prog("      BRA 5,PCR"))

# the command line front end
CASES.append(cli(["      NAM PCR", "      ORG $2000", "BEGIN LEAX DATA,PCR", "      LDA [DATA,PCR]", "      LDB 3,PCR",
                  "      LDB $300,PCR", "      RMB 130", "DATA  FCB 1", "      END BEGIN"]))
CASES.append(cli(["      LDA 5,PCR+"]))

# the operand objects directly
CASES.append(call('''
from cocoasm.operands import IndexedOperand, ExtendedIndexedOperand
from cocoasm.statement import Statement
result = []
for text in ["3,PCR", "$300,PCR", "-3,PCR", "[3,PCR]", "[$300,PCR]", "[-300,PCR]"]:
    statement = Statement("    LDA " + text + "\\n")
    statement.resolve_symbols({})
    package = statement.operand.translate()
    result.append([text, package.op_code.hex(), package.post_byte.hex(), package.additional.hex(), package.size,
                   package.max_size, package.post_byte_choices, package.additional_needs_resolution])
'''))

main(CASES)
