#!/usr/bin/env python
"""
Differential demonstration: runs the same inputs through the code of two source
trees (one subprocess per tree, the tree first on sys.path and as cwd) and
compares every observable result.

usage: equiv.py <treeA> <treeB>      exit 0 = all cases agree, 1 = a difference
"""
import json
import os
import subprocess
import sys
import tempfile

WORKER = r'''
import contextlib, io, json, os, subprocess, sys, tempfile

tree = os.path.abspath(sys.argv[1])
sys.path.insert(0, tree)
os.chdir(tree)
cases = json.load(sys.stdin)

from cocoasm.program import Program


def describe_exc(error):
    info = {"type": type(error).__name__, "str": str(error)}
    if hasattr(error, "value"):
        info["value"] = str(error.value)
    statement = getattr(error, "statement", None)
    if statement is not None:
        try:
            info["statement"] = str(statement)
        except Exception as inner:
            info["statement"] = "unprintable " + type(inner).__name__
    return info


def guarded(function):
    try:
        return function()
    except Exception as error:
        return {"error": describe_exc(error)}


def observe_program(lines):
    program = Program()
    try:
        program.process(lines)
    except Exception as error:
        return {"error": describe_exc(error)}
    return {
        "binary": guarded(program.get_binary_array),
        "listing": guarded(program.get_statements),
        "symbols": guarded(program.get_symbol_table),
        "origin": guarded(lambda: program.origin.hex()),
        "name": program.name,
        "detail": guarded(lambda: [
            [s.code_pkg.size, s.code_pkg.max_size, s.fixed_size, s.pcr_size_hint,
             type(s.operand).__name__, list(s.code_pkg.post_byte_choices),
             s.code_pkg.additional_needs_resolution, s.code_pkg.op_code.hex(),
             s.code_pkg.post_byte.hex(), s.code_pkg.additional.hex(), s.code_pkg.address.hex()]
            for s in program.statements]),
    }


def observe_call(code):
    namespace = {}
    try:
        exec(code, namespace)
        return {"result": namespace.get("result")}
    except Exception as error:
        return {"error": describe_exc(error)}


def observe_cli(lines, args, tool="assembler.py", extra_files=None):
    with tempfile.TemporaryDirectory() as work:
        with open(os.path.join(work, "prog.asm"), "w") as handle:
            handle.writelines(lines)
        for name, text in (extra_files or {}).items():
            with open(os.path.join(work, name), "w") as handle:
                handle.write(text)
        before = set(os.listdir(work))
        done = subprocess.run(
            [sys.executable, os.path.join(tree, tool)] + args,
            cwd=work, capture_output=True, text=True,
            env=dict(os.environ, PYTHONPATH=tree, PYTHONDONTWRITEBYTECODE="1"),
        )
        files = {}
        for name in sorted(set(os.listdir(work)) - before):
            with open(os.path.join(work, name), "rb") as handle:
                files[name] = handle.read().hex()
        stderr_tail = done.stderr.strip().splitlines()[-1:] if done.stderr.strip() else []
        return {"code": done.returncode, "stdout": done.stdout, "stderr_tail": stderr_tail, "files": files}


results = []
for case in cases:
    kind = case["kind"]
    if kind == "program":
        results.append(observe_program(case["lines"]))
    elif kind == "call":
        results.append(observe_call(case["code"]))
    elif kind == "cli":
        results.append(observe_cli(case["lines"], case["args"], case.get("tool", "assembler.py"),
                                   case.get("extra_files")))
    else:
        raise SystemExit("unknown case kind " + kind)
json.dump(results, sys.stdout)
'''


def prog(*lines):
    """A program case; every line gets its newline like a line read from a file."""
    return {"kind": "program", "lines": [line + "\n" for line in lines]}


def call(code):
    """A direct library call; the snippet leaves a JSON-friendly value in `result`."""
    return {"kind": "call", "code": code}


def cli(lines, args=("prog.asm", "--print", "--symbols", "--to_bin", "out.bin"), extra_files=None):
    return {"kind": "cli", "lines": [line + "\n" for line in lines], "args": list(args),
            "extra_files": extra_files}


def run_tree(tree, cases):
    with tempfile.TemporaryDirectory() as work:
        worker = os.path.join(work, "worker.py")
        with open(worker, "w") as handle:
            handle.write(WORKER)
        done = subprocess.run(
            [sys.executable, worker, tree], input=json.dumps(cases), capture_output=True, text=True,
            cwd=tree, env=dict(os.environ, PYTHONDONTWRITEBYTECODE="1"),
        )
    if done.returncode != 0:
        print("worker failed for", tree)
        print(done.stderr)
        sys.exit(1)
    return json.loads(done.stdout)


def main(cases):
    if len(sys.argv) != 3:
        print(__doc__)
        sys.exit(2)
    tree_a, tree_b = (os.path.abspath(p) for p in sys.argv[1:3])
    results_a = run_tree(tree_a, cases)
    results_b = run_tree(tree_b, cases)
    differences = 0
    accepted = 0
    for number, (case, a, b) in enumerate(zip(cases, results_a, results_b)):
        if "error" not in a:
            accepted += 1
        if a != b:
            differences += 1
            print("DIFFERENCE in case", number, json.dumps(case)[:300])
            print("   A:", json.dumps(a)[:600])
            print("   B:", json.dumps(b)[:600])
    print("{} cases, {} without error in tree A, {} differences".format(len(cases), accepted, differences))
    sys.exit(1 if differences or len(results_a) != len(cases) or len(results_b) != len(cases) else 0)


# ---------------------------------------------------------------------------
# cases
# ---------------------------------------------------------------------------
CASES = []

SHORT = ["BRA", "BRN", "BHI", "BLS", "BCC", "BHS", "BCS", "BLO", "BNE", "BEQ", "BVC", "BVS", "BPL", "BMI", "BGE",
         "BLT", "BGT", "BLE", "BSR"]
LONG = ["LBRA", "LBRN", "LBHI", "LBLS", "LBCC", "LBHS", "LBCS", "LBLO", "LBNE", "LBEQ", "LBVC", "LBVS", "LBPL",
        "LBMI", "LBGE", "LBLT", "LBGT", "LBLE", "LBSR"]

# every branch mnemonic once forward and once backward, in one program each
for position, (short, long) in enumerate(zip(SHORT, LONG)):
    CASES.append(prog("      ORG $4000", "TOP   NOP ", "      {} TOP".format(short), "      {} END".format(long),
                      "      RMB {}".format(position * 6), "      {} TOP".format(long), "      {} END".format(short),
                      "      LDA #1", "END   RTS "))

# distances around the short branch limits, forward and backward
for gap in (0, 1, 2, 120, 123, 124, 125, 126, 127, 128, 129, 130, 131, 255, 256):
    CASES.append(prog("      ORG $100", "      BNE AHEAD", "      RMB {}".format(gap), "AHEAD CLRA "))
    CASES.append(prog("      ORG $100", "BACK  CLRA ", "      RMB {}".format(gap), "      BEQ BACK"))
    CASES.append(prog("BACK  LBSR AHEAD", "      RMB {}".format(gap), "      LBRA BACK", "      RMB {}".format(gap),
                      "AHEAD LBRA AHEAD"))

# long distances (16 bit wrap) and a displacement that no longer fits
for gap in (32000, 32767, 32768, 40000, 65530):
    CASES.append(prog("BACK  NOP ", "      LBRA AHEAD", "      RMB {}".format(gap), "AHEAD LBRA BACK", "      BRA AHEAD"))
CASES.append(prog("BACK  NOP ", "      RMB 65535", "      RMB 10", "      LBRA BACK"))
CASES.append(prog("      LBRA AHEAD", "      RMB 65535", "      RMB 65535", "AHEAD NOP "))

# targets that are not labels, branches to themselves, missing and duplicate labels
CASES.append(prog("      NOP ", "      BRA $10", "      LBRA 5", "SELF  BRA SELF", "LSELF LBRA LSELF"))
CASES.append(prog("FIVE  EQU 5", "      NOP ", "      BRA FIVE", "      LBRA FIVE"))
CASES.append(prog("      BRA NOWHERE"))
CASES.append(prog("      LBRA NOWHERE"))
CASES.append(prog("A     BRA A", "A     BRA A"))
CASES.append(prog("      BRA "))
CASES.append(prog("A     NOP ", "      BRA A+1"))
CASES.append(prog("A     NOP ", "      BRA <A"))
CASES.append(prog("A     NOP ", "      BRA #A"))

# branches across statements whose size is settled late (PCR) and other fix_addresses arms
CASES.append(prog("      ORG $2000", "LOOP  LDA TABLE,PCR", "      LEAX [TABLE,PCR]", "      BNE LOOP", "      JMP LOOP",
                  "      JSR TABLE+1", "      LDD #TABLE", "      BRA OUT", "      RMB 119", "TABLE FCB 1,2", "OUT   RTS "))

CASES.append(cli(["      NAM BRANCH", "      ORG $3F00", "START BSR SUB", "      BRA START", "      LBRA START",
                  "SUB   RTS ", "      END START"]))
CASES.append(cli(["A     NOP ", "      RMB 200", "      BRA A"]))

main(CASES)
