#!/usr/bin/env python
"""
Differential demonstration: runs the same inputs through the code of two source
trees (one subprocess per tree, the tree first on sys.path and as cwd) and
compares every observable result.

usage: equiv.py <treeA> <treeB>      exit 0 = all cases agree, 1 = a difference
"""
import json
import os
import subprocess
import sys
import tempfile

WORKER = r'''
import contextlib, io, json, os, subprocess, sys, tempfile

tree = os.path.abspath(sys.argv[1])
sys.path.insert(0, tree)
os.chdir(tree)
cases = json.load(sys.stdin)

from cocoasm.program import Program


def describe_exc(error):
    info = {"type": type(error).__name__, "str": str(error)}
    if hasattr(error, "value"):
        info["value"] = str(error.value)
    statement = getattr(error, "statement", None)
    if statement is not None:
        try:
            info["statement"] = str(statement)
        except Exception as inner:
            info["statement"] = "unprintable " + type(inner).__name__
    return info


def guarded(function):
    try:
        return function()
    except Exception as error:
        return {"error": describe_exc(error)}


def observe_program(lines):
    program = Program()
    try:
        program.process(lines)
    except Exception as error:
        return {"error": describe_exc(error)}
    return {
        "binary": guarded(program.get_binary_array),
        "listing": guarded(program.get_statements),
        "symbols": guarded(program.get_symbol_table),
        "origin": guarded(lambda: program.origin.hex()),
        "name": program.name,
        "detail": guarded(lambda: [
            [s.code_pkg.size, s.code_pkg.max_size, s.fixed_size, s.pcr_size_hint,
             type(s.operand).__name__, list(s.code_pkg.post_byte_choices),
             s.code_pkg.additional_needs_resolution, s.code_pkg.op_code.hex(),
             s.code_pkg.post_byte.hex(), s.code_pkg.additional.hex(), s.code_pkg.address.hex()]
            for s in program.statements]),
    }


def observe_call(code):
    namespace = {}
    try:
        exec(code, namespace)
        return {"result": namespace.get("result")}
    except Exception as error:
        return {"error": describe_exc(error)}


def observe_cli(lines, args, tool="assembler.py", extra_files=None):
    with tempfile.TemporaryDirectory() as work:
        with open(os.path.join(work, "prog.asm"), "w") as handle:
            handle.writelines(lines)
        for name, text in (extra_files or {}).items():
            with open(os.path.join(work, name), "w") as handle:
                handle.write(text)
        before = set(os.listdir(work))
        done = subprocess.run(
            [sys.executable, os.path.join(tree, tool)] + args,
            cwd=work, capture_output=True, text=True,
            env=dict(os.environ, PYTHONPATH=tree, PYTHONDONTWRITEBYTECODE="1"),
        )
        files = {}
        for name in sorted(set(os.listdir(work)) - before):
            with open(os.path.join(work, name), "rb") as handle:
                files[name] = handle.read().hex()
        stderr_tail = done.stderr.strip().splitlines()[-1:] if done.stderr.strip() else []
        return {"code": done.returncode, "stdout": done.stdout, "stderr_tail": stderr_tail, "files": files}


results = []
for case in cases:
    kind = case["kind"]
    if kind == "program":
        results.append(observe_program(case["lines"]))
    elif kind == "call":
        results.append(observe_call(case["code"]))
    elif kind == "cli":
        results.append(observe_cli(case["lines"], case["args"], case.get("tool", "assembler.py"),
                                   case.get("extra_files")))
    else:
        raise SystemExit("unknown case kind " + kind)
json.dump(results, sys.stdout)
'''


def prog(*lines):
    """A program case; every line gets its newline like a line read from a file."""
    return {"kind": "program", "lines": [line + "\n" for line in lines]}


def call(code):
    """A direct library call; the snippet leaves a JSON-friendly value in `result`."""
    return {"kind": "call", "code": code}


def cli(lines, args=("prog.asm", "--print", "--symbols", "--to_bin", "out.bin"), extra_files=None):
    return {"kind": "cli", "lines": [line + "\n" for line in lines], "args": list(args),
            "extra_files": extra_files}


def run_tree(tree, cases):
    with tempfile.TemporaryDirectory() as work:
        worker = os.path.join(work, "worker.py")
        with open(worker, "w") as handle:
            handle.write(WORKER)
        done = subprocess.run(
            [sys.executable, worker, tree], input=json.dumps(cases), capture_output=True, text=True,
            cwd=tree, env=dict(os.environ, PYTHONDONTWRITEBYTECODE="1"),
        )
    if done.returncode != 0:
        print("worker failed for", tree)
        print(done.stderr)
        sys.exit(1)
    return json.loads(done.stdout)


def main(cases):
    if len(sys.argv) != 3:
        print(__doc__)
        sys.exit(2)
    tree_a, tree_b = (os.path.abspath(p) for p in sys.argv[1:3])
    results_a = run_tree(tree_a, cases)
    results_b = run_tree(tree_b, cases)
    differences = 0
    accepted = 0
    for number, (case, a, b) in enumerate(zip(cases, results_a, results_b)):
        if "error" not in a:
            accepted += 1
        if a != b:
            differences += 1
            print("DIFFERENCE in case", number, json.dumps(case)[:300])
            print("   A:", json.dumps(a)[:600])
            print("   B:", json.dumps(b)[:600])
    print("{} cases, {} without error in tree A, {} differences".format(len(cases), accepted, differences))
    sys.exit(1 if differences or len(results_a) != len(cases) or len(results_b) != len(cases) else 0)


# ---------------------------------------------------------------------------
# cases
# ---------------------------------------------------------------------------
CASES = []

CASES.append(call('''
from cocoasm.values import NumericValue, Value, MultiByteValue, MultiWordValue, ExplicitAddressingMode
result = []
texts = ["%" + "1" * n for n in range(0, 19)] + ["%" + "01" * 4, "%" + "10" * 8, "%00000000", "%0000000000000000", "%2", "%0000000A",
         "% 0000001", "%00000001 ", "%00000001\\n"]
texts += ["$" + "F" * n for n in range(0, 7)] + ["$0", "$00", "$000", "$0000", "$00000", "$a", "$Ab", "$aBc", "$abcd", "$7f", "$80", "$G",
          "$1G", "$ 1", "$1 ", "$12\\n", "$-1", "-$1", "$", "%", "$%1", "%$1", "'$", "'%", "12", "-12", "1F", "0x1F", "FF", "$\\u0663"]
for text in texts:
    for hint in (None, 0, 2, 4):
        for mode in ExplicitAddressingMode:
            try:
                value = NumericValue(text, size_hint=hint, mode=mode)
                result.append([text, hint, mode.name, value.int, value.negative, value.size_hint, value.explict_addressing_mode.name,
                               value.hex(), value.hex_len(), value.hex(2), value.hex(4), value.byte_len(), value.ascii()])
            except Exception as error:
                result.append([text, hint, mode.name, type(error).__name__, str(error)])
    for build in (lambda t: Value.create_from_str(t), lambda t: Value.create_from_str("#" + t), lambda t: Value.create_from_str("<" + t),
                  lambda t: Value.create_from_str(">" + t), lambda t: Value.create_from_str(t, default_mode_extended=False),
                  lambda t: MultiByteValue(t + ",1," + t), lambda t: MultiWordValue("1," + t)):
        try:
            value = build(text)
            result.append([text, type(value).__name__, value.int, value.size_hint, value.explict_addressing_mode.name, value.hex(),
                           value.hex_len(), value.byte_len()])
        except Exception as error:
            result.append([text, type(error).__name__, str(error)])
'''))

LITERALS = ["%00000001", "%11111111", "%0000000100000001", "%1111111111111111", "%1", "%0000001", "%000000001", "%00000002", "$0", "$1",
            "$F", "$10", "$FF", "$100", "$0FF", "$00FF", "$FFFF", "$10000", "$ff", "$Ff", "$G1", "$", "%", "'$", "'%", "255", "256", "-1",
            "-128", "-129", "65535", "65536"]
FORMS = ["FCB {}", "FDB {}", "FCB {},{}", "FDB {},{}", "FCB 1,{},3", "FDB $1234,{}", "RMB {}", "ORG {}", "NEW   EQU {}", "SETDP {}",
         "LDA #{}", "LDX #{}", "LDA {}", "STA {},X"]
for form in FORMS:
    for literal in LITERALS:
        line = form.format(literal, literal)
        line = line if line.startswith("NEW") else "      " + line
        CASES.append(prog("      ORG $0400", "BEGIN NOP ", line, "AFTER RTS ", "      FDB AFTER"))

# long lists mixing every spelling
CASES.append(prog("      FCB " + ",".join(LITERALS[:4] + ["$7", "$07", "'A", "7", "-7"] * 12)))
CASES.append(prog("      FDB " + ",".join(["%0000000100000001", "$7", "$07", "$007", "$0007", "'A", "7", "-7", "%00000111"] * 7)))

CASES.append(cli(["      NAM DATA", "      ORG $0E00", "TABLE FCB %00001111,$F,$0F,15,'O,-1", "WORDS FDB %0000111100001111,$F,$0F0F,15,-1",
                  "ONE   FCB $AB", "TWO   FDB $AB", "GAP   RMB $10", "MASK  EQU %11110000", "      LDA #MASK", "      END TABLE"]))
CASES.append(cli(["      FCB %101"]))
CASES.append(cli(["      FDB $12345"]))

main(CASES)
