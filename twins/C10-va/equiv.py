#!/venv/bin/python
"""
Differential check for the refactoring of CassetteFile.read_file / read_blocks.

usage: equiv.py <treeA> <treeB>

For each tree a child process (tree first on sys.path) runs
  * library cases: read_file / read_blocks / list_files on well formed cassette
    buffers, on every truncation of one, and on corrupted ones;
  * command line cases: file_util.py and assembler.py writing to targets that
    already exist with content of each kind, with and without --append.
Everything observable (files, pointers, exception type and text, stdout, exit
status, bytes of every file in the directory) is dumped as JSON and compared.
"""
import json
import os
import subprocess
import sys
import tempfile


def describe(coco_file):
    if coco_file is None:
        return None
    return {
        "name": coco_file.name, "extension": coco_file.extension,
        "type": coco_file.type.hex(), "data_type": coco_file.data_type.hex(),
        "gaps": coco_file.gaps.hex(), "load": coco_file.load_addr.hex(), "exec": coco_file.exec_addr.hex(),
        "ascii": coco_file.ascii, "ignore_gaps": coco_file.ignore_gaps,
        "data": list(coco_file.data), "str": str(coco_file), "fields": list(coco_file._fields),
    }


def attempt(function):
    try:
        return {"ok": function()}
    except BaseException as error:
        return {"exc": type(error).__name__, "msg": str(error), "args": repr(error.args)}


def library_cases(tree):
    from cocoasm.virtualfiles.cassette import CassetteFile
    from cocoasm.virtualfiles.coco_file import CoCoFile
    from cocoasm.values import NumericValue

    def coco(name, data, file_type=2, data_type=0, gaps=0, load=0x0E00, exe=0x0E10):
        return CoCoFile(name=name, extension="bin", type=NumericValue(file_type), data_type=NumericValue(data_type),
                        gaps=NumericValue(gaps), load_addr=NumericValue(load), exec_addr=NumericValue(exe),
                        data=list(data))

    def image(*files):
        cassette = CassetteFile()
        for one in files:
            cassette.add_file(one)
        return list(cassette.get_buffer())

    def read_file(buffer, pointer=0):
        def run():
            result, end = CassetteFile(buffer=list(buffer)).read_file(pointer)
            return [describe(result), end]
        return attempt(run)

    def read_blocks(buffer, pointer=0):
        def run():
            data, end = CassetteFile(buffer=list(buffer)).read_blocks(pointer)
            return [type(data).__name__, list(data), end]
        return attempt(run)

    def list_files(buffer, filenames=None):
        def run():
            return [describe(x) for x in CassetteFile(buffer=list(buffer)).list_files(filenames)]
        return attempt(run)

    results = {}
    small = coco("HELLO", range(1, 6))
    big = coco("BIGFILE", [x % 256 for x in range(700)], load=0x3F00, exe=0x3F02)
    basic = coco("PROG", b"10 PRINT", file_type=0, data_type=0xFF, gaps=0xFF, load=0, exe=0)
    datafile = coco("D", [0x55, 0x3C, 0x01, 0x02, 0x55, 0x3C, 0xFF], file_type=1)
    exact = coco("EXACT255", [7] * 255)
    exact2 = coco("X", [9] * 510)
    empty = coco("EMPTY", [])

    one = image(small)
    many = image(small, big, basic, datafile, exact, exact2)
    for label, buffer in (("one", one), ("many", many), ("big", image(big)), ("basic", image(basic)),
                          ("data_with_markers", image(datafile)), ("exact255", image(exact)),
                          ("exact510", image(exact2)), ("empty_data", image(empty)),
                          ("empty_then_small", image(empty, small)), ("nothing", []), ("garbage", [1, 2, 3] * 40),
                          ("leader_only", [0x55] * 128), ("ff", [0xFF] * 300)):
        results["read_file:" + label] = read_file(buffer)
        results["list_files:" + label] = list_files(buffer)
        results["read_blocks:" + label] = read_blocks(buffer)
    results["list_filter_hit"] = list_files(many, ["BIGFILE ", "PROG    "])
    results["list_filter_miss"] = list_files(many, ["NOPE"])
    results["list_filter_empty_list"] = list_files(many, [])
    # reading from pointers inside the image: after the first header, past the end, huge
    first_header = one.index(0x3C) - 1
    for pointer in (0, 1, first_header, first_header + 1, first_header + 3, first_header + 21, len(one) - 1,
                    len(one), len(one) + 5, len(many) // 2, 10 ** 6):
        results["read_file@%d" % pointer] = read_file(many if pointer > len(one) + 5 else one, pointer)
        results["read_blocks@%d" % pointer] = read_blocks(many if pointer > len(one) + 5 else one, pointer)
    # every truncation of a one file image (header cut, name cut, data cut, eof cut)
    for length in range(first_header, len(one) + 1):
        cut = one[:length]
        results["trunc%03d" % length] = [read_file(cut), list_files(cut)]
    # truncations of a two file image, coarser
    two = image(small, basic)
    for length in range(len(one), len(two) + 1, 3):
        results["trunc2_%03d" % length] = list_files(two[:length])
    # corruptions: block type, length byte, name bytes, header type byte
    header = first_header
    data_block = header + 3 + one[header + 3:].index(0x3C) - 1
    for label, position, value in (
            ("block_type_02", data_block + 2, 0x02), ("block_type_00", data_block + 2, 0x00),
            ("block_type_fe", data_block + 2, 0xFE), ("block_type_ff", data_block + 2, 0xFF),
            ("length_00", data_block + 3, 0x00), ("length_ff", data_block + 3, 0xFF),
            ("length_01", data_block + 3, 0x01), ("name_bad_utf8", header + 4, 0xC3),
            ("name_nul", header + 5, 0x00), ("name_high", header + 11, 0xFF),
            ("type_01", header + 12, 0x01), ("type_03", header + 12, 0x03), ("type_ff", header + 12, 0xFF),
            ("ascii_flag", header + 13, 0xFF), ("gap_flag", header + 14, 0xFF),
            ("header_len", header + 3, 0x00), ("sync_lost", data_block + 1, 0x00),
            ("header_sync_lost", header + 1, 0x00)):
        broken = list(one)
        broken[position] = value
        results["corrupt:" + label] = [read_file(broken), list_files(broken), read_blocks(broken, header + 21)]
    # eof block missing, eof block type replaced, second data block inserted by hand
    eof_block = len(one) - 1 - one[::-1].index(0x3C) - 1
    results["no_eof"] = [read_file(one[:eof_block]), list_files(one[:eof_block])]
    results["eof_cut_after_type"] = [read_file(one[:eof_block + 3]), list_files(one[:eof_block + 3])]
    results["eof_cut_before_type"] = [read_file(one[:eof_block + 2]), list_files(one[:eof_block + 2])]
    manual = [0x55, 0x3C, 0x01, 0x02, 0xAA, 0xBB, 0x00, 0x55, 0x55, 0x3C, 0x01, 0x00, 0x00, 0x55,
              0x55, 0x3C, 0x01, 0x01, 0xCC, 0x00, 0x55, 0x55, 0x3C, 0xFF, 0x00, 0xFF, 0x55]
    results["manual_blocks"] = read_blocks(manual)
    results["manual_blocks@7"] = read_blocks(manual, 7)
    results["manual_blocks_cut"] = [read_blocks(manual[:n]) for n in range(len(manual))]
    # unusual buffer contents
    results["negative_type"] = read_blocks([0x55, 0x3C, -1, 0, 0, 0])
    results["negative_one_type"] = read_blocks([0x55, 0x3C, 0x01, 1, 5, 0, 0x55, 0x55, 0x3C, -1])
    results["wide_type"] = read_blocks([0x55, 0x3C, 0x101, 0, 0, 0])
    results["bytes_buffer"] = attempt(lambda: [describe(x) for x in CassetteFile(buffer=bytes(one)).list_files()])
    results["tuple_buffer"] = attempt(lambda: [describe(x) for x in CassetteFile(buffer=tuple(one)).list_files()])
    results["methods"] = sorted(x for x in dir(CassetteFile) if x.startswith("read") or x.startswith("list"))[:2]
    return results


ASM = ["            NAM   DEMO\n", "            ORG   $0E00\n", "START       LDA   #$01\n",
       "            STA   $0400\n", "            RTS\n", "            END   START\n"]
ASM2 = ["            ORG   $2000\n", "BEGIN       LDB   #$02\n", "            RTS\n", "            END   BEGIN\n"]


def cli_cases(tree):
    python = sys.executable
    env = dict(os.environ, PYTHONPATH=tree, PYTHONDONTWRITEBYTECODE="1")
    results = {}

    def run(tmp, tool, *args):
        done = subprocess.run([python, os.path.join(tree, tool)] + list(args), cwd=tmp, env=env,
                              capture_output=True, text=True)
        return {"rc": done.returncode, "out": done.stdout, "err": done.stderr.replace(tree, "<tree>")}

    def snapshot(tmp):
        found = {}
        for name in sorted(os.listdir(tmp)):
            with open(os.path.join(tmp, name), "rb") as handle:
                found[name] = handle.read().hex()
        return found

    def seed(tmp):
        with open(os.path.join(tmp, "a.asm"), "w") as handle:
            handle.writelines(ASM)
        with open(os.path.join(tmp, "b.asm"), "w") as handle:
            handle.writelines(ASM2)
        log = [run(tmp, "assembler.py", "a.asm", "--to_cas", "one.cas", "--to_bin", "raw.bin", "--to_dsk", "one.dsk"),
               run(tmp, "assembler.py", "a.asm", "--to_cas", "two.cas"),
               run(tmp, "assembler.py", "b.asm", "--name", "SECOND", "--to_cas", "two.cas", "--append")]
        with open(os.path.join(tmp, "empty.bin"), "wb"):
            pass
        with open(os.path.join(tmp, "junk.bin"), "wb") as handle:
            handle.write(bytes(range(256)) * 3)
        with open(os.path.join(tmp, "one.cas"), "rb") as handle:
            good = handle.read()
        with open(os.path.join(tmp, "cut.cas"), "wb") as handle:
            handle.write(good[:len(good) - 9])
        with open(os.path.join(tmp, "badblock.cas"), "wb") as handle:
            broken = bytearray(good)
            position = broken.index(b"\x55\x3c\x01")
            broken[position + 2] = 0x07
            handle.write(bytes(broken))
        with open(os.path.join(tmp, "long.cas"), "wb") as handle:
            handle.write(good * (161280 // len(good) + 2))
        return log

    targets = ["absent.out", "empty.bin", "one.cas", "two.cas", "one.dsk", "raw.bin", "junk.bin", "cut.cas",
               "badblock.cas", "long.cas"]
    with tempfile.TemporaryDirectory() as tmp:
        results["seed"] = [seed(tmp), {k: v[:4000] for k, v in snapshot(tmp).items()}]
        for source in ("one.cas", "two.cas", "cut.cas", "badblock.cas", "long.cas", "one.dsk", "junk.bin", "empty.bin"):
            results["list:" + source] = run(tmp, "file_util.py", source, "--list")
        results["list_files_filter"] = run(tmp, "file_util.py", "two.cas", "--list", "--files", "second")
    for kind in ("--to_cas", "--to_dsk", "--to_bin"):
        for append in (False, True):
            for target in targets:
                with tempfile.TemporaryDirectory() as tmp:
                    seed(tmp)
                    extra = ["--append"] if append else []
                    key = "%s %s append=%s" % (kind, target, append)
                    results["asm " + key] = [
                        run(tmp, "assembler.py", "b.asm", "--name", "NEXT", kind, target, *extra),
                        {k: (v if len(v) < 4000 else [len(v), hash_of(v)]) for k, v in snapshot(tmp).items()}]
                if kind == "--to_bin" and target not in ("absent.out", "one.cas", "junk.bin"):
                    continue
                for source in ("two.cas", "one.cas") if kind != "--to_dsk" or not append else ("two.cas",):
                    if source == target:
                        continue
                    with tempfile.TemporaryDirectory() as tmp:
                        seed(tmp)
                        results["util %s from %s" % (key, source)] = [
                            run(tmp, "file_util.py", source, kind, target, *extra),
                            {k: (v if len(v) < 4000 else [len(v), hash_of(v)]) for k, v in snapshot(tmp).items()}]
    with tempfile.TemporaryDirectory() as tmp:
        seed(tmp)
        results["sequence"] = [
            run(tmp, "file_util.py", "two.cas", "--to_cas", "new.cas", "--files", "SECOND"),
            run(tmp, "file_util.py", "one.cas", "--to_cas", "new.cas"),
            run(tmp, "file_util.py", "one.cas", "--to_cas", "new.cas", "--append"),
            run(tmp, "file_util.py", "new.cas", "--list"),
            run(tmp, "file_util.py", "new.cas", "--to_dsk", "new.dsk"),
            run(tmp, "file_util.py", "new.dsk", "--to_cas", "back.cas"),
            run(tmp, "file_util.py", "back.cas", "--list"),
            run(tmp, "file_util.py", "back.cas", "--to_bin", "x.bin"),
            run(tmp, "file_util.py", "one.cas", "--to_bin", "x.bin"),
            run(tmp, "file_util.py", "one.cas", "--to_bin", "x.bin"),
            {k: (v if len(v) < 4000 else [len(v), hash_of(v)]) for k, v in snapshot(tmp).items()}]
    return results


def hash_of(text):
    import hashlib
    return hashlib.sha256(text.encode()).hexdigest()


def child(tree):
    sys.path.insert(0, tree)
    results = {"lib": library_cases(tree), "cli": cli_cases(tree)}
    print(json.dumps(results))


def main():
    if len(sys.argv) == 3 and sys.argv[1] == "--child":
        child(os.path.abspath(sys.argv[2]))
        return 0
    if len(sys.argv) != 3:
        print(__doc__)
        return 2
    outputs = []
    for tree in sys.argv[1:3]:
        tree = os.path.abspath(tree)
        done = subprocess.run([sys.executable, os.path.abspath(__file__), "--child", tree], cwd=tree,
                              capture_output=True, text=True,
                              env=dict(os.environ, PYTHONPATH=tree, PYTHONDONTWRITEBYTECODE="1"))
        if done.returncode != 0:
            print("child failed for", tree)
            print(done.stderr[-3000:])
            return 1
        outputs.append(json.loads(done.stdout))
    first, second = outputs
    bad = 0
    total = 0
    for group in ("lib", "cli"):
        for name in sorted(set(first[group]) | set(second[group])):
            total += 1
            if first[group].get(name) != second[group].get(name):
                bad += 1
                print("DIFFERENT: %s/%s" % (group, name))
                print("   A:", json.dumps(first[group].get(name))[:600])
                print("   B:", json.dumps(second[group].get(name))[:600])
    print("%d cases compared (%d library, %d command line), %d differ"
          % (total, len(first["lib"]), len(first["cli"]), bad))
    return 1 if bad else 0


if __name__ == "__main__":
    sys.exit(main())
