#!/venv/bin/python
"""
Differential demonstration: run the same inputs through two source trees of
CoCoAssembler and compare every observable result.

usage: equiv.py <treeA> <treeB>        exit 0 = all agree, 1 = a difference
"""
import json
import os
import subprocess
import sys
import tempfile

PY = sys.executable

# --------------------------------------------------------------------------
# Inputs
# --------------------------------------------------------------------------

PROGRAMS = {
    "basic_org": ["        ORG $0E00", "START   LDA #$01", "        STA $0400", "        JMP START", "        END START"],
    "low_org": ["        ORG $0020", "START   LDA #$01", "        STA VAR", "        JMP START", "VAR     FCB $00"],
    "page_edge": ["        ORG $00FE", "A1      NOP", "A2      NOP", "A3      NOP", "        LDX #A1", "        LDX #A3", "        JMP A2", "        JMP A3"],
    "branches": ["        ORG $2000", "TOP     NOP", "        BRA TOP", "        BNE FWD", "        LBRA TOP", "        LBEQ FWD", "        BSR TOP", "        LBSR FWD", "FWD     RTS"],
    "lowercase": ["        org $3000", "loop    lda #$10 ; load", "        bne loop", "        rts"],
    "mixedcase_ws": ["\tOrG\t$3000", "loop\t\tLdA    #$10    ;   comment here", "    BnE   loop", "  rts  "],
    "comments": ["; leading comment", "   ; indented comment", "", "   ", "        ORG $4000 ; origin", "L1      CLRA ;nospace", "        CLRB   ;     trailing words", "        RTS ;;; many"],
    "indexed_all": ["        ORG $1000", "        LDA ,X", "        LDA ,Y", "        LDA ,U", "        LDA ,S", "        LDA ,X+", "        LDA ,X++", "        LDA ,-Y", "        LDA ,--Y", "        LDA A,X", "        LDA B,Y", "        LDA D,U", "        LDA 0,S", "        LDA 5,X", "        LDA $10,Y", "        LDA $1234,U", "        LDA -5,S", "        LDA -200,X", "        LDA 127,X", "        LDA 128,X", "        LDA -128,X", "        LDA -129,X"],
    "ext_indexed_all": ["        ORG $1000", "        LDA [,X]", "        LDA [,Y]", "        LDA [,U]", "        LDA [,S]", "        LDA [,X++]", "        LDA [,--Y]", "        LDA [A,X]", "        LDA [B,Y]", "        LDA [D,U]", "        LDA [0,S]", "        LDA [5,X]", "        LDA [$10,Y]", "        LDA [$1234,U]", "        LDA [-5,S]", "        LDA [-200,X]", "        LDA [$2000]", "        LDA [1234]"],
    "ext_indexed_sym": ["        ORG $1000", "TAB     FDB $1234", "OFF     EQU 4", "        LDA [TAB]", "        LDX [OFF,X]", "        LDX [TAB,PCR]", "        LDX [TAB+2,PCR]"],
    "indexed_sym": ["        ORG $1000", "TAB     FDB $1234", "OFF     EQU 4", "BIG     EQU $1234", "        LDX OFF,X", "        LDX BIG,Y", "        LDX TAB,PCR", "        LEAX TAB+2,PCR", "        LEAX TAB-1,PCR", "        LEAY FWD,PCR", "FWD     NOP"],
    "pcr_far": ["        ORG $1000", "        LEAX FAR,PCR", "        LEAX [FAR,PCR]", "        RMB 200", "FAR     NOP", "        LEAX FAR,PCR"],
    "pcr_num": ["        ORG $1000", "        LDA 10,PCR", "        LDA $1000,PCR", "        LDA [10,PCR]", "        LDA [$1000,PCR]"],
    "reg_like_labels": ["        ORG $0100", "XS      NOP", "SU      NOP", "PCRX    NOP", "AB      NOP", "        JMP XS", "        LDX #SU", "        LDA AB", "        LDA PCRX", "        LDA PCRX,PCR", "        LDA [XS,PCR]"],
    "reg_like_equ": ["XS      EQU 3", "SU      EQU $44", "PCRX    EQU $1234", "YU      EQU -3", "        LDA XS,X", "        LDA SU,Y", "        LDA [PCRX,U]", "        LDA [XS,S]", "        LDA YU,U", "        LDA PCRX,PCR"],
    "err_label_indexed": ["        ORG $1000", "TAB     FDB 1", "        LDX TAB,U"],
    "err_label_ext_indexed": ["        ORG $1000", "TAB     FDB 1", "        LDX [TAB,Y]"],
    "acc_labels": ["        ORG $0100", "A       NOP", "B       NOP", "D       NOP", "        LDA A,X", "        LDA B,Y", "        LDA [D,U]", "        JMP A"],
    "weird_right": ["        ORG $0100", "        LDA ,US", "        LDA ,XY", "        LDA 4,US", "        LDA [,XS]", "        LDA A,YU"],
    "data": ["        ORG $0600", "MSG     FCC \"HELLO\"", "        FCB $0D", "        FDB $1234", "        FCB 255", "        FDB MSG", "        RMB 4", "        FCC /A B/ trailing comment", "        FCC 'x y' ; c", "END1    FCB 0"],
    "fcc_edge": ["        FCC \"A\"", "        FCC \"\"", "        FCC /ab;cd/", "        FCC \"semi\" ; comment ; more"],
    "equ_setdp": ["SCREEN  EQU $0400", "SMALL   EQU $40", "        ORG $0E00", "        SETDP $0E", "        LDA SCREEN", "        LDA SMALL", "        LDA <SCREEN", "        LDA >SMALL", "        STA SCREEN+1", "        STA SMALL-1", "        STA SCREEN+SMALL"],
    "expr": ["        ORG $0200", "L1      NOP", "L2      NOP", "        LDX #L1+1", "        LDX #L2-1", "        LDX #L2-L1", "        LDX #$10+$20", "        LDD #5*3", "        LDD #8/2", "        JMP L1+2", "        JMP L2-1"],
    "imm": ["        LDA #$FF", "        LDA #255", "        LDA #'A", "        LDA #%10101010", "        LDD #%1010101010101010", "        LDD #$1", "        LDD #$0001", "        LDX #0", "        LDA #-1", "        LDD #-1", "        LDD #-200", "        LDA #-128"],
    "inh_stack": ["        PSHS A,B,X", "        PULS PC,U", "        TFR A,B", "        EXG X,Y", "        PSHU D,CC,DP", "        ABX", "        SWI2", "        SWI3", "        NEG $10", "        NEG $1000", "        NEG <$10", "        NEG >$10"],
    "name_end": ["        NAM prog", "        ORG $7000", "S       NOP", "        END S"],
    "multi_org": ["        ORG $1000", "A1      NOP", "        ORG $2000", "A2      NOP", "        JMP A1", "        JMP A2", "        BRA A2"],
    "at_labels": ["        ORG $1000", "@L1     NOP", "L@2     NOP", "        JMP @L1", "        BRA L@2", "        LDX #@L1"],
    "numeric_labels": ["        ORG $1000", "1A      NOP", "L1Z     NOP", "        JMP 1A", "        BRA L1Z"],
    "err_underscore_label": ["L_1     NOP", "        BRA L_1"],
    "err_operand_from_comment": ["        CLRB        trailing words no semicolon"],
    "short_branch_edge_back": ["        ORG $1000", "T       NOP"] + ["        NOP"] * 125 + ["        BRA T"],
    "short_branch_too_far_back": ["        ORG $1000", "T       NOP"] + ["        NOP"] * 127 + ["        BRA T"],
    "short_branch_edge_fwd": ["        ORG $1000", "        BRA T"] + ["        NOP"] * 127 + ["T       NOP"],
    "short_branch_too_far_fwd": ["        ORG $1000", "        BRA T"] + ["        NOP"] * 128 + ["T       NOP"],
    "long_branch_far": ["        ORG $1000", "T       NOP", "        RMB 300", "        LBRA T", "        LBNE E", "        RMB 300", "E       RTS"],
    "low_addr_refs": ["        ORG $0000", "Z       NOP", "        JMP Z", "        LDX #Z", "        LDA Z", "        FDB Z", "        LDA Z,PCR"],
    "high_addr": ["        ORG $FFF0", "H       NOP", "        JMP H", "        LDX #H", "        FDB H", "        BRA H"],
    # error cases
    "err_bad_mnemonic": ["        ORG $1000", "L       FOO $10 ; comment"],
    "err_bad_mnemonic_noop": ["  XYZ"],
    "err_unparseable": ["LABEL"],
    "err_unparseable2": ["LDA #$10"],
    "err_no_leading": ["NOP"],
    "err_fcc_empty": ["        FCC"],
    "err_fcc_unterminated": ["        FCC \"ABC"],
    "err_fcc_onechar": ["        FCC \""],
    "err_undefined_symbol": ["        ORG $1000", "        JMP NOWHERE"],
    "err_undefined_indexed": ["        LDA NOPE,X"],
    "err_undefined_ext_indexed": ["        LDA [NOPE,X]"],
    "err_redefined": ["L       NOP", "L       NOP"],
    "err_ext_ind_single_inc": ["        LDA [,X+]"],
    "err_ext_ind_single_dec": ["        LDA [,-S]"],
    "err_idx_expr_inc": ["        LDA 5,X+"],
    "err_ext_idx_expr_inc": ["        LDA [5,X+]"],
    "err_idx_not_supported": ["        BRA ,X"],
    "err_ext_idx_not_supported": ["        BRA [,X]"],
    "err_bad_operand_chars": ["        LDA {5}"],
    "err_bad_value": ["        LDA #$12345"],
    "err_bad_int": ["        LDD #70000"],
    "err_neg_int": ["        LDD #-40000"],
    "err_bad_binary": ["        LDA #%101"],
    "err_two_commas": ["        LDA 1,2,X"],
    "err_include_missing": ["        INCLUDE /nonexistent/file.asm"],
    "err_imm_store": ["        STA #$10"],
    "err_inh_with_operand": ["        NOP $10"],
    "err_mul_label": ["        ORG $1000", "L       NOP", "        LDX #L*2"],
    "empty": [],
    "only_blank": ["", "   ", "\t"],
}

# The line pattern wants white space after the mnemonic, so operand-less lines
# only assemble with trailing white space: run every program both ways.
for _name in list(PROGRAMS):
    PROGRAMS[_name + "+sp"] = [_l + " " for _l in PROGRAMS[_name]]

# Single lines for Statement(line) probing
STATEMENT_LINES = [
    "", " ", "\t\t", ";", "; c", "   ;   spaced   ", ";;x",
    "LABEL   LDA   #$10   ; comment", "LABEL LDA #$10;c", "  lda  #$10", " NOP", " NOP ; c", " NOP c",
    "L NOP", "@L NOP", "L: NOP", " LDA A,X extra words", " FCC \"hi there\" ; c", " FCC /x/", " FCC",
    " FCC \"", " FCC \"a", " FCC ;", " FCC ;abc;def", " FCB $10,$20", " FDB 1", " RMB 10", " ORG $1000",
    " END", " END START", " NAM x", " INCLUDE f.asm", "L EQU 5", " SETDP $10", " FOO", " FOO bar ; baz",
    "X", "X Y", " LDA <$10", " LDA >$10", " LDA [$1000]", " LDA [,X]", " LDA [", " LDA ]", " LDA #",
    " LDA #'", " LDA #''", " LDA #'A", " LDA 'A", " LDA ~", " LDA $", " LDA %", " LDA 1+", " LDA +1",
    " LDA 1+2+3", " JMP  L1+2  rest", " BRA *", " PSHS A,B", " TFR A,B", " TFR Q,B", " PSHS Z",
]

# Operand strings for Operand.create_from_str probing with a few mnemonics
OPERAND_STRINGS = [
    "", ",X", ",Y", ",U", ",S", ",X+", ",X++", ",-X", ",--X", "A,X", "B,Y", "D,U", "E,X", "0,X", "1,X", "15,X",
    "16,X", "-16,X", "-17,X", "127,Y", "128,Y", "-128,Y", "-129,Y", "255,X", "256,X", "$10,X", "$0010,X",
    "$FFFF,S", "65535,S", "SYM,X", "SYM+1,X", "SYM,PCR", "10,PCR", "$1000,PCR", ",PCR", "A,PCR", ",US", ",XYUS",
    ",Q", "1,Q", "A,Q", "[,X]", "[,Y]", "[,U]", "[,S]", "[,X+]", "[,X++]", "[,-X]", "[,--X]", "[A,X]", "[B,Y]",
    "[D,U]", "[0,X]", "[1,X]", "[-1,X]", "[127,X]", "[128,X]", "[-128,X]", "[-129,X]", "[$10,X]", "[$1234,X]",
    "[SYM,X]", "[SYM,PCR]", "[10,PCR]", "[$1000,PCR]", "[$1000]", "[1000]", "[SYM]", "[SYM+1]", "[]", "[,]",
    "[,Q]", "[,US]", "[5,X+]", "5,X+", "5,-X", "[A,X+]", "A,X+", "#$10", "#$1000", "$10", "$1000", "<$10",
    ">$10", "SYM", "SYM+1", "1,2,3", "[1,2,3]", ",", "X", "A", "D",
    # odd register parts: detection is by substring, bits accumulate
    ",-X++", "[,-X++]", "[,--X++]", ",--X++", "[,X+-]", ",X+-", "[,++]", ",++", ",+", ",-", "[,-]", "[,+]", ",SX",
    "[,SX]", ",YUS", "0,X+", "0,--Y", "[0,X++]", "[0,X+]", "[0,-S]", "$00,X", "[$0,Y]", "A,", "[A,]", "A,S+",
    "[B,--U]", "D,PCR", "[D,PCR]", "a,X", "[b,Y]", "AB,X", "[DD,X]", "SYM,", "[SYM,]", "SYM-1,PCR", "[SYM-1,Y]",
    "-0,X", "[-0,X]", "-1,PCR", "[-1,PCR]", "-200,PCR", "[-200,PCR]",
]
OPERAND_MNEMONICS = ["LDA", "LDX", "LEAX", "JMP", "BRA", "STA"]
OPERAND_SYMBOLS = {"SYM": "$1234"}

# NumericValue probes: (value, size_hint)
NUMERIC_PROBES = []
for _v in [0, 1, 9, 15, 16, 17, 127, 128, 129, 255, 256, 257, 4095, 4096, 32767, 32768, 65535, 65536,
           -1, -15, -16, -17, -127, -128, -129, -255, -256, -32768, -65535,
           "0", "00", "255", "256", "65535", "65536", "-1", "-128", "-129", "-32768", "-32769",
           "$0", "$00", "$000", "$0000", "$FF", "$0FF", "$00FF", "$100", "$FFFF", "$10000", "$G",
           "%00000000", "%11111111", "%0000000011111111", "%101", "'A", "' ", "'~", "", "abc", "$", "%", "-"]:
    for _h in [None, 0, 2, 4]:
        for _m in ["NONE", "DIRECT", "EXTENDED", "IMMEDIATE", "EXPLICIT_DIRECT", "EXPLICIT_EXTENDED"]:
            NUMERIC_PROBES.append([_v, _h, _m])

# Value.create_from_str probes: (text, mnemonic or None, default_mode_extended)
VALUE_STRINGS = [
    "", "#", "<", ">", "#$10", "#$1000", "<$10", "<$1000", ">$10", ">$1000", "#5", "<5", ">5", "#300", "<300", ">300",
    "#-1", "<-1", ">-1", "#SYM", "<SYM", ">SYM", "#<5", "<#5", ">>5", "##5", "#'A", "<'A", "#%00001111", "$10", "$0010",
    "5", "255", "256", "-5", "SYM", "SYM+1", "#SYM+1", "<SYM-1", "1+2", "#1+2", "$10+$20", "A,X", "#A,X", "<A,X", "[5]",
    "\"AB\"", "/AB/", "1,2", "$1,$2", "1,2,3", "@X", "a_b", "~",
]
VALUE_PROBES = [[_t, _mn, _d] for _t in VALUE_STRINGS for _mn in [None, "LDA", "LDX", "FCC", "FCB", "FDB"]
                for _d in [True, False]]

CLI_CASES = [
    ("page_edge+sp", ["--print", "--symbols"]),
    ("branches+sp", ["--print", "--symbols"]),
    ("reg_like_labels+sp", ["--print", "--symbols"]),
    ("indexed_sym+sp", ["--print", "--symbols"]),
    ("name_end+sp", ["--print", "--symbols", "--to_bin", "out.bin", "--to_cas", "out.cas", "--to_dsk", "out.dsk"]),
    ("short_branch_too_far_back+sp", ["--print"]),
    ("short_branch_too_far_fwd+sp", ["--print"]),
    ("err_redefined+sp", ["--symbols"]),
    ("basic_org", ["--print", "--symbols"]),
    ("low_org", ["--print", "--symbols"]),
    ("page_edge", ["--print", "--symbols"]),
    ("branches", ["--print", "--symbols"]),
    ("mixedcase_ws", ["--print", "--symbols"]),
    ("comments", ["--print"]),
    ("indexed_all", ["--print"]),
    ("ext_indexed_all", ["--print"]),
    ("indexed_sym", ["--print", "--symbols"]),
    ("reg_like_labels", ["--print", "--symbols"]),
    ("data", ["--print", "--symbols", "--to_bin", "out.bin"]),
    ("name_end", ["--print", "--symbols", "--to_bin", "out.bin", "--to_cas", "out.cas", "--to_dsk", "out.dsk"]),
    ("equ_setdp", ["--symbols", "--to_bin", "out.bin"]),
    ("err_bad_mnemonic", ["--print"]),
    ("err_unparseable", ["--print"]),
    ("err_fcc_empty", ["--print"]),
    ("err_undefined_symbol", ["--print", "--symbols"]),
    ("short_branch_too_far_back", ["--print"]),
    ("err_ext_ind_single_inc", ["--print"]),
    ("err_redefined", ["--symbols"]),
]

# --------------------------------------------------------------------------
# Child: runs inside ONE tree
# --------------------------------------------------------------------------

CHILD = r'''
import json, sys, os
tree = sys.argv[1]
sys.path.insert(0, tree)
os.chdir(tree)
spec = json.load(sys.stdin)

from cocoasm.program import Program
from cocoasm.statement import Statement
from cocoasm.operands import Operand
from cocoasm.instruction import INSTRUCTIONS
from cocoasm.values import NumericValue, Value, ExplicitAddressingMode
import cocoasm
assert os.path.realpath(os.path.dirname(cocoasm.__file__)) == os.path.realpath(os.path.join(tree, "cocoasm")), cocoasm.__file__


def exc_info(e):
    d = {"exc_type": type(e).__name__, "exc_str": str(e), "exc_args": repr(e.args)}
    if hasattr(e, "value"):
        d["exc_value"] = repr(e.value)
    st = getattr(e, "statement", None)
    if st is not None:
        if isinstance(st, str):
            d["exc_statement"] = st
        else:
            try:
                d["exc_statement"] = str(st)
            except Exception as e2:
                d["exc_statement"] = "unprintable:" + type(e2).__name__ + ":" + str(e2)
    return d


def val_info(v):
    if v is None or isinstance(v, (str, int)):
        return repr(v)
    d = {"cls": type(v).__name__}
    for attr in ("int", "negative", "size_hint", "original_string", "left", "right", "type", "explict_addressing_mode"):
        if hasattr(v, attr):
            x = getattr(v, attr)
            d[attr] = x if isinstance(x, (int, str, bool, type(None))) else (val_info(x) if hasattr(x, "hex") else repr(x))
    for meth in ("hex", "hex_len", "byte_len", "is_8_bit", "is_16_bit", "is_4_bit"):
        if hasattr(v, meth):
            try:
                d[meth] = getattr(v, meth)()
            except Exception as e:
                d[meth] = exc_info(e)
    return d


def pkg_info(p):
    return {
        "op_code": val_info(p.op_code), "post_byte": val_info(p.post_byte), "additional": val_info(p.additional),
        "address": val_info(p.address), "size": p.size, "max_size": p.max_size,
        "choices": list(p.post_byte_choices) if p.post_byte_choices else [],
        "needs_res": p.additional_needs_resolution,
    }


def operand_info(o):
    if o is None:
        return None
    return {"cls": type(o).__name__, "type": repr(o.type), "operand_string": o.operand_string,
            "value": val_info(o.value), "left": val_info(o.left), "right": val_info(o.right)}


def stmt_info(s):
    d = {"is_empty": s.is_empty, "is_comment_only": s.is_comment_only, "label": s.label, "mnemonic": s.mnemonic,
         "comment": s.comment, "instruction": s.instruction.mnemonic if s.instruction else None,
         "operand": operand_info(s.operand), "original_operand": operand_info(s.original_operand),
         "fixed_size": s.fixed_size, "pcr_size_hint": s.pcr_size_hint, "state": repr(s.state),
         "code_pkg": pkg_info(s.code_pkg)}
    try:
        d["str"] = str(s)
    except Exception as e:
        d["str"] = exc_info(e)
    return d


out = {"programs": {}, "statements": [], "operands": [], "numerics": [], "values": []}

for name, lines in spec["programs"].items():
    r = {}
    p = Program()
    try:
        p.process(lines)
        r["bytes"] = p.get_binary_array()
        r["listing"] = p.get_statements()
        r["symbols"] = p.get_symbol_table()
        r["symbol_values"] = {k: val_info(v) for k, v in p.symbol_table.items()}
        r["origin"] = val_info(p.origin)
        r["name"] = p.name
        r["stmts"] = [stmt_info(s) for s in p.statements]
    except Exception as e:
        r["error"] = exc_info(e)
        r["partial_statements"] = len(p.statements)
    out["programs"][name] = r

for line in spec["statement_lines"]:
    try:
        out["statements"].append(stmt_info(Statement(line)))
    except Exception as e:
        out["statements"].append(exc_info(e))

symtab = {k: Value.create_from_str(v) for k, v in spec["operand_symbols"].items()}
for mn in spec["operand_mnemonics"]:
    ins = next(i for i in INSTRUCTIONS if i.mnemonic == mn)
    for s in spec["operand_strings"]:
        r = {"in": [mn, s]}
        try:
            o = Operand.create_from_str(s, ins)
            r["created"] = operand_info(o)
            try:
                o = o.resolve_symbols(dict(symtab))
                r["resolved"] = operand_info(o)
                try:
                    r["pkg"] = pkg_info(o.translate())
                    r["after"] = operand_info(o)
                except Exception as e:
                    r["translate_error"] = exc_info(e)
            except Exception as e:
                r["resolve_error"] = exc_info(e)
        except Exception as e:
            r["create_error"] = exc_info(e)
        out["operands"].append(r)

for t, mn, dflt in spec["values"]:
    r = {"in": [t, mn, dflt]}
    ins = next(i for i in INSTRUCTIONS if i.mnemonic == mn) if mn else None
    try:
        v = Value.create_from_str(t, ins, default_mode_extended=dflt)
        r["info"] = val_info(v)
        try:
            r["resolved"] = val_info(v.resolve(dict(symtab)))
        except Exception as e:
            r["resolve_error"] = exc_info(e)
    except Exception as e:
        r["error"] = exc_info(e)
    out["values"].append(r)

for v, h, m in spec["numerics"]:
    r = {"in": [v, h, m]}
    try:
        n = NumericValue(v, size_hint=h, mode=ExplicitAddressingMode[m])
        r["info"] = val_info(n)
        r["hexes"] = [n.hex(size=s) for s in (0, 1, 2, 3, 4, 6)]
        r["negs"] = [n.get_negative(size=s) for s in (None, 0, 2, 4)]
        r["bytes"] = [n.high_byte(), n.low_byte(), n.byte_len(), str(n)]
    except Exception as e:
        r["error"] = exc_info(e)
    out["numerics"].append(r)

json.dump(out, sys.stdout, sort_keys=True, default=repr)
'''


def run_child(tree):
    spec = {
        "programs": PROGRAMS, "statement_lines": STATEMENT_LINES, "operand_strings": OPERAND_STRINGS,
        "operand_mnemonics": OPERAND_MNEMONICS, "operand_symbols": OPERAND_SYMBOLS, "numerics": NUMERIC_PROBES, "values": VALUE_PROBES,
    }
    env = dict(os.environ)
    env.pop("PYTHONPATH", None)
    env["PYTHONDONTWRITEBYTECODE"] = "1"
    proc = subprocess.run([PY, "-c", CHILD, tree], input=json.dumps(spec), capture_output=True, text=True,
                          cwd=tree, env=env)
    if proc.returncode != 0:
        print("child failed in", tree, "\n", proc.stderr)
        sys.exit(1)
    return json.loads(proc.stdout)


def run_cli(tree):
    results = {}
    env = dict(os.environ)
    env.pop("PYTHONPATH", None)
    env["PYTHONDONTWRITEBYTECODE"] = "1"
    for name, flags in CLI_CASES:
        with tempfile.TemporaryDirectory() as tmp:
            src = os.path.join(tmp, "in.asm")
            with open(src, "w") as f:
                f.write("\n".join(PROGRAMS[name]) + "\n")
            flags2 = [os.path.join(tmp, x) if x.startswith("out.") else x for x in flags]
            proc = subprocess.run([PY, os.path.join(tree, "assembler.py"), src] + flags2, capture_output=True,
                                  text=True, cwd=tree, env=env)
            files = {}
            for fn in sorted(os.listdir(tmp)):
                if fn != "in.asm":
                    with open(os.path.join(tmp, fn), "rb") as f:
                        files[fn] = f.read().hex()
            results[name + " " + " ".join(flags)] = {
                "rc": proc.returncode,
                "stdout": proc.stdout.replace(tmp, "<TMP>"),
                "stderr": proc.stderr.replace(tmp, "<TMP>").replace(tree, "<TREE>"),
                "files": files,
            }
    return results


def diff(path, a, b, out):
    if type(a) != type(b):
        out.append((path, a, b))
    elif isinstance(a, dict):
        for k in sorted(set(a) | set(b)):
            if k not in a or k not in b:
                out.append((path + "/" + str(k), a.get(k, "<missing>"), b.get(k, "<missing>")))
            else:
                diff(path + "/" + str(k), a[k], b[k], out)
    elif isinstance(a, list):
        if len(a) != len(b):
            out.append((path + "/len", len(a), len(b)))
        for i, (x, y) in enumerate(zip(a, b)):
            diff(path + "/" + str(i), x, y, out)
    elif a != b:
        out.append((path, a, b))


def main():
    if len(sys.argv) != 3:
        print(__doc__)
        return 2
    tree_a, tree_b = (os.path.abspath(t) for t in sys.argv[1:3])
    res_a = {"lib": run_child(tree_a), "cli": run_cli(tree_a)}
    res_b = {"lib": run_child(tree_b), "cli": run_cli(tree_b)}
    diffs = []
    diff("", res_a, res_b, diffs)
    lib = res_a["lib"]
    n_err = sum(1 for r in lib["programs"].values() if "error" in r)
    ncases = (len(lib["programs"]) + len(lib["statements"]) + len(lib["operands"]) + len(lib["numerics"])
              + len(lib["values"]) + len(res_a["cli"]))
    print("cases: {} programs ({} raising), {} statement lines, {} operand probes, {} numeric probes, {} value probes, "
          "{} CLI runs = {}".format(len(lib["programs"]), n_err, len(lib["statements"]), len(lib["operands"]),
                                    len(lib["numerics"]), len(lib["values"]), len(res_a["cli"]), ncases))
    if diffs:
        print("DIFFERENCES: {}".format(len(diffs)))
        for path, a, b in diffs[:40]:
            print("  {}\n     A: {!r}\n     B: {!r}".format(path, a, b))
        return 1
    print("all observable results agree")
    return 0


if __name__ == "__main__":
    sys.exit(main())
