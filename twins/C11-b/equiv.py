#!/usr/bin/env python
"""
Differential demonstration: runs the same set of cases against two source
trees (one subprocess per tree, the tree at the front of sys.path and as the
working directory) and compares every observable result.

usage: equiv.py <treeA> <treeB>      exit 0 = all cases agree, 1 = otherwise
"""
import json
import os
import subprocess
import sys

PYTHON = "/venv/bin/python" if os.path.exists("/venv/bin/python") else sys.executable

DRIVER_HEAD = r'''
import contextlib, enum, hashlib, io, json, os, shutil, subprocess, sys, tempfile
TREE = os.path.abspath(sys.argv[1])
PYTHON = sys.argv[2]
sys.path.insert(0, TREE)
os.chdir(TREE)
RESULTS = []


def norm(text):
    return str(text).replace(TREE, "<TREE>")


def show(obj, depth=0):
    """Canonical, address-free, JSON-able rendering of a result."""
    if depth > 8:
        return "<deep>"
    if obj is None or isinstance(obj, (bool, int, float)):
        return obj
    if isinstance(obj, str):
        return norm(obj)
    if isinstance(obj, (bytes, bytearray)):
        return {"bytes": bytes(obj).hex()}
    if isinstance(obj, enum.Enum):
        return str(obj)
    if isinstance(obj, dict):
        return {"dict": [[show(k, depth + 1), show(v, depth + 1)] for k, v in obj.items()]}
    if hasattr(obj, "_asdict"):
        return {"nt": type(obj).__name__, "f": show(obj._asdict(), depth + 1)}
    if isinstance(obj, (list, tuple, set, frozenset)):
        items = list(obj)
        if len(items) > 600 and all(isinstance(i, int) and not isinstance(i, bool) for i in items):
            blob = ",".join(map(str, items)).encode()
            return {type(obj).__name__: len(items), "sha": hashlib.sha256(blob).hexdigest(),
                    "head": items[:24], "tail": items[-24:]}
        return {type(obj).__name__: [show(i, depth + 1) for i in items]}
    if hasattr(obj, "__dict__"):
        return {"obj": type(obj).__name__, "vars": show(vars(obj), depth + 1)}
    return norm(repr(obj))


def case(label, fn):
    out_buf, err_buf = io.StringIO(), io.StringIO()
    try:
        with contextlib.redirect_stdout(out_buf), contextlib.redirect_stderr(err_buf):
            value = fn()
        out = {"ok": show(value)}
    except SystemExit as error:
        out = {"exit": show(error.code)}
    except BaseException as error:
        out = {"exc": type(error).__name__, "msg": norm(error)}
    out["stdout"] = norm(out_buf.getvalue())
    out["stderr"] = norm(err_buf.getvalue())
    RESULTS.append([label, out])


def cli(tool, argv, files=None, keep=None):
    """
    Runs <TREE>/<tool> with argv inside a fresh temporary directory that first
    receives `files` (name -> str or bytes). Returns return code, stdout, the
    last line of stderr and name/size/sha256 of every file left behind.
    """
    work = keep or tempfile.mkdtemp(prefix="equiv")
    try:
        for name, content in (files or {}).items():
            mode = "wb" if isinstance(content, (bytes, bytearray)) else "w"
            with open(os.path.join(work, name), mode) as handle:
                handle.write(content)
        env = dict(os.environ, PYTHONPATH=TREE, PYTHONDONTWRITEBYTECODE="1", COLUMNS="80")
        done = subprocess.run([PYTHON, os.path.join(TREE, tool)] + list(argv), cwd=work, env=env,
                              capture_output=True, text=True, timeout=600)
        left = {}
        for name in sorted(os.listdir(work)):
            with open(os.path.join(work, name), "rb") as handle:
                blob = handle.read()
            left[name] = [len(blob), hashlib.sha256(blob).hexdigest()]
        err_lines = [line for line in done.stderr.splitlines() if line.strip()]
        return {"rc": done.returncode, "stdout": norm(done.stdout).replace(work, "<WORK>"),
                "stderr_last": norm(err_lines[-1]).replace(work, "<WORK>") if err_lines else "",
                "files": left}
    finally:
        if not keep:
            shutil.rmtree(work, ignore_errors=True)


def read_back(work, name):
    with open(os.path.join(work, name), "rb") as handle:
        return handle.read()

'''

DRIVER_TAIL = r'''
print("@@RESULTS@@" + json.dumps(RESULTS))
'''

DRIVER_PROGS = r'''
def program(size, org="$0E00", nam=None, end=None, seed=7):
    """Assembly source producing `size` pseudo-random bytes at `org`."""
    lines = []
    if nam is not None:
        lines.append("\tNAM {}".format(nam))
    if org is not None:
        lines.append("\tORG {}".format(org))
    lines.append("START\tNOP") if size > 0 else None
    state, left = seed, max(size - 1, 0)
    while left > 0:
        count = min(left, 24)
        values = []
        for _ in range(count):
            state = (state * 1103515245 + 12345) & 0x7FFFFFFF
            values.append("${:02X}".format((state >> 16) & 0xFF))
        lines.append("\tFCB {}".format(",".join(values)))
        left -= count
    if end is not None:
        lines.append("\tEND {}".format(end))
    return "\n".join(lines) + "\n"


def data_bytes(size, seed=3):
    state, out = seed, []
    for _ in range(size):
        state = (state * 1103515245 + 12345) & 0x7FFFFFFF
        out.append((state >> 16) & 0xFF)
    return out

'''

DRIVER_CASES = DRIVER_PROGS + r'''
from cocoasm.virtualfiles.disk import DiskFile, MLPreamble, BasicPreamble, ASCIIPreamble, Postamble
from cocoasm.virtualfiles.coco_file import CoCoFile
from cocoasm.values import NumericValue, NoneValue


def guarded(disk, fn):
    try:
        returned = fn()
    except Exception as error:
        return ["raised", type(error).__name__, str(error), list(disk.buffer)]
    return [show(returned), list(disk.buffer)]


# 1. the file allocation table writer
def fat_case(granules, sectors, size=161280):
    def run():
        disk = DiskFile(buffer=[0xFF] * size)
        return guarded(disk, lambda: disk.write_to_fat(granules, sectors))
    return run


for label, granules, sectors in (
        ("empty", [], 1), ("none", None, 1), ("one", [2], 1), ("four", [2, 4, 6, 8], 1), ("tuple", (5, 1, 9), 9),
        ("two", [67, 0], 0), ("repeat", [3, 3, 3], 4), ("loop", [1, 2, 1], 2), ("all", list(range(68)), 9),
        ("fill-order", [32, 33, 34, 35, 30, 31], 5), ("negative", [-1, 2], 3), ("far", [1, 90000, 2], 3),
        ("far-last", [1, 2, 90000], 3), ("str-sectors", [1, 2], "x"), ("str-granule", [1, "x", 2], 1),
        ("none-sectors", [4], None), ("big-sectors", [4, 5], 300)):
    case("fat-" + label, fat_case(granules, sectors))
case("fat-short-buffer", fat_case([1, 2, 3], 2, size=78594))


# 2. the granule writer
def ml_ambles(length, load=0x1234, execute=0x5678):
    preamble, postamble = MLPreamble(), Postamble()
    preamble.data_length, preamble.load_addr = NumericValue(length), NumericValue(load)
    postamble.exec_addr = NumericValue(execute)
    return preamble, postamble


def granule_case(size, granules, ambles="ml", first=None, image=161280):
    def run():
        disk = DiskFile(buffer=[0xFF] * image)
        preamble, postamble = None, None
        if ambles == "ml":
            preamble, postamble = ml_ambles(size)
        elif ambles == "basic":
            preamble = BasicPreamble()
            preamble.data_length = NumericValue(size)
        elif ambles == "ascii":
            preamble = ASCIIPreamble()
        elif ambles == "post-only":
            postamble = ml_ambles(size)[1]
        elif ambles == "unset":
            preamble, postamble = MLPreamble(), Postamble()
        data = data_bytes(size, seed=size + 5)
        if first is None:
            return guarded(disk, lambda: disk.write_to_granules(data, granules, preamble, postamble))
        return guarded(disk, lambda: disk.write_to_granules(data, granules, preamble, postamble, first_granule=first))
    return run


for size in (0, 1, 2298, 2299, 2300, 2303, 2304, 2305, 4602, 4603, 4604, 4608, 7000):
    case("granules-ml-{}".format(size), granule_case(size, [32, 33, 34, 35]))
for size in (0, 2300, 2301, 2302, 2304, 4605):
    case("granules-basic-{}".format(size), granule_case(size, [0, 67, 34], ambles="basic"))
for size in (0, 2303, 2304, 2305, 4608):
    case("granules-ascii-{}".format(size), granule_case(size, [33, 34, 1], ambles="ascii"))
    case("granules-bare-{}".format(size), granule_case(size, (10, 11, 12), ambles="none"))
    case("granules-post-only-{}".format(size), granule_case(size, [66, 67, 0], ambles="post-only"))
case("granules-not-first", granule_case(100, [3], first=False))
case("granules-not-first-long", granule_case(2400, [3, 4], first=False))
case("granules-first-true", granule_case(2400, [3, 4], first=True))
case("granules-none-allocated", granule_case(512, []))
case("granules-none-object", granule_case(512, None))
case("granules-too-few", granule_case(5000, [7, 8]))
case("granules-too-few-exact", granule_case(4603, [7, 8]))
case("granules-unset-ambles", granule_case(10, [7], ambles="unset"))
case("granules-invalid-granule", granule_case(10, [68]))
case("granules-invalid-second", granule_case(2400, [67, 70]))
case("granules-short-image", granule_case(10, [20], image=46082))
case("granules-short-image-post", granule_case(2299, [19, 20], image=46083))
case("granules-str-granule", granule_case(10, ["x"]))


# 3. whole files through add_file
def coco(name="PROG", size=100, kind=2, data_type=0, load=0x0E00, execute=0x0E00, extension="bin", seed=1):
    return CoCoFile(name=name, extension=extension, type=NumericValue(kind), data_type=NumericValue(data_type),
                    load_addr=NumericValue(load), exec_addr=NumericValue(execute), data=data_bytes(size, seed=seed))


def add_case(files, prepare=None, fill_order=None):
    def run():
        disk = DiskFile(granule_fill_order=fill_order)
        if prepare:
            prepare(disk)
        outcome = []
        for coco_file in files:
            try:
                outcome.append(show(disk.add_file(coco_file)))
            except Exception as error:
                outcome.append(["raised", type(error).__name__, str(error)])
        image = list(disk.buffer)
        try:
            listed = show(DiskFile(buffer=list(image)).list_files())
        except Exception as error:
            listed = ["raised", type(error).__name__, str(error)]
        return [outcome, image, listed]
    return run


for size in (0, 1, 2293, 2294, 2295, 2299, 2304, 4598, 4599, 30000, 65535, 65536):
    case("add-ml-{}".format(size), add_case([coco(size=size)]))
for size in (0, 2300, 2301, 2302, 9000):
    case("add-basic-{}".format(size), add_case([coco(size=size, kind=0, extension="bas")]))
    case("add-ascii-{}".format(size), add_case([coco(size=size, kind=1, data_type=0xFF, extension="txt")]))
case("add-ml-ascii-flag", add_case([coco(size=50, kind=2, data_type=0xFF)]))
case("add-three", add_case([coco("ONE", 10), coco("second", 3000, seed=2), coco("THIRDFILE", 5000, kind=0, seed=3)]))
case("add-none-values", add_case([CoCoFile(name="X", extension="bin", data=[1, 2, 3])]))
case("add-ml-none-addresses", add_case([CoCoFile(name="X", extension="bin", type=NumericValue(2),
                                                 data_type=NumericValue(0), data=[1, 2, 3])]))
case("add-too-big-for-disk", add_case([coco("A", 60000), coco("B", 60000, seed=4), coco("C", 60000, seed=5)]))
case("add-short-fill-order", add_case([coco(size=10)], fill_order=[0, 1]))
case("add-custom-fill-order", add_case([coco(size=5000)], fill_order=list(range(67, -1, -1))))


def fill_directory(disk):
    for entry in range(72):
        disk.buffer[78848 + 32 * entry] = 0x41


case("add-directory-full", add_case([coco(size=10)], prepare=fill_directory))


# 4. end to end through the command line tools
def assemble_to_disk(size, nam="DISKPROG", org="$3F00", end=None, extra=()):
    def run():
        work = tempfile.mkdtemp(prefix="equiv")
        try:
            steps = [cli("assembler.py", ["p.asm", "--to_dsk", "p.dsk"] + list(extra),
                         files={"p.asm": program(size, org=org, nam=nam, end=end)}, keep=work)]
            steps.append(cli("file_util.py", ["p.dsk", "--list"], keep=work))
            steps.append(cli("assembler.py", ["p.asm", "--to_dsk", "p.dsk", "--append"] + list(extra), keep=work))
            steps.append(cli("file_util.py", ["p.dsk", "--list"], keep=work))
            steps.append(cli("file_util.py", ["p.dsk", "--to_cas", "p.cas"], keep=work))
            return steps
        finally:
            shutil.rmtree(work, ignore_errors=True)
    return run


for size in (1, 2294, 2295, 4599, 20000):
    case("cli-{}".format(size), assemble_to_disk(size))
case("cli-end-operand", assemble_to_disk(40, end="START"))
case("cli-no-name", assemble_to_disk(40, nam=None))
case("cli-name-switch", assemble_to_disk(40, nam=None, extra=["--name", "viaswitch"]))
case("cli-long-name", assemble_to_disk(40, nam="twelve_chars"))
'''


def run_tree(tree):
    tree = os.path.abspath(tree)
    env = dict(os.environ, PYTHONDONTWRITEBYTECODE="1")
    done = subprocess.run([PYTHON, "-c", DRIVER_HEAD + DRIVER_CASES + DRIVER_TAIL, tree, PYTHON],
                          cwd=tree, env=env, capture_output=True, text=True)
    marker = done.stdout.rfind("@@RESULTS@@")
    if done.returncode != 0 or marker < 0:
        print("driver failed for", tree)
        print(done.stdout[-2000:])
        print(done.stderr[-4000:])
        sys.exit(1)
    return json.loads(done.stdout[marker + len("@@RESULTS@@"):])


def main():
    if len(sys.argv) != 3:
        print(__doc__)
        sys.exit(2)
    first, second = run_tree(sys.argv[1]), run_tree(sys.argv[2])
    bad = 0
    if [label for label, _ in first] != [label for label, _ in second]:
        print("case lists differ")
        bad += 1
    for (label, left), (_, right) in zip(first, second):
        if left != right:
            bad += 1
            print("DIFF in case", label)
            print("  A:", json.dumps(left)[:1500])
            print("  B:", json.dumps(right)[:1500])
    print("{} cases compared, {} differ".format(len(first), bad))
    sys.exit(1 if bad or len(first) < 30 else 0)


if __name__ == "__main__":
    main()
