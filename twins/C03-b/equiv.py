#!/usr/bin/env python
"""
Differential check for refactoring C03/b: the address assignment pass and the
displacement pass of Program.translate_statements are now the methods
Program.place_statements() and Program.fix_displacements().

usage: equiv.py <treeA> <treeB>   (exit 0 = every observable result agrees)
"""

SHORT = "BCC BCS BEQ BGE BGT BHI BHS BLE BLO BLS BLT BMI BNE BPL BRA BRN BSR BVC BVS".split()


def build_cases():
    cases = []

    def prog(text, deep=False):
        cases.append({"kind": "prog", "lines": text.split("|"), "deep": deep})

    # every short and long branch, forward and backward, at and around the limits
    for b_index, mnemonic in enumerate(SHORT):
        for fill in [0, 1, 124, 125, 126, 127, 128, 129, 130]:
            if fill in (0, 126, 127, 128) or (fill + b_index) % 3 == 0:
                prog("  ORG $2000|  {} FWD|  RMB {}|FWD NOP|LAST RTS".format(mnemonic, fill))
                prog("  ORG $2000|BACK NOP|  RMB {}|  {} BACK|LAST RTS".format(fill, mnemonic))
                prog("  ORG $2000|  L{} FWD|  RMB {}|FWD NOP|LAST RTS".format(mnemonic, fill))
                prog("  ORG $2000|BACK NOP|  RMB {}|  L{} BACK|LAST RTS".format(fill, mnemonic))
    for fill in [32760, 32763, 32764, 32765, 32766, 32767, 32768, 32769, 40000, 65000]:
        prog("  ORG $0000|  LBRA FWD|  RMB {}|FWD NOP|LAST RTS".format(fill))
        prog("  ORG $0000|BACK NOP|  RMB {}|  LBRA BACK|LAST RTS".format(fill))
        prog("  ORG $0000|  LBEQ FWD|  RMB {}|FWD NOP|LAST RTS".format(fill))
        prog("  ORG $0000|BACK NOP|  RMB {}|  LBSR BACK|LAST RTS".format(fill))
        prog("  ORG $0000|  LEAX FWD,PCR|  RMB {}|FWD NOP|LAST RTS".format(fill))
        prog("  ORG $0000|BACK NOP|  RMB {}|  LDD [BACK,PCR]|LAST RTS".format(fill))
    # PCR operands, several undecided ones between source and target
    for fill in [0, 100, 110, 115, 116, 117, 118, 119, 120, 121, 122, 123, 124, 125, 126, 127, 128, 129, 200]:
        prog("  ORG $4000|TOP LEAX END1,PCR|  LEAY [TOP,PCR]|  RMB {}|  LDD TOP,PCR|  CMPD END1,PCR|  LEAU END1+1,PCR"
             "|END1 RTS|LAST NOP".format(fill), deep=fill in (0, 120))
        prog("  ORG $4000|TOP NOP|  RMB {}|  BRA TOP|  LEAX TOP,PCR|  BNE END1|  STX [END1,PCR]|  RMB {}|END1 RTS".format(
            fill, fill))
    # placement: origins, wrap-around, code before ORG, self reference
    for origin in ["$0000", "$00FE", "$7FF0", "$FF00", "$FFF8", "$FFFE", "$FFFF", "65535", "65536", "$10000"]:
        prog("  ORG {}|A1 BRA A3|A2 LEAX A1,PCR|A3 LBRA A1|A4 FDB 1|A5 JMP A4|A6 RMB 4|A7 BRA A7".format(origin))
    prog("  BRA L|  ORG $1000|L NOP|  ORG $0800|M BRA L|  LEAX M,PCR|  LBRA M")
    prog("L BRA L|M LBRA M|N LEAX N,PCR|O LEAX [O,PCR]")
    prog("  BRA NOWHERE")
    prog("  BRA 3|  NOP|  NOP|  NOP")
    prog("  BRA 30|  NOP")
    prog("  LBRA 30|  NOP")
    prog("  BRA L+1|L NOP")
    prog("E EQU 4|  BRA E|  NOP|  NOP|  NOP|  NOP")
    prog("  RMB 65535|  RMB 2|L BRA L")
    prog("  ORG $FFFF|  NOP|L BRA L")
    prog("L NOP|  LDA L,X")
    prog("L NOP|  LDA L-5")
    prog("L NOP|  LDX #L/0")
    prog("  LEAX L+70000,PCR|L NOP")
    prog("")
    source = ("  NAM LOOPS\n  ORG $0E00\nSTART LEAX DATA,PCR\nAGAIN LDA ,X+\n  BEQ OUT\n  LBSR PRINT\n  BRA AGAIN\nOUT RTS\n"
              "PRINT JMP [$A002]\n  RMB 125\nDATA FCC \"HELLO\"\n  FCB 0\n  BRA START\n  END START\n")
    cases.append({"kind": "cli", "args": ["in.asm", "--print", "--symbols", "--to_bin", "out.bin"], "files": {"in.asm": source}})
    cases.append({"kind": "cli", "args": ["in.asm", "--print", "--symbols"],
                  "files": {"in.asm": source.replace("RMB 125", "RMB 126")}})
    cases.append({"kind": "cli", "args": ["in.asm", "--print"], "files": {"in.asm": "  ORG $FFFF\n  NOP\nL BRA L\n"}})
    cases.append({"kind": "cli", "args": ["in.asm", "--print"], "files": {"in.asm": "L NOP\n  LDA L,X\n"}})
    # the two new passes are also what a caller of the library gets when it drives the passes by hand
    setup = ("program = Program()\n"
             "program.statements = Program.parse(['  ORG $100\\n', 'A BRA B\\n', '  RMB 3\\n', 'B BRA A\\n'])\n"
             "program.translate_statements()\n")
    cases.append({"kind": "eval", "setup": setup,
                  "expr": "[program.get_binary_array(), program.get_statements(), program.get_symbol_table(), program.origin]"})
    return cases


# ---------------------------------------------------------------------------
# Common differential harness: one worker subprocess per tree, same cases.
# ---------------------------------------------------------------------------

WORKER = r'''
import sys, os, json, io, tempfile, subprocess, contextlib
tree = os.path.abspath(sys.argv[1])
sys.path.insert(0, tree)
os.chdir(tree)

from cocoasm.program import Program
from cocoasm.statement import Statement
from cocoasm.instruction import INSTRUCTIONS, CodePackage, Instruction, Mode
from cocoasm.operands import Operand
from cocoasm import operands as operands_module
from cocoasm import values as values_module
from cocoasm.values import Value, NumericValue, AddressValue, NoneValue


def instr(mnemonic):
    if mnemonic is None:
        return None
    return next(op for op in INSTRUCTIONS if op.mnemonic == mnemonic)


def dump(obj, depth=0):
    if depth > 6:
        return "<deep>"
    if obj is None or isinstance(obj, (bool, int, str, float)):
        return obj
    if isinstance(obj, (list, tuple)):
        return [dump(x, depth + 1) for x in obj]
    if isinstance(obj, dict):
        return {str(k): dump(v, depth + 1) for k, v in obj.items()}
    if isinstance(obj, Value):
        out = {"class": type(obj).__name__}
        for name in ("type", "int", "size_hint", "explict_addressing_mode", "negative", "resolved",
                     "original_string", "operation", "hex_array", "original_value"):
            if hasattr(obj, name):
                out[name] = dump(getattr(obj, name), depth + 1)
        for name in ("left", "right", "value"):
            if hasattr(obj, name):
                out[name] = dump(getattr(obj, name), depth + 1)
        for name in ("hex", "hex_len", "byte_len", "is_8_bit", "is_16_bit", "high_byte", "low_byte", "ascii"):
            out[name + "()"] = attempt(getattr(obj, name))
        if hasattr(obj, "is_4_bit"):
            out["is_4_bit()"] = attempt(obj.is_4_bit)
            out["hex(2)"] = attempt(lambda: obj.hex(size=2))
            out["hex(4)"] = attempt(lambda: obj.hex(size=4))
            out["get_negative()"] = attempt(obj.get_negative)
        return out
    if isinstance(obj, CodePackage):
        return {"class": "CodePackage",
                "op_code": dump(obj.op_code, depth + 1), "address": dump(obj.address, depth + 1),
                "post_byte": dump(obj.post_byte, depth + 1), "additional": dump(obj.additional, depth + 1),
                "size": obj.size, "max_size": obj.max_size,
                "additional_needs_resolution": obj.additional_needs_resolution,
                "post_byte_choices": dump(obj.post_byte_choices, depth + 1)}
    if isinstance(obj, Operand):
        return {"class": type(obj).__name__, "type": str(obj.type), "operand_string": obj.operand_string,
                "requires_resolution": obj.requires_resolution, "operation": obj.operation,
                "instruction": obj.instruction.mnemonic if obj.instruction else None,
                "value": dump(obj.value, depth + 1), "left": dump(obj.left, depth + 1),
                "right": dump(obj.right, depth + 1)}
    if isinstance(obj, Statement):
        return {"class": "Statement", "label": obj.label, "mnemonic": obj.mnemonic, "comment": obj.comment,
                "is_empty": obj.is_empty, "is_comment_only": obj.is_comment_only,
                "fixed_size": obj.fixed_size, "pcr_size_hint": obj.pcr_size_hint,
                "instruction": obj.instruction.mnemonic if obj.instruction else None,
                "operand": dump(obj.operand, depth + 1), "original_operand": dump(obj.original_operand, depth + 1),
                "code_pkg": dump(obj.code_pkg, depth + 1),
                "str": attempt(lambda: str(obj))}
    if isinstance(obj, BaseException):
        return describe_error(obj)
    if hasattr(obj, "name") and hasattr(obj, "value") and type(obj).__module__.startswith("cocoasm"):
        return str(obj)
    return repr(obj)


def describe_error(error):
    out = {"exception": type(error).__name__, "str": str(error), "args": dump(list(error.args), 3)}
    if hasattr(error, "value"):
        out["value"] = dump(error.value, 3)
    if hasattr(error, "statement"):
        statement = error.statement
        if isinstance(statement, Statement):
            out["statement"] = attempt(lambda: str(statement))
            out["statement_label"] = statement.label
            out["statement_mnemonic"] = statement.mnemonic
        else:
            out["statement"] = dump(statement, 3)
    return out


def attempt(function):
    try:
        return dump(function(), 3)
    except BaseException as error:
        return {"raised": describe_error(error)}


def run_prog(case):
    program = Program()
    out = {}
    # source lines come from readlines(), so they end in a newline unless the case says otherwise
    lines = case["lines"] if case.get("raw") else [line if line.endswith("\n") else line + "\n" for line in case["lines"]]
    try:
        program.process(lines)
        out["process"] = "ok"
    except BaseException as error:
        out["process"] = describe_error(error)
    out["binary"] = attempt(program.get_binary_array)
    out["listing"] = attempt(program.get_statements)
    out["symbols"] = attempt(program.get_symbol_table)
    out["origin"] = dump(program.origin)
    out["name"] = dump(program.name)
    out["symbol_table"] = attempt(lambda: {k: v for k, v in program.symbol_table.items()})
    if case.get("deep"):
        out["statements"] = attempt(lambda: list(program.statements))
    return out


def run_cli(case):
    tool = case.get("tool", "assembler.py")
    with tempfile.TemporaryDirectory() as work:
        for name, content in case.get("files", {}).items():
            path = os.path.join(work, name)
            if isinstance(content, list):
                with open(path, "wb") as handle:
                    handle.write(bytes(content))
            else:
                with open(path, "w") as handle:
                    handle.write(content)
        env = dict(os.environ)
        env["PYTHONPATH"] = tree
        env["PYTHONDONTWRITEBYTECODE"] = "1"
        env["COLUMNS"] = "80"
        done = subprocess.run([sys.executable, os.path.join(tree, tool)] + case["args"], cwd=work, env=env,
                              capture_output=True, text=True)
        produced = {}
        for name in sorted(os.listdir(work)):
            with open(os.path.join(work, name), "rb") as handle:
                produced[name] = handle.read().hex()
        stderr_lines = done.stderr.strip().splitlines()
        return {"rc": done.returncode, "stdout": done.stdout.replace(tree, "<tree>"),
                "stderr_tail": stderr_lines[-1].replace(tree, "<tree>") if stderr_lines else "",
                "stderr_is_traceback": done.stderr.startswith("Traceback"),
                "files": produced}


def run_operand(case):
    out = {}
    instruction = instr(case["mnemonic"])
    table = {}
    for name, spec in case.get("symbols", {}).items():
        kind, number = spec
        table[name] = AddressValue(number) if kind == "addr" else NumericValue(number)
    try:
        operand = Operand.create_from_str(case["operand"], instruction)
    except BaseException as error:
        return {"create": describe_error(error)}
    out["create"] = dump(operand)
    if case.get("resolve", True):
        try:
            operand = operand.resolve_symbols(table)
            out["resolve"] = dump(operand)
        except BaseException as error:
            out["resolve"] = describe_error(error)
            return out
    try:
        out["translate"] = dump(operand.translate())
        out["after_translate"] = dump(operand)
    except BaseException as error:
        out["translate"] = describe_error(error)
    return out


def run_value(case):
    try:
        value = Value.create_from_str(case["text"], instr(case.get("mnemonic")), case.get("default_mode_extended", True))
    except BaseException as error:
        return {"create": describe_error(error)}
    out = {"create": dump(value)}
    if "symbols" in case:
        table = {}
        for name, spec in case["symbols"].items():
            kind, number = spec
            table[name] = AddressValue(number) if kind == "addr" else NumericValue(number)
        try:
            out["resolve"] = dump(value.resolve(table))
            out["after_resolve"] = dump(value)
        except BaseException as error:
            out["resolve"] = describe_error(error)
    return out


def run_statement(case):
    line = case["line"] if case.get("raw") or case["line"].endswith("\n") else case["line"] + "\n"
    try:
        statement = Statement(line)
    except BaseException as error:
        return {"parse": describe_error(error)}
    return {"parse": dump(statement)}


def run_eval(case):
    scope = dict(globals())
    try:
        exec(case.get("setup", ""), scope)
        return {"result": dump(eval(case["expr"], scope))}
    except BaseException as error:
        return {"raised": describe_error(error)}


RUNNERS = {"prog": run_prog, "cli": run_cli, "operand": run_operand, "value": run_value,
           "statement": run_statement, "eval": run_eval}

cases = json.load(sys.stdin)
results = []
for case in cases:
    captured = io.StringIO()
    with contextlib.redirect_stdout(captured):
        try:
            result = RUNNERS[case["kind"]](case)
        except BaseException as error:
            result = {"harness_error": describe_error(error)}
    results.append({"result": result, "printed": captured.getvalue()})
sys.__stdout__.write(json.dumps(results, sort_keys=True))
'''


def run_tree(tree, cases):
    import json
    import os
    import subprocess
    import sys
    env = dict(os.environ)
    env.pop("PYTHONPATH", None)
    env["PYTHONDONTWRITEBYTECODE"] = "1"
    done = subprocess.run([sys.executable, "-c", WORKER, tree], input=json.dumps(cases), cwd=tree, env=env,
                          capture_output=True, text=True)
    if done.returncode != 0:
        print("worker failed for", tree)
        print(done.stderr)
        sys.exit(1)
    return json.loads(done.stdout)


def main():
    import json
    import os
    import sys
    if len(sys.argv) != 3:
        print("usage: equiv.py <treeA> <treeB>")
        sys.exit(2)
    tree_a, tree_b = (os.path.abspath(p) for p in sys.argv[1:3])
    cases = build_cases()
    results_a = run_tree(tree_a, cases)
    results_b = run_tree(tree_b, cases)
    differences = 0
    errors = 0
    for case, a, b in zip(cases, results_a, results_b):
        text = json.dumps(a, sort_keys=True)
        if '"exception"' in text:
            errors += 1
        if "harness_error" in a["result"] or "harness_error" in b["result"]:
            differences += 1
            print("HARNESS ERROR in case", json.dumps(case)[:200])
            print("  A:", json.dumps(a)[:600])
            print("  B:", json.dumps(b)[:600])
        elif a != b:
            differences += 1
            print("DIFFERENCE in case", json.dumps(case)[:300])
            print("  A:", json.dumps(a, sort_keys=True)[:1500])
            print("  B:", json.dumps(b, sort_keys=True)[:1500])
    print("{} cases ({} involving an error/diagnostic), {} differences".format(len(cases), errors, differences))
    sys.exit(1 if differences or len(results_a) != len(cases) or len(results_b) != len(cases) else 0)


if __name__ == "__main__":
    main()
