#!/usr/bin/env python
"""
Differential equivalence demonstration for a behaviour-preserving refactoring.

usage: equiv.py <treeA> <treeB>

The same driver program is run once per tree in a separate subprocess (cwd =
tree, tree first on sys.path).  The driver exercises the library and both
command line tools over a fixed, deterministic set of cases and prints one
JSON document mapping case name -> observable result (return value, buffer
contents, exception type + message, stdout, exit status, files produced).
This script compares the two documents case by case and exits 0 if they are
identical, 1 otherwise.
"""
import json
import os
import subprocess
import sys

SECTIONS = "virtual_file,cassette,container,disk_roundtrip,cli_smoke"

DRIVER = r'''
import sys, os, json, hashlib, tempfile, shutil, subprocess, random

TREE = os.getcwd()
sys.path.insert(0, TREE)
SECTIONS = sys.argv[1].split(",")

from cocoasm.values import NumericValue, NoneValue, Value
from cocoasm.virtualfiles.coco_file import CoCoFile
from cocoasm.virtualfiles.cassette import CassetteFile
from cocoasm.virtualfiles.binary import BinaryFile
from cocoasm.virtualfiles import disk as diskmod
from cocoasm.virtualfiles.disk import (
    DiskFile, DiskConstants, MLPreamble, BasicPreamble, ASCIIPreamble, Postamble
)
from cocoasm.virtualfiles.virtual_file import VirtualFile, VirtualFileType
from cocoasm.virtualfiles.source_file import SourceFile, SourceFileType
from cocoasm.virtualfiles.virtual_file_container import VirtualFileContainer

RESULTS = {}
TMP_ROOT = tempfile.mkdtemp(prefix="equiv_")


def sha(seq):
    h = hashlib.sha256()
    h.update(repr(list(seq)).encode("utf-8"))
    return h.hexdigest()


def norm(val):
    if isinstance(val, CoCoFile):
        d = {"__cocofile__": True}
        for field in val._fields:
            d[field] = norm(getattr(val, field))
        try:
            d["__str__"] = str(val)
        except Exception as error:
            d["__str__"] = "EXC " + type(error).__name__ + ": " + str(error)
        return d
    if isinstance(val, Value):
        out = {"__value__": type(val).__name__, "int": val.int, "size_hint": val.size_hint,
               "negative": val.negative}
        try:
            out["hex"] = val.hex()
        except Exception as error:
            out["hex"] = "EXC " + type(error).__name__
        return out
    if isinstance(val, (bytes, bytearray)):
        return {"__bytes__": norm(list(val))}
    if isinstance(val, (list, tuple)):
        if len(val) > 600 and all(isinstance(x, int) for x in val):
            return {"__long__": len(val), "sha": sha(val), "head": list(val[:16]), "tail": list(val[-16:])}
        return [norm(x) for x in val]
    if isinstance(val, dict):
        return {str(k): norm(v) for k, v in val.items()}
    if isinstance(val, (int, str, bool, float)) or val is None:
        return val
    if hasattr(val, "name") and hasattr(val, "value"):
        return "ENUM " + str(val)
    return "OBJ " + type(val).__name__


def rec(name, fn):
    assert name not in RESULTS, name
    try:
        RESULTS[name] = {"ok": norm(fn())}
    except SystemExit as error:
        RESULTS[name] = {"exit": norm(error.code)}
    except BaseException as error:
        RESULTS[name] = {"exc": type(error).__name__, "msg": str(error).replace(TMP_ROOT, "<TMP>")}


def rec_state(name, obj, fn):
    """Record the result of fn() and the container buffer afterwards (even on error)."""
    def wrapped():
        try:
            value = fn()
            return {"ret": value, "buffer": list(obj.buffer)}
        except Exception as error:
            return {"raised": type(error).__name__, "msg": str(error), "buffer": list(obj.buffer)}
    rec(name, wrapped)


def pattern(kind, length, seed=0):
    rnd = random.Random(1000 * seed + length)
    if kind == "rand":
        return [rnd.randrange(256) for _ in range(length)]
    if kind == "u":
        return [0x55] * length
    if kind == "hdr":
        return ([0x55, 0x3C, 0x00] * (length // 3 + 1))[:length]
    if kind == "dat":
        return ([0x55, 0x3C, 0x01] * (length // 3 + 1))[:length]
    if kind == "eof":
        return ([0x55, 0x3C, 0xFF] * (length // 3 + 1))[:length]
    if kind == "zero":
        return [0x00] * length
    if kind == "ff":
        return [0xFF] * length
    if kind == "text":
        return [0x20 + (i % 0x5F) for i in range(length)]
    raise ValueError(kind)


def mkfile(name="TEST", ext="BIN", ftype=2, dtype=0, load=0x0E00, execa=0x0E00, data=(), **kw):
    def val(x):
        if x is None:
            return NoneValue()
        if isinstance(x, Value):
            return x
        return NumericValue(x)
    return CoCoFile(name=name, extension=ext, type=val(ftype), data_type=val(dtype),
                    load_addr=val(load), exec_addr=val(execa), data=list(data), **kw)


NAMES = ["", "A", "HELLO", "ABCDEFGH", "ABCDEFGHI", "ABCDEFGHIJKL", "lower", "a.b", "N~M!{}", "X1"]
CAS_LENGTHS = [0, 1, 2, 254, 255, 256, 509, 510, 511, 765, 766, 1020, 1021, 4000]
ADDRS = [0x0000, 0x00FF, 0x0100, 0x0E00, 0x3F00, 0x7FFF, 0x8000, 0xFFFF, None]


# --------------------------------------------------------------------------
def section_cassette():
    # whole-tape writer + reader round trips
    case = 0
    for idx, length in enumerate(CAS_LENGTHS):
        for kind in ("rand", "hdr", "dat", "eof", "u"):
            if kind != "rand" and length not in (0, 1, 254, 255, 256, 510, 766):
                continue
            case += 1
            name = NAMES[case % len(NAMES)]
            ftype = case % 4
            dtype = 0xFF if case % 3 == 0 else 0x00
            load = ADDRS[case % len(ADDRS)]
            execa = ADDRS[(case * 5 + 1) % len(ADDRS)]
            coco = mkfile(name=name, ftype=ftype, dtype=dtype, load=load, execa=execa,
                          data=pattern(kind, length, seed=case))

            def roundtrip(coco=coco):
                cas = CassetteFile()
                cas.add_files([coco])
                written = list(cas.get_buffer())
                out = {"written": written}
                try:
                    out["listed"] = CassetteFile(buffer=list(written)).list_files()
                except Exception as error:
                    out["listed_exc"] = type(error).__name__ + ": " + str(error)
                return out
            rec("cas/rt/{}/{}/{}".format(case, kind, length), roundtrip)

    # multi-file tapes
    multi = [
        [],
        [("A", 0), ("B", 0)],
        [("ONE", 1), ("TWO", 255), ("THREE", 256)],
        [("X", 510), ("Y", 0), ("Z", 511), ("W", 3)],
        [("SAME", 10), ("SAME", 20), ("same", 30)],
        [("LONGLONGNAME", 254), ("", 7)],
    ]
    for idx, spec in enumerate(multi):
        files = [mkfile(name=n, ftype=(i + idx) % 4, dtype=0xFF * (i % 2), load=0x1000 * i, execa=0x1000 * i + 5,
                        data=pattern("rand", ln, seed=idx * 10 + i)) for i, (n, ln) in enumerate(spec)]

        def multi_rt(files=files):
            cas = CassetteFile()
            cas.add_files(files)
            written = list(cas.get_buffer())
            reader = CassetteFile(buffer=list(written))
            out = {"written": written}
            for label, filt in (("all", None), ("empty", []), ("same", ["SAME    "]), ("one", ["ONE     ", "Z       "])):
                try:
                    out["listed_" + label] = CassetteFile(buffer=list(written)).list_files(filenames=filt)
                except Exception as error:
                    out["listed_" + label] = type(error).__name__ + ": " + str(error)
            return out
        rec("cas/multi/{}".format(idx), multi_rt)

    # incremental adds on the same object (history)
    def incremental():
        cas = CassetteFile()
        snaps = []
        for i, length in enumerate([0, 255, 1, 256, 600]):
            cas.add_file(mkfile(name="F{}".format(i), data=pattern("rand", length, seed=i)))
            snaps.append(sha(cas.get_buffer()))
            snaps.append(len(cas.get_buffer()))
        snaps.append(CassetteFile(buffer=list(cas.get_buffer())).list_files())
        return snaps
    rec("cas/incremental", incremental)

    # writer units
    for name in NAMES + ["\x00\x00AB", "AB CD", "été", "€"]:
        cas = CassetteFile()
        rec_state("cas/append_name/{!r}".format(name), cas, lambda cas=cas, name=name: cas.append_name(name))
    for bad in (None, 5, ["A", "B"], b"AB"):
        cas = CassetteFile()
        rec_state("cas/append_name_bad/{!r}".format(bad), cas, lambda cas=cas, bad=bad: cas.append_name(bad))

    case = 0
    for name in ("", "HDR", "ABCDEFGHIJ"):
        for ftype in (0, 1, 2, 3):
            for load, execa in ((0, 0), (0x0E00, 0x0E10), (0xFFFF, 0xFFFF), (None, None), (0xFF, 0x100)):
                case += 1
                dtype = 0xFF if case % 2 else 0x00
                cas = CassetteFile()
                coco = mkfile(name=name, ftype=ftype, dtype=dtype, load=load, execa=execa, data=[1, 2, 3])
                rec_state("cas/append_header/{}".format(case), cas, lambda cas=cas, coco=coco: cas.append_header(coco))
    cas = CassetteFile()
    rec_state("cas/append_header/bad_type", cas,
              lambda cas=cas: cas.append_header(CoCoFile(name="X", type=None, data_type=NumericValue(0))))
    cas = CassetteFile()
    rec_state("cas/append_header/bad_name", cas,
              lambda cas=cas: cas.append_header(CoCoFile(name=None, type=NumericValue(2), data_type=NumericValue(0))))
    cas = CassetteFile()
    rec_state("cas/append_header/size_hint", cas,
              lambda cas=cas: cas.append_header(mkfile(load=NumericValue(0x1234, size_hint=2),
                                                       execa=NumericValue("$0E"))))

    for length in CAS_LENGTHS:
        for gaps in (False, True):
            for kind in ("rand", "ff"):
                cas = CassetteFile()
                data = pattern(kind, length, seed=3)
                rec_state("cas/append_data_blocks/{}/{}/{}".format(length, gaps, kind), cas,
                          lambda cas=cas, data=data, gaps=gaps: cas.append_data_blocks(data, gaps=gaps))
    for label, data in (("bytes", bytes(range(200)) * 3), ("bytearray", bytearray(b"\x55\x3c\x01" * 100)),
                        ("tuple", tuple(range(256))), ("big", [300, 1, 2]), ("str", "ABC"), ("none", None)):
        cas = CassetteFile()
        rec_state("cas/append_data_blocks_type/{}".format(label), cas,
                  lambda cas=cas, data=data: cas.append_data_blocks(data))
    for meth in ("append_eof", "append_leader", "append_blank"):
        cas = CassetteFile(buffer=[1, 2, 3])
        rec_state("cas/{}".format(meth), cas, lambda cas=cas, meth=meth: getattr(cas, meth)())
        cas = CassetteFile()
        rec_state("cas/{}/twice".format(meth), cas,
                  lambda cas=cas, meth=meth: (getattr(cas, meth)(), getattr(cas, meth)()))
    cas = CassetteFile()
    rec_state("cas/add_file/basic", cas, lambda cas=cas: cas.add_file(mkfile(data=[9, 8, 7])))
    cas = CassetteFile()
    rec_state("cas/add_file/empty", cas, lambda cas=cas: cas.add_file(mkfile(name="", data=[])))

    # reader units: skip_to_sequence
    base = [0x00, 0x55, 0x55, 0x3C, 0x00, 0x55, 0x3C, 0x01, 0x55, 0x3C, 0xFF, 0x55, 0x3C]
    for seq in ([0x55, 0x3C], [0x55, 0x3C, 0x00], [0x55, 0x3C, 0x01], [0x55, 0x3C, 0xFF], [0x3C], [0x99], [],
                [0x55, 0x3C, 0x55, 0x3C], base, base + [1]):
        for start in (0, 1, 2, 3, 6, 9, 11, 12, 13, 14, 20, -1, -3):
            cas = CassetteFile(buffer=list(base))
            rec("cas/skip/{}/{}".format(seq, start), lambda cas=cas, seq=seq, start=start: cas.skip_to_sequence(seq, start=start))
    cas = CassetteFile()
    rec("cas/skip/emptybuf", lambda: cas.skip_to_sequence([0x55, 0x3C]))
    rec("cas/skip/emptybuf_emptyseq", lambda: CassetteFile().skip_to_sequence([]))
    rec("cas/skip/default_start", lambda: CassetteFile(buffer=list(base)).skip_to_sequence([0x3C, 0x01]))
    rec("cas/skip/bytes_buffer", lambda: CassetteFile(buffer=bytes(base)).skip_to_sequence([0x55, 0x3C]))
    rec("cas/skip/bytes_both", lambda: CassetteFile(buffer=bytes(base)).skip_to_sequence(bytes([0x55, 0x3C]), start=3))
    rec("cas/skip/tuple_seq", lambda: CassetteFile(buffer=list(base)).skip_to_sequence((0x55, 0x3C)))

    # reader units: read_coco_file_name
    for label, buf, ptr in (("ok", [65, 66, 67, 68, 69, 70, 71, 72, 73], 0), ("ok1", [65, 66, 67, 68, 69, 70, 71, 72, 73], 1),
                            ("short", [65, 66, 67], 0), ("short2", [65] * 9, 2), ("nonutf", [0xFF] * 8, 0),
                            ("nul", [0] * 8, 0), ("pad", [65, 32, 32, 32, 32, 32, 32, 32], 0), ("neg", [65 + i for i in range(10)], -9),
                            ("big", [300] * 8, 0)):
        rec("cas/read_name/" + label, lambda buf=buf, ptr=ptr: CassetteFile(buffer=list(buf)).read_coco_file_name(ptr))

    # reader: truncation sweep over a valid two-file tape
    cas = CassetteFile()
    cas.add_files([mkfile(name="TRUNC", data=pattern("rand", 300, seed=77)), mkfile(name="SECOND", ftype=0, dtype=0xFF, data=[1, 2, 3])])
    tape = list(cas.get_buffer())
    interesting = set(range(0, len(tape) + 1, 37))
    for anchor in (128, 256, 277, 533, 792, 845, len(tape)):
        interesting.update(range(max(0, anchor - 8), min(len(tape), anchor + 8) + 1))
    for cut in sorted(interesting):
        rec("cas/trunc/{}".format(cut), lambda cut=cut: CassetteFile(buffer=list(tape[:cut])).list_files())

    # reader: hand built streams (arbitrary leaders, gaps, odd block types)
    def hdr(name, ftype=2, dtype=0, gaps=0, load=0x1234, execa=0x5678, length=0x0F):
        body = [0x00, length] + [ord(c) for c in name.ljust(8)[:8]] + [ftype, dtype, gaps, load >> 8, load & 255, execa >> 8, execa & 255]
        return [0x55, 0x3C] + body + [sum(body) & 255, 0x55]

    def blk(data, btype=0x01):
        body = [btype, len(data)] + list(data)
        return [0x55, 0x3C] + body + [sum(body) & 255, 0x55]
    eof = [0x55, 0x3C, 0xFF, 0x00, 0xFF, 0x55]
    streams = {
        "noleader": hdr("NOLEAD") + blk([1, 2, 3]) + eof,
        "leader1": [0x55] + hdr("LEAD1") + [0x55] + blk([1]) + [0x55] + eof,
        "leader1000": [0x55] * 1000 + hdr("L1000") + [0x00] * 300 + [0x55] * 700 + blk(list(range(255))) + blk([7] * 10) + eof,
        "gaps": [0x55] * 128 + hdr("GAPPY", gaps=0xFF) + [0x55] * 128 + blk([1] * 255) + [0x00] * 50 + [0x55] * 128 + blk([2] * 255) + [0x55] * 128 + blk([3]) + [0x55] * 128 + eof,
        "two": hdr("FIRST", ftype=0, dtype=0xFF) + blk([65, 66]) + eof + [0x55] * 20 + hdr("SECOND", ftype=1) + blk([0x55, 0x3C, 0xFF]) + eof,
        "nodata": hdr("EMPTY") + eof,
        "zeroblock": hdr("ZBLK") + blk([]) + eof,
        "zeroblock_then": hdr("ZBLK2") + blk([]) + blk([5]) + eof,
        "noeof": hdr("NOEOF") + blk([1, 2, 3]),
        "unknown_block": hdr("UNK") + blk([1, 2, 3], btype=0x02) + eof,
        "unknown_block7f": hdr("UNK") + blk([1], btype=0x7F) + eof,
        "hdr_in_data": hdr("HID") + blk([0x55, 0x3C, 0x00, 0x0F] + [65] * 20) + eof,
        "eof_in_data": hdr("EID") + blk([0x55, 0x3C, 0xFF, 0x00, 0xFF, 0x55]) + eof,
        "overrun": hdr("OVER") + [0x55, 0x3C, 0x01, 0xF0, 1, 2, 3],
        "overrun_eof_later": hdr("OVER2") + [0x55, 0x3C, 0x01, 0x08, 1, 2, 3] + eof,
        "hdr_only": hdr("HONLY"),
        "hdr_short": hdr("HSHORT")[:12],
        "hdr_len_other": hdr("HLEN", length=0x20) + blk([4, 4]) + eof,
        "garbage": pattern("rand", 500, seed=5),
        "only55": [0x55] * 300,
        "empty": [],
        "type3": hdr("TXT", ftype=3, dtype=0xFF) + blk([72, 73]) + eof,
        "type_ff": hdr("TFF", ftype=0xFF, dtype=0x55) + blk([72, 73]) + eof,
        "nonutf_name": [0x55, 0x3C, 0x00, 0x0F] + [0xC3, 0x28] + [0x20] * 6 + [2, 0, 0, 0, 0, 0, 0, 0, 0x55] + blk([1]) + eof,
        "trailing": hdr("TRAIL") + blk([1]) + eof + [0x55, 0x3C],
        "trailing_hdr_marker": hdr("TRAIL2") + blk([1]) + eof + [0x55, 0x3C, 0x00],
        "three": hdr("A") + blk([1]) + eof + hdr("B") + blk([2]) + eof + hdr("C") + blk([3]) + eof,
        "second_bad": hdr("A") + blk([1]) + eof + hdr("B") + blk([2], btype=9) + eof,
        "second_empty": hdr("A") + blk([1]) + eof + hdr("B") + eof + hdr("C") + blk([3]) + eof,
    }
    for label, stream in streams.items():
        rec("cas/stream/" + label, lambda stream=stream: CassetteFile(buffer=list(stream)).list_files())
        rec("cas/stream_read_file/" + label, lambda stream=stream: CassetteFile(buffer=list(stream)).read_file(0))
        rec("cas/stream_read_blocks/" + label, lambda stream=stream: CassetteFile(buffer=list(stream)).read_blocks(21))
        rec("cas/stream_bytes/" + label, lambda stream=stream: CassetteFile(buffer=bytes([b & 255 for b in stream])).list_files())
    rec("cas/stream_filter/lower", lambda: CassetteFile(buffer=list(streams["three"])).list_files(filenames=["a       "]))
    rec("cas/stream_filter/upper", lambda: CassetteFile(buffer=list(streams["three"])).list_files(filenames=["B       ", "C       "]))
    rec("cas/stream_filter/str", lambda: CassetteFile(buffer=list(streams["three"])).list_files(filenames="B       "))
    rec("cas/read_file/ptr_mid", lambda: CassetteFile(buffer=list(streams["three"])).read_file(10))
    rec("cas/read_file/ptr_end", lambda: CassetteFile(buffer=list(streams["three"])).read_file(len(streams["three"])))
    rec("cas/read_blocks/ptr0", lambda: CassetteFile(buffer=list(streams["three"])).read_blocks(0))
    rec("cas/original_buffer", lambda: CassetteFile(buffer=list(streams["two"])).original_buffer)


# --------------------------------------------------------------------------
def section_container():
    for buf in ([], [1], [1, 2], [1, 2, 3], [0xFF, 0xFF, 0, 0, 0x12, 0x34], [300, 2], ["1", "2"], [1.0, 2.0]):
        for ptr in (-4, -2, -1, 0, 1, 2, 3, 4, 5, 6, 7):
            rec("cont/read_word/{}/{}".format(buf, ptr), lambda buf=buf, ptr=ptr: CassetteFile(buffer=list(buf)).read_word(ptr))
    rec("cont/read_word/bytes", lambda: CassetteFile(buffer=bytes([1, 2, 3])).read_word(1))
    rec("cont/read_word/disk", lambda: [DiskFile(buffer=[0x12, 0x34, 0x56]).read_word(p) for p in (0, 1)])
    rec("cont/init/none", lambda: (CassetteFile().buffer, CassetteFile().original_buffer))
    rec("cont/init/empty", lambda: (CassetteFile(buffer=[]).buffer, CassetteFile(buffer=[]).original_buffer))

    def alias():
        src = [1, 2, 3]
        cas = CassetteFile(buffer=src)
        cas.append_eof()
        return src, cas.buffer, cas.original_buffer, cas.get_buffer() is src
    rec("cont/init/alias", alias)
    rec("cont/binary", lambda: (lambda b: (b.add_files([mkfile(data=[1, 2]), mkfile(data=[3])]), b.get_buffer(), b.list_files()))(BinaryFile()))
    rec("cont/abstract", lambda: (VirtualFileContainer().add_file(None), VirtualFileContainer().list_files(), VirtualFileContainer().add_files([1, 2])))


# --------------------------------------------------------------------------
def section_cocofile():
    case = 0
    for ftype in (0, 1, 2, 3, 4, 0xFF, None):
        for dtype in (0, 0xFF, 1, None):
            for gaps in (0, 0xFF, None):
                for ignore in (False, True):
                    case += 1
                    coco = mkfile(name="N{}".format(case), ext="E", ftype=ftype, dtype=dtype, load=ADDRS[case % 9],
                                  execa=ADDRS[(case + 3) % 9], data=[0] * (case % 5), ignore_gaps=ignore,
                                  gaps=NoneValue() if gaps is None else NumericValue(gaps))
                    rec("coco/str/{}".format(case), lambda coco=coco: str(coco))
    rec("coco/default", lambda: (str(CoCoFile()), CoCoFile()))


# --------------------------------------------------------------------------
def image_summary(buf):
    buf = list(buf)
    out = {"len": len(buf), "sha": sha(buf)}
    if len(buf) >= DiskConstants.IMAGE_SIZE:
        out["fat"] = buf[DiskConstants.FAT_OFFSET:DiskConstants.FAT_OFFSET + 256]
        directory = buf[DiskConstants.DIR_OFFSET:DiskConstants.DIR_OFFSET + 72 * 32]
        out["dir_sha"] = sha(directory)
        out["dir_used"] = [directory[i * 32:i * 32 + 32] for i in range(72) if directory[i * 32] not in (0x00, 0xFF)]
        gran = {}
        for g in range(68):
            start = DiskFile.seek_granule(g)
            chunk = buf[start:start + 2304]
            if any(b != 0xFF for b in chunk):
                gran[g] = sha(chunk)
        out["granules"] = gran
        rest = buf[:78336 - 0] if False else None
    return out


def preambles():
    ml = MLPreamble()
    ml.data_length = NumericValue(0x1234)
    ml.load_addr = NumericValue(0x0E00)
    bas = BasicPreamble()
    bas.data_length = NumericValue(0x00FF)
    asc = ASCIIPreamble()
    post = Postamble()
    post.exec_addr = NumericValue(0xABCD)
    return ml, bas, asc, post


DISK_LENGTHS = sorted(set(
    [0, 1, 2, 5, 10, 100, 245, 246, 247, 250, 251, 252, 253, 254, 255, 256, 257, 258, 261, 500, 512, 1000] +
    [2304 * k + d for k in (1, 2, 3) for d in (-11, -10, -9, -6, -5, -4, -3, -1, 0, 1, 3, 5, 10)] +
    [2304 * 9, 2304 * 9 - 10, 20000, 65535, 65530]
))


def section_disk_units():
    ml, bas, asc, post = preambles()
    combos = (("ml", ml, post), ("bas", bas, None), ("asc", asc, None), ("mlnopost", ml, None), ("ascpost", asc, post))
    for length in DISK_LENGTHS:
        data = [0] * length
        for label, pre, pst in combos:
            rec("dsk/calc/{}/{}".format(length, label), lambda data=data, pre=pre, pst=pst: (
                DiskFile.calculate_granules_needed(data, pre, pst),
                DiskFile.calculate_last_sector_bytes_used(data, pre, pst),
                DiskFile.calculate_last_granules_sectors_used(data, pre, pst),
            ))
    rec("dsk/calc/sectors", lambda: [DiskFile.calculate_sectors_needed(n) for n in
                                     list(range(0, 520)) + [2303, 2304, 2305, 65535, -1, -256, -257, 255.5]])
    rec("dsk/calc/nopreamble", lambda: DiskFile.calculate_granules_needed([1], None, None))
    rec("dsk/seek", lambda: [DiskFile.seek_granule(g) for g in list(range(-2, 72)) + [100, 255]])
    rec("dsk/seek_inst", lambda: [DiskFile(buffer=[0]).seek_granule(g) for g in (0, 33, 34, 67)])

    blank = DiskFile()
    rec("dsk/blank", lambda: image_summary(blank.get_buffer()))
    rec("dsk/blank/fill_order", lambda: (blank.granule_fill_order, DiskConstants.GRANULE_FILL_ORDER, sorted(DiskConstants.GRANULE_FILL_ORDER)))
    rec("dsk/consts", lambda: {k: getattr(DiskConstants, k) for k in dir(DiskConstants) if k.isupper()})
    for g in (-1, 0, 1, 33, 34, 67, 68, 100):
        rec("dsk/granule_in_use/blank/{}".format(g), lambda g=g: blank.granule_in_use(g))
    for e in (-1, 0, 1, 70, 71, 72, 100):
        rec("dsk/dir_in_use/blank/{}".format(e), lambda e=e: blank.directory_entry_in_use(e))
    rec("dsk/find_empty/blank", lambda: (blank.find_empty_granule(), blank.find_empty_directory_entry()))

    def marked():
        d = DiskFile()
        out = []
        for i in range(70):
            try:
                g = d.find_empty_granule()
                out.append(g)
                d.buffer[DiskConstants.FAT_OFFSET + g] = 0xC1 if i % 2 else 0x00
            except Exception as error:
                out.append(type(error).__name__ + ": " + str(error))
        return out, [d.granule_in_use(g) for g in range(68)]
    rec("dsk/find_empty/fill_all", marked)

    for label, order in (("short", list(range(67))), ("empty", []), ("seq", list(range(68))), ("rev", list(range(67, -1, -1))),
                         ("dups", [5] * 68), ("bad", [70] * 68), ("long", list(range(68)) + [3, 4]), ("tuple", tuple(range(68)))):
        def with_order(order=order):
            d = DiskFile(granule_fill_order=order)
            out = []
            for _ in range(3):
                g = d.find_empty_granule()
                out.append(g)
                d.buffer[DiskConstants.FAT_OFFSET + g] = 0x99
            return out, d.granule_fill_order is DiskConstants.GRANULE_FILL_ORDER
        rec("dsk/find_empty/order/" + label, with_order)

    def dir_slots():
        d = DiskFile()
        out = []
        for i in range(73):
            e = d.find_empty_directory_entry()
            out.append(e)
            if e == -1:
                break
            d.buffer[DiskConstants.DIR_OFFSET + 32 * e] = 0x41
        d.buffer[DiskConstants.DIR_OFFSET + 32 * 5] = 0x00
        out.append(d.find_empty_directory_entry())
        d.buffer[DiskConstants.DIR_OFFSET + 32 * 5] = 0x41
        d.buffer[DiskConstants.DIR_OFFSET + 32 * 71] = 0x00
        out.append(d.find_empty_directory_entry())
        return out
    rec("dsk/find_empty_dir/sweep", dir_slots)

    # write_to_fat
    for label, grans, sectors in (("none", [], 3), ("one", [5], 1), ("one9", [67], 9), ("two", [32, 33], 2), ("many", [1, 60, 2, 59, 3], 4),
                                  ("zero", [0], 0), ("big", [10, 11], 0x20), ("dup", [4, 4], 2), ("tuple", (7, 8, 9), 5)):
        def fat_case(grans=grans, sectors=sectors):
            d = DiskFile()
            ret = d.write_to_fat(grans, sectors)
            return ret, d.buffer[DiskConstants.FAT_OFFSET - 2:DiskConstants.FAT_OFFSET + 70], sha(d.buffer)
        rec("dsk/write_to_fat/" + label, fat_case)
    rec("dsk/write_to_fat/bad", lambda: DiskFile().write_to_fat([100000000], 1))
    rec("dsk/write_to_fat/nonelist", lambda: DiskFile().write_to_fat(None, 1))

    # write_dir_entry
    case = 0
    for name, ext in (("A", "BIN"), ("ABCDEFGH", "BAS"), ("ABCDEFGHIJK", "BINX"), ("lower", "bin"), ("", ""), ("A\x00B", "\x00"),
                      ("sp ace", "a b"), ("é", "x")):
        for entry, ftype, dtype, gran, used in ((0, 2, 0, 32, 1), (1, 0, 0xFF, 0, 256), (71, 1, 0, 67, 0), (35, 3, 0xFF, 5, 255), (2, 2, 0, 1, 0x1234)):
            case += 1

            def dir_case(name=name, ext=ext, entry=entry, ftype=ftype, dtype=dtype, gran=gran, used=used):
                d = DiskFile()
                ret = d.write_dir_entry(entry, mkfile(name=name, ext=ext, ftype=ftype, dtype=dtype), gran, used)
                lo = DiskConstants.DIR_OFFSET + 32 * entry
                return ret, d.buffer[lo - 1:lo + 33], sha(d.buffer)
            rec("dsk/write_dir_entry/{}".format(case), dir_case)
    rec("dsk/write_dir_entry/beyond", lambda: DiskFile().write_dir_entry(80, mkfile(), 1, 1))
    rec("dsk/write_dir_entry/toolarge", lambda: DiskFile().write_dir_entry(0, mkfile(), 1, 70000))
    rec("dsk/write_dir_entry/negbytes", lambda: (lambda d: (d.write_dir_entry(0, mkfile(), 1, -2), d.buffer[DiskConstants.DIR_OFFSET:DiskConstants.DIR_OFFSET + 32]))(DiskFile()))

    # write_bytes_to_buffer
    for label, ptr, data in (("empty", 5, []), ("some", 5, [1, 2, 3]), ("end", 7, [1, 2, 3]), ("over", 8, [1, 2, 3]), ("neg", -2, [9, 9]), ("bytes", 0, b"\x01\x02"), ("gen", 0, range(4))):
        d = DiskFile(buffer=[0] * 10)
        rec_state("dsk/write_bytes/" + label, d, lambda d=d, ptr=ptr, data=data: d.write_bytes_to_buffer(ptr, data))

    # read_sequence / validate_sequence
    small = DiskFile(buffer=[65, 66, 67, 0x20, 0xC3, 0xA9, 0xFF, 1, 2, 3])
    for ptr in (-1, 0, 1, 4, 6, 8, 9, 10, 11):
        for length in (0, 1, 2, 3, 10, 11):
            for decode in (False, True):
                rec("dsk/read_sequence/{}/{}/{}".format(ptr, length, decode),
                    lambda ptr=ptr, length=length, decode=decode: small.read_sequence(pointer=ptr, length=length, decode=decode))
    rec("dsk/read_sequence/default", lambda: small.read_sequence(0, 3))
    for ptr in (0, 1, 7, 8, 9, 10, -1):
        for seq in ([], [65], [65, 66, 67], [66, 67], [1, 2, 3], [2, 3, 4], [1, 2, 3, 4], [0x141]):
            rec("dsk/validate_sequence/{}/{}".format(ptr, seq), lambda ptr=ptr, seq=seq: small.validate_sequence(ptr, seq))
    rec("dsk/validate_sequence/bigbyte", lambda: DiskFile(buffer=[70000, 1]).validate_sequence(0, [1]))

    # preamble / postamble read + write
    classes = (("ml", MLPreamble), ("bas", BasicPreamble), ("asc", ASCIIPreamble), ("post", Postamble))
    bufs = {
        "ml_ok": [0x00, 0x12, 0x34, 0x0E, 0x00, 9, 9], "bas_ok": [0xFF, 0x01, 0x02, 7, 7, 7], "post_ok": [0xFF, 0, 0, 0xAB, 0xCD, 1],
        "post_b1": [0xFF, 1, 0, 0xAB, 0xCD], "post_b2": [0xFF, 0, 2, 0xAB, 0xCD], "post_b0": [0xFE, 0, 0, 0xAB, 0xCD],
        "short4": [0x00, 1, 2, 3], "short2": [0xFF, 1], "empty": [], "zeros": [0] * 8, "ffs": [0xFF] * 8, "big": [0, 0x1FF, 1, 0x100, 0xFF, 0],
    }
    for cname, cls in classes:
        for bname, buf in bufs.items():
            for ptr in (0, 1, 3, 9, -1):
                def pre_read(cls=cls, buf=buf, ptr=ptr):
                    obj = cls()
                    try:
                        ret = obj.read(list(buf), ptr)
                        err = None
                    except Exception as error:
                        ret, err = None, type(error).__name__ + ": " + str(error)
                    state = {k: norm(v) for k, v in sorted(vars(obj).items())}
                    extra = [obj.is_ml(), obj.get_data_length()] if hasattr(obj, "is_ml") else []
                    return ret, err, state, extra
                rec("dsk/amble_read/{}/{}/{}".format(cname, bname, ptr), pre_read)
        for size in (0, 2, 3, 4, 5, 8):
            for ptr in (0, 1, 4, -1, -5):
                for dl, addr in ((0, 0), (0x1234, 0x0E00), (0xFFFF, 0xFFFF), (0xFF, 0x7F), (None, None)):
                    def pre_write(cls=cls, size=size, ptr=ptr, dl=dl, addr=addr):
                        obj = cls()
                        value = lambda x: NoneValue() if x is None else NumericValue(x)
                        if hasattr(obj, "data_length"):
                            obj.data_length = value(dl)
                            obj.load_addr = value(addr)
                        else:
                            obj.exec_addr = value(addr)
                        buf = [0x77] * size
                        try:
                            ret = obj.write(buf, ptr)
                            err = None
                        except Exception as error:
                            ret, err = None, type(error).__name__ + ": " + str(error)
                        return ret, err, buf, obj.length
                    rec("dsk/amble_write/{}/{}/{}/{}".format(cname, size, ptr, dl), pre_write)

    # calculate_file_length
    fat = [0xFF] * 68
    fat[0] = 1; fat[1] = 2; fat[2] = 0xC3; fat[10] = 0xC1; fat[11] = 0xC0; fat[12] = 0xC9; fat[20] = 40; fat[40] = 5; fat[5] = 0xDF
    fat[50] = 0xE2; fat[51] = 0x80; fat[60] = 0x40
    for start in (0, 1, 2, 10, 11, 12, 20, 40, 5, 50):
        for last in (0, 1, 255, 256, 0x1234):
            rec("dsk/calc_file_length/{}/{}".format(start, last), lambda start=start, last=last: DiskFile.calculate_file_length(start, list(fat), last))
    rec("dsk/calc_file_length/free", lambda: DiskFile.calculate_file_length(30, list(fat), 1))
    rec("dsk/calc_file_length/oob", lambda: DiskFile.calculate_file_length(51, list(fat), 1))
    rec("dsk/calc_file_length/inst", lambda: DiskFile(buffer=[0]).calculate_file_length(0, list(fat), 7))

    # read_data
    def rd_image():
        d = DiskFile()
        for g in range(68):
            base = DiskFile.seek_granule(g)
            for i in range(2304):
                d.buffer[base + i] = (g * 3 + i) & 0xFF
        return d
    img = rd_image()
    ml, bas, asc, post = preambles()
    rfat = [0xFF] * 256
    rfat[3] = 66; rfat[66] = 33; rfat[33] = 34; rfat[34] = 0; rfat[0] = 0xC2; rfat[67] = 0xC1
    for start in (3, 66, 33, 67, 0):
        for plabel, pre in (("ml", ml), ("bas", bas), ("asc", asc), ("none", None)):
            for length in (0, 1, 2298, 2299, 2300, 2301, 2304, 2305, 4603, 4608, 4609, 6912, 9000, 11000):
                rec("dsk/read_data/{}/{}/{}".format(start, plabel, length),
                    lambda start=start, pre=pre, length=length: img.read_data(start, list(rfat), pre, data_length=length))
    rec("dsk/read_data/default_len", lambda: img.read_data(3, list(rfat), ml))
    rec("dsk/read_data/kw", lambda: img.read_data(starting_granule=3, fat=list(rfat), preamble=bas, data_length=10))
    rec("dsk/read_data/toolong", lambda: img.read_data(67, list(rfat), None, data_length=200000))
    rec("dsk/read_data/badchain", lambda: img.read_data(67, list(rfat), None, data_length=3000))
    rec("dsk/read_data/short_image", lambda: DiskFile(buffer=[1] * 100).read_data(0, list(rfat), None, data_length=101))
    rec("dsk/read_data/short_image_ok", lambda: DiskFile(buffer=[1] * 100).read_data(0, list(rfat), asc, data_length=100))

    # write_to_granules
    case = 0
    for grans in ([], [5], [5, 6], [33, 34, 0], [67, 3, 40, 41]):
        for length in (0, 1, 2293, 2294, 2295, 2298, 2299, 2300, 2303, 2304, 2305, 4598, 4603, 4604, 4608, 5000):
            for plabel in ("ml", "bas", "asc", "nopre"):
                case += 1
                if case % 3 and length not in (2294, 2299, 2304, 4603):
                    continue

                def wtg(grans=grans, length=length, plabel=plabel):
                    ml, bas, asc, post = preambles()
                    pre = {"ml": ml, "bas": bas, "asc": asc, "nopre": None}[plabel]
                    pst = post if plabel in ("ml", "nopre") else None
                    d = DiskFile()
                    data = pattern("rand", length, seed=7)
                    try:
                        ret = d.write_to_granules(data, list(grans), pre, pst)
                        err = None
                    except Exception as error:
                        ret, err = None, type(error).__name__ + ": " + str(error)
                    return ret, err, image_summary(d.buffer)
                rec("dsk/write_to_granules/{}/{}/{}".format(grans, length, plabel), wtg)
    rec("dsk/write_to_granules/not_first", lambda: (lambda d: (d.write_to_granules([1, 2, 3], [9], preambles()[0], preambles()[3], first_granule=False), image_summary(d.buffer)))(DiskFile()))
    rec("dsk/write_to_granules/kw", lambda: (lambda d: (d.write_to_granules(file_data=[1, 2, 3], allocated_granules=[9], preamble=preambles()[1], postamble=None), image_summary(d.buffer)))(DiskFile()))


# --------------------------------------------------------------------------
def disk_file_for(idx, length, name=None):
    kind = idx % 4
    data_kind = ("rand", "ff", "text", "zero")[idx % 4]
    if kind == 0 or kind == 3:
        return mkfile(name=name or "ML{}".format(idx), ext="BIN", ftype=2, dtype=0, load=ADDRS[idx % 8], execa=ADDRS[(idx + 2) % 8],
                      data=pattern(data_kind, length, seed=idx))
    if kind == 1:
        return mkfile(name=name or "bas{}".format(idx), ext="BAS", ftype=0, dtype=0, load=None, execa=None, data=pattern(data_kind, length, seed=idx))
    return mkfile(name=name or "Asc{}x".format(idx), ext="TXT", ftype=(1, 3, 0)[idx % 3], dtype=0xFF, load=None, execa=None, data=pattern("text", length, seed=idx))


def disk_roundtrip(files, order=None):
    d = DiskFile(granule_fill_order=order) if order is not None else DiskFile()
    out = {}
    try:
        d.add_files(files)
    except Exception as error:
        out["add_exc"] = type(error).__name__ + ": " + str(error)
    out["image"] = image_summary(d.get_buffer())
    try:
        out["listed"] = DiskFile(buffer=list(d.get_buffer())).list_files()
    except Exception as error:
        out["list_exc"] = type(error).__name__ + ": " + str(error)
    return out


def section_disk_roundtrip():
    orders = {
        "default": None,
        "seq": list(range(68)),
        "rev": list(range(67, -1, -1)),
        "perm": random.Random(42).sample(range(68), 68),
    }
    # single files at boundary lengths, every kind
    for idx, length in enumerate(DISK_LENGTHS):
        for kind_shift in (0, 1, 2):
            if kind_shift and length > 12000:
                continue
            oname = list(orders)[(idx + kind_shift) % 4]
            rec("dsk/rt/single/{}/{}/{}".format(length, kind_shift, oname),
                lambda idx=idx, length=length, kind_shift=kind_shift, oname=oname: disk_roundtrip([disk_file_for(idx * 4 + kind_shift, length)], orders[oname]))
    # multi file images
    multis = [
        [],
        [0, 0, 0],
        [1, 2304, 2299, 2294],
        [2295, 2300, 4603, 4598, 10],
        [5000, 1, 7000, 256, 251, 246],
        [2304 * 3, 2304 * 3 - 5, 2304 * 3 - 10, 100],
        [20000, 20000, 20000, 20000, 20000, 20000, 20000],
        [65535, 65535, 2000],
    ]
    for midx, lengths in enumerate(multis):
        for oname in ("default", "perm") if midx < 6 else ("default", "rev"):
            files = [disk_file_for(midx + i, length) for i, length in enumerate(lengths)]
            rec("dsk/rt/multi/{}/{}".format(midx, oname), lambda files=files, oname=oname: disk_roundtrip(files, orders[oname]))
    # names / extensions
    names = [("A", "B"), ("abcdefgh", "bin"), ("ABCDEFGHIJKL", "LONG"), ("MiXeD1", ""), ("Z9", "x"), ("SAME", "BIN"), ("same", "bin"), ("SP C", "A B")]
    files = [mkfile(name=n, ext=e, ftype=2, data=[i] * ((i + 1) * 300)) for i, (n, e) in enumerate(names)]
    rec("dsk/rt/names", lambda: disk_roundtrip(files))
    for filt in (["A"], ["a"], ["SAME"], ["ABCDEFGH", "Z9"], [], ["NOPE"]):
        def filtered(filt=filt):
            d = DiskFile()
            d.add_files(files)
            return DiskFile(buffer=list(d.get_buffer())).list_files(filenames=filt)
        rec("dsk/rt/filter/{}".format(filt), filtered)

    # fill the disk: granules exhausted
    def exhaust_granules():
        d = DiskFile()
        out = []
        for i in range(10):
            try:
                d.add_file(disk_file_for(i, 20000, name="BIG{}".format(i)))
                out.append("ok")
            except Exception as error:
                out.append(type(error).__name__ + ": " + str(error))
        out.append(image_summary(d.buffer))
        try:
            out.append([(f.name, len(f.data)) for f in DiskFile(buffer=list(d.buffer)).list_files()])
        except Exception as error:
            out.append(type(error).__name__ + ": " + str(error))
        return out
    rec("dsk/rt/exhaust_granules", exhaust_granules)

    def exhaust_directory():
        d = DiskFile()
        out = []
        for i in range(69):
            try:
                d.add_file(mkfile(name="F{}".format(i), ftype=2, data=[i]))
                out.append("ok")
            except Exception as error:
                out.append(type(error).__name__ + ": " + str(error))
        out.append(image_summary(d.buffer))
        return out
    rec("dsk/rt/exhaust_directory", exhaust_directory)

    # history: add, re-open from bytes, add more
    def history():
        d = DiskFile()
        out = []
        lengths = [10, 2299, 5000, 2304, 4603, 300, 7, 0, 12]
        for i, length in enumerate(lengths):
            d.add_file(disk_file_for(i, length))
            out.append(image_summary(d.buffer)["sha"])
            d = DiskFile(buffer=list(d.get_buffer()))
            out.append([(f.name, f.extension, len(f.data), sha(f.data)) for f in d.list_files()])
        return out
    rec("dsk/rt/history", history)

    # reader on crafted images
    def craft(entries, fat_updates, fills=()):
        buf = [0xFF] * DiskConstants.IMAGE_SIZE
        for i in range(78660, 78848):
            buf[i] = 0
        for g, v in fat_updates.items():
            buf[DiskConstants.FAT_OFFSET + g] = v
        for slot, (name, ext, ftype, dtype, first, last) in entries.items():
            base = DiskConstants.DIR_OFFSET + slot * 32
            raw = [ord(c) for c in name.ljust(8)[:8]] + [ord(c) for c in ext.ljust(3)[:3]] + [ftype, dtype, first, last >> 8, last & 255] + [0] * 16
            buf[base:base + 32] = raw
        for g, content in fills:
            base = DiskFile.seek_granule(g)
            buf[base:base + len(content)] = content
        return buf

    stream = [0x00, 0x12, 0x0C, 0x0E, 0x00] + pattern("rand", 0x120C, seed=9) + [0xFF, 0, 0, 0x0E, 0x10]   # 4620 + 10 = 4630 bytes
    crafted = {
        "fragmented": craft({0: ("FRAG", "BIN", 2, 0, 40, 22)}, {40: 3, 3: 66, 66: 0xC1},
                            [(40, stream[:2304]), (3, stream[2304:4608]), (66, stream[4608:])]),
        "contiguous": craft({3: ("CONT", "BIN", 2, 0, 10, 22)}, {10: 11, 11: 12, 12: 0xC1},
                            [(10, stream[:2304]), (11, stream[2304:4608]), (12, stream[4608:])]),
        "across_dir": craft({1: ("XDIR", "BIN", 2, 0, 33, 22)}, {33: 34, 34: 35, 35: 0xC1},
                            [(33, stream[:2304]), (34, stream[2304:4608]), (35, stream[4608:])]),
        "basic": craft({0: ("PROG", "BAS", 0, 0, 7, 5)}, {7: 0xC1}, [(7, [0xFF, 0x00, 0x02, 0x41, 0x42])]),
        "basic_zero_len": craft({0: ("PROGZ", "BAS", 0, 0, 7, 9)}, {7: 8, 8: 0xC2}, [(7, [0xFF, 0x00, 0x00] + [0x31] * 2301), (8, [0x32] * 300)]),
        "ascii": craft({0: ("TEXT", "TXT", 1, 0xFF, 20, 100)}, {20: 0xC2}, [(20, [0x41 + (i % 26) for i in range(400)])]),
        "ascii_chain": craft({0: ("TEXT2", "TXT", 3, 0xFF, 20, 1)}, {20: 50, 50: 0xC1}, [(20, [0x61] * 2304), (50, [0x62] * 10)]),
        "deleted_first": craft({0: ("\x00ONE", "BIN", 2, 0, 1, 1), 1: ("LIVE", "BAS", 0, 0, 2, 4)}, {2: 0xC1}, [(2, [0xFF, 0, 1, 0x99])]),
        "bad_preamble": craft({0: ("BADP", "BIN", 2, 0, 4, 1)}, {4: 0xC1}, [(4, [0x01, 0, 1, 0, 0, 1, 0xFF, 0, 0, 0, 0])]),
        "bad_postamble": craft({0: ("BADQ", "BIN", 2, 0, 4, 1)}, {4: 0xC1}, [(4, [0x00, 0, 1, 0, 0, 1, 0xFE, 0, 0, 0, 0])]),
        "bad_basic": craft({0: ("BADB", "BAS", 0, 0, 4, 1)}, {4: 0xC1}, [(4, [0x00, 0, 1, 5])]),
        "nonutf_name": craft({0: ("OK", "BIN", 2, 0, 4, 11)}, {4: 0xC1}, [(4, [0x00, 0, 1, 0, 0, 1, 0xFF, 0, 0, 0, 0])]),
        "many": craft({i: ("F{}".format(i), "BAS", 0, 0, i, 4) for i in range(0, 72, 5)}, {i: 0xC1 for i in range(0, 72, 5) if i < 68},
                      [(i, [0xFF, 0, 1, i]) for i in range(0, 68, 5)]),
        "many_ok": craft({i + 1: ("G{}".format(i), "BAS", 0, 0, i, 4) for i in range(0, 68, 5)}, {i: 0xC1 for i in range(0, 68, 5)},
                         [(i, [0xFF, 0, 1, i]) for i in range(0, 68, 5)]),
        "slot71": craft({71: ("LAST", "BAS", 0, 0, 9, 4)}, {9: 0xC1}, [(9, [0xFF, 0, 1, 0x42])]),
        "empty": craft({}, {}),
    }
    crafted["nonutf_name"][DiskConstants.DIR_OFFSET] = 0xC3
    crafted["nonutf_name"][DiskConstants.DIR_OFFSET + 1] = 0x28
    for label, buf in crafted.items():
        rec("dsk/crafted/" + label, lambda buf=buf: DiskFile(buffer=list(buf)).list_files())
    rec("dsk/crafted/append_to_fragmented", lambda: (lambda d: (d.add_file(disk_file_for(0, 3000)), image_summary(d.buffer),
                                                               DiskFile(buffer=list(d.buffer)).list_files()))(DiskFile(buffer=list(crafted["fragmented"]))))
    for size in (0, 1, 1000, 161279, 161280, 161281, 200000):
        rec("dsk/size/{}".format(size), lambda size=size: DiskFile(buffer=[0xFF] * size).list_files())
    rec("dsk/size/zeros", lambda: DiskFile(buffer=[0x00] * 161280).list_files())
    rec("dsk/size/ones", lambda: DiskFile(buffer=[0x41] * 161280).list_files())
    rec("dsk/size/rand", lambda: DiskFile(buffer=pattern("rand", 161280, seed=1)).list_files())
    rec("dsk/size/bytes", lambda: DiskFile(buffer=bytes(crafted["basic"])).list_files())

    def cassette_as_disk():
        cas = CassetteFile()
        cas.add_files([mkfile(name="BIG{}".format(i), data=pattern("rand", 60000, seed=i)) for i in range(3)])
        return len(cas.buffer), DiskFile(buffer=list(cas.buffer)).list_files()
    rec("dsk/size/big_cassette", cassette_as_disk)


# --------------------------------------------------------------------------
def dir_snapshot(path):
    out = {}
    for entry in sorted(os.listdir(path)):
        full = os.path.join(path, entry)
        if os.path.isfile(full):
            with open(full, "rb") as handle:
                content = handle.read()
            out[entry] = {"len": len(content), "sha": hashlib.sha256(content).hexdigest()}
    return out


def make_targets(path):
    """Creates the set of pre-existing target files used by the save matrix."""
    cas = CassetteFile()
    cas.add_files([mkfile(name="OLDCAS", data=[1, 2, 3, 4]), mkfile(name="OLD2", ftype=0, dtype=0xFF, data=pattern("text", 300))])
    dsk = DiskFile()
    dsk.add_files([mkfile(name="OLDDSK", ext="BIN", data=pattern("rand", 2500, seed=3)), mkfile(name="OLDB", ext="BAS", ftype=0, load=None, execa=None, data=[5, 6, 7])])
    bigcas = CassetteFile()
    bigcas.add_files([mkfile(name="BIG{}".format(i), data=pattern("rand", 60000, seed=i)) for i in range(3)])
    contents = {
        "empty": b"",
        "cas": bytes(cas.get_buffer()),
        "dsk": bytes(dsk.get_buffer()),
        "raw": bytes(pattern("rand", 100, seed=11)),
        "junk": bytes(pattern("text", 5000, seed=12)),
        "bigcas": bytes(bigcas.get_buffer()),
        "bigjunk": bytes(pattern("rand", 161280, seed=13)),
    }
    for name, content in contents.items():
        with open(os.path.join(path, name), "wb") as handle:
            handle.write(content)
    return sorted(contents)


def section_virtual_file():
    work = os.path.join(TMP_ROOT, "vf")
    os.makedirs(work)
    kinds = make_targets(work)
    types = (("bin", VirtualFileType.BINARY), ("cas", VirtualFileType.CASSETTE), ("dsk", VirtualFileType.DISK), ("none", None), ("unk", VirtualFileType.UNKNOWN))
    # type sniffing
    for kind in kinds:
        def sniff(kind=kind):
            vf = VirtualFile(SourceFile(os.path.join(work, kind), file_type=SourceFileType.BINARY))
            files, vtype = vf.get_coco_files() if vf.source_file.read_file() is None else None
            return [(f.name, len(f.data)) for f in files], vtype
        rec("vf/sniff/" + kind, sniff)
    # save matrix
    for tlabel, vtype in types:
        for append in (False, True):
            for kind in kinds + ["absent"]:
                def save_case(vtype=vtype, append=append, kind=kind, tlabel=tlabel):
                    case_dir = tempfile.mkdtemp(dir=TMP_ROOT)
                    target = os.path.join(case_dir, "target")
                    if kind != "absent":
                        shutil.copy(os.path.join(work, kind), target)
                    before = dir_snapshot(case_dir)
                    vf = VirtualFile(SourceFile(target, file_type=SourceFileType.BINARY), vtype)
                    steps = []
                    try:
                        steps.append(("open", vf.open_virtual_file()))
                        steps.append(("state", vf.file_exists, vf.virtual_file_type, [(f.name, len(f.data)) for f in vf.coco_file_list]))
                        steps.append(("add", vf.add_coco_file(mkfile(name="NEWFILE", ext="BIN", data=pattern("rand", 700, seed=5)))))
                        steps.append(("save", vf.save_virtual_file(append_mode=append)))
                    except Exception as error:
                        steps.append(("exc", type(error).__name__, str(error).replace(case_dir, "<DIR>")))
                    after = dir_snapshot(case_dir)
                    listed = None
                    if os.path.exists(target):
                        vf2 = VirtualFile(SourceFile(target, file_type=SourceFileType.BINARY))
                        try:
                            vf2.open_virtual_file()
                            listed = (vf2.virtual_file_type, vf2.list_files(), vf2.list_files(filenames=["NEWFILE"]), vf2.list_files(filenames=["NEWFILE "]))
                        except Exception as error:
                            listed = type(error).__name__ + ": " + str(error)
                    return {"steps": steps, "before": before, "after": after, "changed": before != after, "listed": listed}
                rec("vf/save/{}/{}/{}".format(tlabel, append, kind), save_case)

    # histories: repeated open/add/save with append, and without
    for tlabel, vtype in types[:3]:
        def history(vtype=vtype):
            case_dir = tempfile.mkdtemp(dir=TMP_ROOT)
            target = os.path.join(case_dir, "image")
            out = []
            lengths = [3, 255, 2299, 1, 5000, 256, 2304, 0, 9]
            for i, length in enumerate(lengths):
                vf = VirtualFile(SourceFile(target, file_type=SourceFileType.BINARY), vtype)
                try:
                    vf.open_virtual_file()
                    vf.add_coco_file(mkfile(name="H{}".format(i), ext="BIN", load=0x100 * i, execa=0x100 * i + 1, data=pattern("rand", length, seed=i)))
                    if i == 3:
                        vf.add_coco_file(mkfile(name="EXTRA", ext="BAS", ftype=0, load=None, execa=None, data=[1, 2, 3]))
                    vf.save_virtual_file(append_mode=(i != 5))
                    out.append("saved")
                except Exception as error:
                    out.append(type(error).__name__ + ": " + str(error).replace(case_dir, "<DIR>"))
                out.append(dir_snapshot(case_dir))
                check = VirtualFile(SourceFile(target, file_type=SourceFileType.BINARY))
                try:
                    check.open_virtual_file()
                    out.append((check.virtual_file_type, [(f.name, f.extension, f.type, f.load_addr, f.exec_addr, len(f.data), sha(f.data)) for f in check.list_files()]))
                except Exception as error:
                    out.append(type(error).__name__ + ": " + str(error))
            return out
        rec("vf/history/" + tlabel, history)

    def big_cassette_history():
        case_dir = tempfile.mkdtemp(dir=TMP_ROOT)
        target = os.path.join(case_dir, "big.cas")
        out = []
        for i in range(4):
            vf = VirtualFile(SourceFile(target, file_type=SourceFileType.BINARY), VirtualFileType.CASSETTE)
            try:
                vf.open_virtual_file()
                vf.add_coco_file(mkfile(name="B{}".format(i), data=pattern("rand", 60000, seed=i)))
                vf.save_virtual_file(append_mode=True)
                out.append("saved")
            except Exception as error:
                out.append(type(error).__name__ + ": " + str(error).replace(case_dir, "<DIR>"))
            out.append(dir_snapshot(case_dir))
        return out
    rec("vf/history/big_cassette", big_cassette_history)

    # misc API
    rec("vf/misc/delete", lambda: VirtualFile().delete_coco_file("X"))
    rec("vf/misc/list_empty", lambda: (VirtualFile().list_files(), VirtualFile().list_files(filenames=["A"])))
    rec("vf/misc/defaults", lambda: (lambda v: (v.source_file, v.virtual_file_type, v.coco_file_list, v.file_exists))(VirtualFile()))
    rec("vf/misc/enum", lambda: [(m.name, m.value) for m in VirtualFileType])
    rec("vf/misc/save_unknown", lambda: VirtualFile(SourceFile(os.path.join(TMP_ROOT, "never"), file_type=SourceFileType.BINARY), VirtualFileType.UNKNOWN).save_virtual_file())
    rec("vf/misc/save_none_type", lambda: (VirtualFile(SourceFile(os.path.join(TMP_ROOT, "never2"), file_type=SourceFileType.BINARY)).save_virtual_file(), os.path.exists(os.path.join(TMP_ROOT, "never2"))))

    def source_file_api():
        path = os.path.join(TMP_ROOT, "sf.bin")
        sf = SourceFile(path, file_type=SourceFileType.BINARY)
        sf.set_buffer([1, 2, 255, 0])
        sf.write_file()
        sf2 = SourceFile(path, file_type=SourceFileType.BINARY)
        sf2.read_file()
        asm = os.path.join(TMP_ROOT, "sf.asm")
        with open(asm, "w") as handle:
            handle.write(" NOP\n RTS\n")
        sf3 = SourceFile(asm)
        sf3.read_file()
        before = dir_snapshot(TMP_ROOT).get("sf.asm")
        sf3.set_buffer([1])
        sf3.write_file()
        return sf2.get_buffer(), sf2.get_file_name() == path, sf3.get_buffer(), before == dir_snapshot(TMP_ROOT).get("sf.asm"), [(m.name, m.value) for m in SourceFileType]
    rec("vf/misc/source_file", source_file_api)
    rec("vf/misc/source_file_missing", lambda: SourceFile(os.path.join(TMP_ROOT, "missing"), file_type=SourceFileType.BINARY).read_file())
    rec("vf/misc/source_file_bad_write", lambda: SourceFile(os.path.join(TMP_ROOT, "nodir", "x"), file_type=SourceFileType.BINARY).write_file())
    rec("vf/misc/source_file_bad_buffer", lambda: (lambda s: (s.set_buffer([1, 300]), s.write_file()))(SourceFile(os.path.join(TMP_ROOT, "badbuf"), file_type=SourceFileType.BINARY)))


# --------------------------------------------------------------------------
def run_cli(script, argv, cwd):
    proc = subprocess.run([sys.executable, os.path.join(TREE, script)] + argv, cwd=cwd, stdout=subprocess.PIPE, stderr=subprocess.PIPE,
                          universal_newlines=True, timeout=300)
    err_lines = [line for line in proc.stderr.strip().splitlines()]
    err = err_lines[-1] if err_lines and err_lines[0].startswith("Traceback") else proc.stderr
    return {"rc": proc.returncode, "out": proc.stdout.replace(cwd, "<DIR>").replace(TREE, "<TREE>"), "err": err.replace(cwd, "<DIR>").replace(TREE, "<TREE>")}


ASM_SOURCE = """        NAM  PROG
        ORG  $0E00
START   LDA  #$01
        LDX  #DATA
LOOP    STA  ,X+
        DECA
        BNE  LOOP
        RTS
DATA    FCB  1,2,3,4
        FCC  "HELLO"
        END  START
"""

ASM_NONAME = """        ORG  $3000
        LDA  #$55
        RTS
"""


def section_cli_assembler():
    work = os.path.join(TMP_ROOT, "asm")
    os.makedirs(work)
    kinds = make_targets(work)
    for flag in ("--to_bin", "--to_cas", "--to_dsk"):
        for append in (False, True):
            for kind in kinds + ["absent"]:
                def case(flag=flag, append=append, kind=kind):
                    case_dir = tempfile.mkdtemp(dir=TMP_ROOT)
                    with open(os.path.join(case_dir, "prog.asm"), "w") as handle:
                        handle.write(ASM_SOURCE)
                    target = os.path.join(case_dir, "target.img")
                    if kind != "absent":
                        shutil.copy(os.path.join(work, kind), target)
                    before = dir_snapshot(case_dir)
                    argv = ["prog.asm", flag, "target.img"] + (["--append"] if append else [])
                    first = run_cli("assembler.py", argv, case_dir)
                    mid = dir_snapshot(case_dir)
                    second = run_cli("assembler.py", argv + ["--name", "SECOND"], case_dir)
                    after = dir_snapshot(case_dir)
                    listing = run_cli("file_util.py", ["target.img", "--list"], case_dir)
                    return {"first": first, "second": second, "before": before, "mid": mid, "after": after,
                            "changed1": before != mid, "changed2": mid != after, "listing": listing}
                rec("cli/asm/{}/{}/{}".format(flag, append, kind), case)

    def multi_flags():
        case_dir = tempfile.mkdtemp(dir=TMP_ROOT)
        with open(os.path.join(case_dir, "prog.asm"), "w") as handle:
            handle.write(ASM_SOURCE)
        with open(os.path.join(case_dir, "noname.asm"), "w") as handle:
            handle.write(ASM_NONAME)
        out = []
        out.append(run_cli("assembler.py", ["prog.asm", "--to_bin", "a.bin", "--to_cas", "a.cas", "--to_dsk", "a.dsk", "--symbols", "--print"], case_dir))
        out.append(dir_snapshot(case_dir))
        out.append(run_cli("assembler.py", ["noname.asm", "--to_bin", "b.bin", "--to_cas", "b.cas", "--to_dsk", "b.dsk"], case_dir))
        out.append(run_cli("assembler.py", ["noname.asm", "--to_dsk", "b.dsk", "--to_bin", "b2.bin"], case_dir))
        out.append(run_cli("assembler.py", ["noname.asm", "--name", "GIVEN", "--to_cas", "c.cas", "--to_dsk", "c.dsk"], case_dir))
        out.append(run_cli("assembler.py", ["noname.asm", "--name", "GIVEN2", "--to_cas", "c.cas", "--to_dsk", "c.dsk", "--append"], case_dir))
        out.append(run_cli("assembler.py", ["noname.asm", "--name", "GIVEN3", "--to_cas", "c.dsk", "--append"], case_dir))
        out.append(run_cli("assembler.py", ["noname.asm", "--name", "GIVEN3", "--to_dsk", "c.cas", "--append"], case_dir))
        out.append(run_cli("assembler.py", ["noname.asm", "--name", "GIVEN3", "--to_bin", "c.cas", "--append"], case_dir))
        out.append(run_cli("assembler.py", ["noname.asm", "--name", "X", "--to_cas", os.path.join("nodir", "c.cas")], case_dir))
        out.append(run_cli("assembler.py", ["missing.asm", "--to_cas", "d.cas"], case_dir))
        out.append(dir_snapshot(case_dir))
        for img in ("a.cas", "a.dsk", "c.cas", "c.dsk", "a.bin"):
            out.append(run_cli("file_util.py", [img, "--list"], case_dir))
        return out
    rec("cli/asm/multi", multi_flags)


def section_cli_file_util():
    work = os.path.join(TMP_ROOT, "fu")
    os.makedirs(work)
    kinds = make_targets(work)
    cas = CassetteFile()
    cas.add_files([mkfile(name="ALPHA", data=pattern("rand", 255, seed=1)), mkfile(name="beta", ftype=0, dtype=0xFF, data=pattern("text", 600)),
                   mkfile(name="GAMMA123XYZ", ftype=1, data=[]), mkfile(name="DELTA", ftype=3, dtype=0xFF, load=0xFFFF, execa=0, data=[0x55, 0x3C, 0xFF])])
    dsk = DiskFile()
    dsk.add_files([mkfile(name="ALPHA", ext="BIN", data=pattern("rand", 2299, seed=1)), mkfile(name="beta", ext="bas", ftype=0, load=None, execa=None, data=pattern("text", 600)),
                   mkfile(name="GAMMA", ext="TXT", ftype=1, dtype=0xFF, load=None, execa=None, data=pattern("text", 5000))])
    single = CassetteFile()
    single.add_files([mkfile(name="ONLY", data=pattern("rand", 300, seed=4))])
    sources = {"multi.cas": cas.get_buffer(), "multi.dsk": dsk.get_buffer(), "single.cas": single.get_buffer()}
    for name, buf in sources.items():
        with open(os.path.join(work, name), "wb") as handle:
            handle.write(bytes(buf))

    for kind in kinds + ["multi.cas", "multi.dsk", "single.cas", "absent"]:
        rec("cli/fu/list/" + kind, lambda kind=kind: run_cli("file_util.py", [kind, "--list"], work))
    rec("cli/fu/noargs", lambda: run_cli("file_util.py", ["multi.cas"], work))
    rec("cli/fu/list_files_flag", lambda: run_cli("file_util.py", ["multi.cas", "--list", "--files", "ALPHA"], work))

    for src in ("multi.cas", "multi.dsk", "single.cas", "raw"):
        for flag in ("--to_bin", "--to_cas", "--to_dsk"):
            for append in (False, True):
                for kind in ("absent", "empty", "cas", "dsk", "raw", "bigcas"):
                    if src == "multi.dsk" and kind not in ("absent", "cas", "dsk"):
                        continue
                    if src == "single.cas" and kind not in ("absent", "empty", "cas", "dsk"):
                        continue
                    if src == "raw" and kind not in ("absent", "cas"):
                        continue
                    for files in (None, ["alpha", "GAMMA"]):
                        if files and (kind not in ("absent", "cas") or src != "multi.cas"):
                            continue

                        def case(src=src, flag=flag, append=append, kind=kind, files=files):
                            case_dir = tempfile.mkdtemp(dir=TMP_ROOT)
                            shutil.copy(os.path.join(work, src), os.path.join(case_dir, src))
                            target = os.path.join(case_dir, "target.img")
                            if kind != "absent":
                                shutil.copy(os.path.join(work, kind), target)
                            before = dir_snapshot(case_dir)
                            argv = [src, flag, "target.img"] + (["--append"] if append else []) + (["--files"] + files if files else [])
                            result = run_cli("file_util.py", argv, case_dir)
                            after = dir_snapshot(case_dir)
                            listing = run_cli("file_util.py", ["target.img", "--list"], case_dir)
                            return {"run": result, "before": before, "after": after, "changed": before != after, "listing": listing}
                        rec("cli/fu/{}/{}/{}/{}/{}".format(src, flag, append, kind, bool(files)), case)

    def combos():
        case_dir = tempfile.mkdtemp(dir=TMP_ROOT)
        shutil.copy(os.path.join(work, "multi.cas"), os.path.join(case_dir, "m.cas"))
        shutil.copy(os.path.join(work, "single.cas"), os.path.join(case_dir, "s.cas"))
        out = []
        out.append(run_cli("file_util.py", ["s.cas", "--to_cas", "o.cas", "--to_dsk", "o.dsk", "--to_bin", "o.bin"], case_dir))
        out.append(run_cli("file_util.py", ["s.cas", "--to_cas", "o.cas", "--to_dsk", "o.dsk", "--to_bin", "o.bin"], case_dir))
        out.append(run_cli("file_util.py", ["s.cas", "--to_cas", "o.cas", "--to_dsk", "o.dsk", "--to_bin", "o.bin", "--append"], case_dir))
        out.append(run_cli("file_util.py", ["m.cas", "--to_dsk", "o.dsk", "--append", "--files", "delta", "nothere"], case_dir))
        out.append(run_cli("file_util.py", ["m.cas", "--to_cas", "m.cas", "--append"], case_dir))
        out.append(run_cli("file_util.py", ["s.cas", "--to_bin", "o2.bin", "--files", "nomatch"], case_dir))
        out.append(run_cli("file_util.py", ["o.dsk", "--to_cas", os.path.join("nodir", "x.cas")], case_dir))
        out.append(dir_snapshot(case_dir))
        for img in ("o.cas", "o.dsk", "o.bin", "m.cas", "o2.bin"):
            out.append(run_cli("file_util.py", [img, "--list"], case_dir))
        return out
    rec("cli/fu/combos", combos)


def section_cli_smoke():
    work = os.path.join(TMP_ROOT, "smoke")
    os.makedirs(work)
    with open(os.path.join(work, "prog.asm"), "w") as handle:
        handle.write(ASM_SOURCE)

    def smoke():
        out = []
        for argv in (["prog.asm", "--to_cas", "p.cas", "--to_dsk", "p.dsk", "--to_bin", "p.bin"],
                     ["prog.asm", "--to_cas", "p.cas", "--to_dsk", "p.dsk", "--name", "TWO", "--append"],
                     ["prog.asm", "--to_cas", "p.cas", "--to_dsk", "p.dsk", "--to_bin", "p.bin", "--name", "THREE"],
                     ["prog.asm", "--to_cas", "p.dsk", "--append"],
                     ["prog.asm", "--to_dsk", "p.cas", "--append"]):
            out.append(run_cli("assembler.py", argv, work))
            out.append(dir_snapshot(work))
        for argv in (["p.cas", "--list"], ["p.dsk", "--list"], ["p.bin", "--list"], ["nothere", "--list"],
                     ["p.cas", "--to_dsk", "q.dsk"], ["p.dsk", "--to_cas", "q.cas"], ["p.dsk", "--to_cas", "q.cas", "--append", "--files", "two"],
                     ["p.cas", "--to_dsk", "q.dsk"], ["p.cas", "--to_bin", "q.bin"], ["q.dsk", "--to_bin", "q.bin", "--files", "PROG"],
                     ["q.cas", "--list"], ["q.dsk", "--list"]):
            out.append(run_cli("file_util.py", argv, work))
            out.append(dir_snapshot(work))
        return out
    rec("cli/smoke", smoke)
    for index, step in enumerate(RESULTS["cli/smoke"].get("ok", [])):
        RESULTS["cli/smoke/step{:02d}".format(index)] = {"ok": step}


# --------------------------------------------------------------------------
ALL = {
    "cassette": section_cassette,
    "container": section_container,
    "cocofile": section_cocofile,
    "disk_units": section_disk_units,
    "disk_roundtrip": section_disk_roundtrip,
    "virtual_file": section_virtual_file,
    "cli_assembler": section_cli_assembler,
    "cli_file_util": section_cli_file_util,
    "cli_smoke": section_cli_smoke,
}

try:
    for section in SECTIONS:
        ALL[section]()
finally:
    shutil.rmtree(TMP_ROOT, ignore_errors=True)

json.dump(RESULTS, sys.stdout, sort_keys=True)
'''


def run_tree(tree):
    tree = os.path.abspath(tree)
    env = dict(os.environ)
    env["PYTHONPATH"] = tree
    env["PYTHONDONTWRITEBYTECODE"] = "1"
    env["PYTHONHASHSEED"] = "0"
    proc = subprocess.run(
        [sys.executable, "-c", DRIVER, SECTIONS], cwd=tree, env=env,
        stdout=subprocess.PIPE, stderr=subprocess.PIPE, universal_newlines=True,
    )
    if proc.returncode != 0:
        sys.stderr.write("driver failed in {}:\n{}\n".format(tree, proc.stderr[-4000:]))
        sys.exit(2)
    return json.loads(proc.stdout)


def main():
    if len(sys.argv) != 3:
        sys.stderr.write(__doc__)
        sys.exit(2)
    result_a = run_tree(sys.argv[1])
    result_b = run_tree(sys.argv[2])
    names = sorted(set(result_a) | set(result_b))
    differences = [name for name in names if result_a.get(name) != result_b.get(name)]
    kinds = {}
    for name in names:
        outcome = result_a.get(name) or {}
        kind = "error" if "exc" in outcome else ("exit" if "exit" in outcome else "ok")
        kinds[kind] = kinds.get(kind, 0) + 1
    print("sections: {}".format(SECTIONS))
    print("cases compared: {} ({})".format(len(names), ", ".join("{} {}".format(v, k) for k, v in sorted(kinds.items()))))
    for name in differences[:40]:
        print("DIFFERENT: {}".format(name))
        print("   A: {}".format(json.dumps(result_a.get(name))[:600]))
        print("   B: {}".format(json.dumps(result_b.get(name))[:600]))
    if differences:
        print("{} case(s) differ".format(len(differences)))
        sys.exit(1)
    if len(names) < 30:
        print("too few cases")
        sys.exit(1)
    print("all cases agree")
    sys.exit(0)


if __name__ == "__main__":
    main()
