#!/venv/bin/python
"""
Differential demonstration for property C10 (an existing target file is never
modified unless append applies to it).

usage: equiv.py <treeA> <treeB>

The parent process builds a set of fixture files (cassette image, disk image,
raw binary, ...) ONCE with the code of treeA, then starts one worker process
per tree. Each worker runs the same list of cases against its own tree:

  * CLI cases: assembler.py / file_util.py of the tree are run as subprocesses
    in a scratch directory (cwd = scratch dir, tree at the front of sys.path).
    Observed: return code, stdout, last line of stderr, and for every file in
    the scratch dir afterwards its size, sha256 and whether its mtime moved
    (all files are given a fixed old mtime before the command runs).
  * library cases: VirtualFile / SourceFile of the tree are imported in the
    worker and driven directly. Observed: return values, object state,
    exception type and message, files on disk.

The two result lists are compared item by item. Exit 0 if identical, else 1.
"""
import hashlib
import json
import os
import shutil
import subprocess
import sys
import tempfile

PY = sys.executable or "/venv/bin/python"
OLD_MTIME = 1_000_000_000

PROG_ASM = """\
            NAM     HELLO
            ORG     $0E00
START       LDA     #$01
            LDB     #$02
LOOP        STA     $0400
            DECB
            BNE     LOOP
            RTS
            END     START
"""

PROG2_ASM = """\
            NAM     SECOND
            ORG     $1000
BEGIN       LDX     #$1234
            FCB     $01,$02,$03,$04,$05
            RTS
            END     BEGIN
"""

NONAME_ASM = """\
            ORG     $2000
            LDA     #$7F
            RTS
"""

BAD_ASM = """\
            NAM     BROKEN
            LDA     #$01
            FOO     #$02
"""

# --------------------------------------------------------------------------
# fixtures (parent, built with tree A)
# --------------------------------------------------------------------------


def run_tool(tree, cwd, tool, args):
    env = dict(os.environ)
    env["PYTHONPATH"] = tree
    env["PYTHONDONTWRITEBYTECODE"] = "1"
    env["PYTHONHASHSEED"] = "0"
    proc = subprocess.run(
        [PY, os.path.join(tree, tool)] + list(args),
        cwd=cwd, env=env, capture_output=True, text=True, timeout=300,
    )
    return proc


def build_fixtures(tree, fixdir):
    os.makedirs(fixdir, exist_ok=True)
    for name, text in (("prog.asm", PROG_ASM), ("prog2.asm", PROG2_ASM),
                       ("noname.asm", NONAME_ASM), ("bad.asm", BAD_ASM)):
        with open(os.path.join(fixdir, name), "w") as handle:
            handle.write(text)
    steps = [
        ("assembler.py", ["prog.asm", "--to_cas", "one.cas"]),
        ("assembler.py", ["prog.asm", "--to_dsk", "one.dsk"]),
        ("assembler.py", ["prog.asm", "--to_bin", "raw.bin"]),
        ("assembler.py", ["prog.asm", "--to_cas", "two.cas"]),
        ("assembler.py", ["prog2.asm", "--to_cas", "two.cas", "--append"]),
        ("assembler.py", ["prog.asm", "--to_dsk", "two.dsk"]),
        ("assembler.py", ["prog2.asm", "--to_dsk", "two.dsk", "--append"]),
    ]
    for tool, args in steps:
        proc = run_tool(tree, fixdir, tool, args)
        if proc.returncode != 0:
            raise SystemExit("fixture step failed: {} {}\n{}".format(tool, args, proc.stderr))
    with open(os.path.join(fixdir, "one.cas"), "rb") as handle:
        one_cas = handle.read()
    copies = 161280 // len(one_cas) + 2
    with open(os.path.join(fixdir, "big.cas"), "wb") as handle:
        handle.write(one_cas * copies)
    with open(os.path.join(fixdir, "empty.dat"), "wb") as handle:
        pass
    with open(os.path.join(fixdir, "junk.dat"), "wb") as handle:
        handle.write(bytes((i * 37 + 11) % 256 for i in range(777)))
    assert os.path.getsize(os.path.join(fixdir, "big.cas")) >= 161280
    assert os.path.getsize(os.path.join(fixdir, "one.dsk")) == 161280


# --------------------------------------------------------------------------
# case list (identical for both workers)
# --------------------------------------------------------------------------

PRE_KINDS = [
    ("absent", None),
    ("empty", "empty.dat"),
    ("cas", "one.cas"),
    ("dsk", "one.dsk"),
    ("rawbin", "raw.bin"),
    ("junk", "junk.dat"),
    ("bigcas", "big.cas"),
]


def cli_cases():
    cases = []
    # full matrix through assembler.py
    for kind in ("bin", "cas", "dsk"):
        for append in (False, True):
            for pre_name, pre_fix in PRE_KINDS:
                args = ["prog2.asm", "--to_" + kind, "out.x"] + (["--append"] if append else [])
                cases.append({
                    "name": "asm/{}/{}/{}".format(kind, "append" if append else "noappend", pre_name),
                    "pre": {"out.x": pre_fix} if pre_fix else {},
                    "cmds": [("assembler.py", args)],
                })
    # matrix through file_util.py (two different hosts)
    for host in ("one.cas", "one.dsk", "two.cas", "two.dsk"):
        for kind in ("bin", "cas", "dsk"):
            for append in (False, True):
                for pre_name, pre_fix in PRE_KINDS:
                    if host.startswith("two") and pre_name in ("junk", "bigcas", "rawbin"):
                        continue
                    args = [host, "--to_" + kind, "out.x"] + (["--append"] if append else [])
                    cases.append({
                        "name": "futil/{}/{}/{}/{}".format(host, kind, "append" if append else "noappend", pre_name),
                        "pre": {"out.x": pre_fix} if pre_fix else {},
                        "cmds": [("file_util.py", args)],
                    })
    extra = [
        ("asm/noname/cas", {}, [("assembler.py", ["noname.asm", "--to_cas", "out.cas"])]),
        ("asm/noname/dsk", {}, [("assembler.py", ["noname.asm", "--to_dsk", "out.dsk"])]),
        ("asm/noname/bin", {}, [("assembler.py", ["noname.asm", "--to_bin", "out.bin"])]),
        ("asm/noname/all", {}, [("assembler.py", ["noname.asm", "--to_bin", "o.bin", "--to_cas", "o.cas",
                                                  "--to_dsk", "o.dsk"])]),
        ("asm/noname/dsk-only-after-cas", {}, [("assembler.py", ["noname.asm", "--to_dsk", "o.dsk",
                                                                 "--to_cas", "o.cas"])]),
        ("asm/noname/--name", {}, [("assembler.py", ["noname.asm", "--name", "GIVEN", "--to_cas", "o.cas",
                                                     "--to_dsk", "o.dsk", "--to_bin", "o.bin"])]),
        ("asm/all-three/fresh", {}, [("assembler.py", ["prog.asm", "--to_bin", "o.bin", "--to_cas", "o.cas",
                                                       "--to_dsk", "o.dsk", "--symbols", "--print"])]),
        ("asm/all-three/cas-exists", {"o.cas": "one.cas"},
         [("assembler.py", ["prog.asm", "--to_bin", "o.bin", "--to_cas", "o.cas", "--to_dsk", "o.dsk"])]),
        ("asm/all-three/all-exist-append", {"o.cas": "one.cas", "o.dsk": "one.dsk", "o.bin": "raw.bin"},
         [("assembler.py", ["prog2.asm", "--to_bin", "o.bin", "--to_cas", "o.cas", "--to_dsk", "o.dsk",
                            "--append"])]),
        ("asm/all-three/crossed-kinds", {"o.cas": "one.dsk", "o.dsk": "one.cas", "o.bin": "one.cas"},
         [("assembler.py", ["prog2.asm", "--to_bin", "o.bin", "--to_cas", "o.cas", "--to_dsk", "o.dsk",
                            "--append"])]),
        ("asm/seq/cas-twice-noappend", {}, [("assembler.py", ["prog.asm", "--to_cas", "o.cas"]),
                                            ("assembler.py", ["prog2.asm", "--to_cas", "o.cas"])]),
        ("asm/seq/cas-append-chain", {}, [("assembler.py", ["prog.asm", "--to_cas", "o.cas", "--append"]),
                                          ("assembler.py", ["prog2.asm", "--to_cas", "o.cas", "--append"]),
                                          ("assembler.py", ["prog.asm", "--to_cas", "o.cas", "--append"]),
                                          ("file_util.py", ["o.cas", "--list"])]),
        ("asm/seq/dsk-append-chain", {}, [("assembler.py", ["prog.asm", "--to_dsk", "o.dsk"]),
                                          ("assembler.py", ["prog2.asm", "--to_dsk", "o.dsk", "--append"]),
                                          ("assembler.py", ["prog.asm", "--to_dsk", "o.dsk"]),
                                          ("file_util.py", ["o.dsk", "--list"])]),
        ("asm/seq/bin-twice", {}, [("assembler.py", ["prog.asm", "--to_bin", "o.bin"]),
                                   ("assembler.py", ["prog2.asm", "--to_bin", "o.bin"]),
                                   ("assembler.py", ["prog2.asm", "--to_bin", "o.bin", "--append"])]),
        ("asm/seq/cas-then-dsk-same-path", {}, [("assembler.py", ["prog.asm", "--to_cas", "o.img"]),
                                                ("assembler.py", ["prog2.asm", "--to_dsk", "o.img", "--append"]),
                                                ("assembler.py", ["prog2.asm", "--to_dsk", "o.img"])]),
        ("asm/target-is-dir", {"adir/": None}, [("assembler.py", ["prog.asm", "--to_cas", "adir"]),
                                                 ("assembler.py", ["prog.asm", "--to_bin", "adir", "--append"])]),
        ("asm/target-in-missing-dir", {}, [("assembler.py", ["prog.asm", "--to_cas", "nodir/o.cas"]),
                                           ("assembler.py", ["prog.asm", "--to_dsk", "nodir/o.dsk"]),
                                           ("assembler.py", ["prog.asm", "--to_bin", "nodir/o.bin"])]),
        ("asm/bad-source", {}, [("assembler.py", ["bad.asm", "--to_cas", "o.cas"])]),
        ("asm/missing-source", {}, [("assembler.py", ["nothere.asm", "--to_cas", "o.cas"])]),
        ("asm/target-is-source", {}, [("assembler.py", ["prog.asm", "--to_bin", "prog.asm"]),
                                      ("assembler.py", ["prog.asm", "--to_cas", "prog.asm", "--append"])]),
        ("futil/list/cas", {}, [("file_util.py", ["two.cas", "--list"])]),
        ("futil/list/dsk", {}, [("file_util.py", ["two.dsk", "--list"])]),
        ("futil/list/missing", {}, [("file_util.py", ["nothere.cas", "--list"])]),
        ("futil/list-wins-over-save", {}, [("file_util.py", ["two.cas", "--list", "--to_dsk", "o.dsk"])]),
        ("futil/files/match", {}, [("file_util.py", ["two.cas", "--to_dsk", "o.dsk", "--files", "second"])]),
        ("futil/files/nomatch", {}, [("file_util.py", ["two.cas", "--to_cas", "o.cas", "--files", "zzz"])]),
        ("futil/files/bin-nomatch", {}, [("file_util.py", ["one.cas", "--to_bin", "o.bin", "--files", "zzz"])]),
        ("futil/files/bin-match", {"o.bin": "raw.bin"},
         [("file_util.py", ["one.dsk", "--to_bin", "o.bin", "--files", "hello", "x", "--append"])]),
        ("futil/missing-host/bin", {}, [("file_util.py", ["nothere.cas", "--to_bin", "o.bin"])]),
        ("futil/missing-host/cas", {}, [("file_util.py", ["nothere.cas", "--to_cas", "o.cas"])]),
        ("futil/missing-host/dsk", {"o.dsk": "one.dsk"}, [("file_util.py", ["nothere.cas", "--to_dsk", "o.dsk"])]),
        ("futil/all-three", {}, [("file_util.py", ["one.cas", "--to_bin", "o.bin", "--to_cas", "o.cas",
                                                   "--to_dsk", "o.dsk"])]),
        ("futil/all-three/two-files", {}, [("file_util.py", ["two.dsk", "--to_bin", "o.bin", "--to_cas", "o.cas",
                                                             "--to_dsk", "o.dsk"])]),
        ("futil/all-three/dsk-exists", {"o.dsk": "one.dsk"},
         [("file_util.py", ["one.cas", "--to_bin", "o.bin", "--to_cas", "o.cas", "--to_dsk", "o.dsk"])]),
        ("futil/target-is-host/append", {}, [("file_util.py", ["two.cas", "--to_cas", "two.cas", "--append"])]),
        ("futil/target-is-host/noappend", {}, [("file_util.py", ["two.dsk", "--to_dsk", "two.dsk"])]),
        ("futil/host-junk", {}, [("file_util.py", ["junk.dat", "--to_cas", "o.cas"]),
                                 ("file_util.py", ["junk.dat", "--to_bin", "o.bin"])]),
        ("futil/target-is-dir", {"adir/": None}, [("file_util.py", ["one.cas", "--to_dsk", "adir", "--append"])]),
        ("futil/target-in-missing-dir", {}, [("file_util.py", ["one.cas", "--to_dsk", "nodir/o.dsk"])]),
        ("futil/seq/roundtrip", {}, [("file_util.py", ["two.cas", "--to_dsk", "o.dsk"]),
                                     ("file_util.py", ["o.dsk", "--to_cas", "o.cas"]),
                                     ("file_util.py", ["o.cas", "--to_dsk", "o.dsk"]),
                                     ("file_util.py", ["o.cas", "--to_dsk", "o.dsk", "--append"]),
                                     ("file_util.py", ["o.dsk", "--list"])]),
    ]
    for name, pre, cmds in extra:
        cases.append({"name": name, "pre": pre, "cmds": cmds})
    return cases


# --------------------------------------------------------------------------
# worker
# --------------------------------------------------------------------------

SOURCES = ["prog.asm", "prog2.asm", "noname.asm", "bad.asm", "one.cas", "one.dsk", "two.cas", "two.dsk", "junk.dat"]


def snapshot(directory):
    result = {}
    for root, dirs, files in os.walk(directory):
        for entry in sorted(dirs):
            rel = os.path.relpath(os.path.join(root, entry), directory)
            result[rel + "/"] = "dir"
        for entry in sorted(files):
            path = os.path.join(root, entry)
            rel = os.path.relpath(path, directory)
            with open(path, "rb") as handle:
                data = handle.read()
            stat = os.stat(path)
            result[rel] = {
                "size": len(data),
                "sha256": hashlib.sha256(data).hexdigest(),
                "touched": int(stat.st_mtime) != OLD_MTIME,
            }
    return result


def age_files(directory):
    for root, _, files in os.walk(directory):
        for entry in files:
            os.utime(os.path.join(root, entry), (OLD_MTIME, OLD_MTIME))


def stderr_tail(tree, text):
    lines = [line for line in text.replace(tree, "<TREE>").splitlines() if line.strip()]
    return lines[-1] if lines else ""


def run_cli_case(tree, fixdir, case):
    scratch = tempfile.mkdtemp(prefix="c10case_")
    try:
        for name in SOURCES:
            shutil.copy(os.path.join(fixdir, name), os.path.join(scratch, name))
        for target, fixture in case["pre"].items():
            if target.endswith("/"):
                os.makedirs(os.path.join(scratch, target))
            else:
                shutil.copy(os.path.join(fixdir, fixture), os.path.join(scratch, target))
        steps = []
        for tool, args in case["cmds"]:
            age_files(scratch)
            proc = run_tool(tree, scratch, tool, args)
            steps.append({
                "cmd": [tool] + list(args),
                "rc": proc.returncode,
                "stdout": proc.stdout.replace(tree, "<TREE>"),
                "stderr_tail": stderr_tail(tree, proc.stderr),
                "files": snapshot(scratch),
            })
        return {"case": case["name"], "steps": steps}
    finally:
        shutil.rmtree(scratch, ignore_errors=True)


def describe_exception(error):
    return {"exc_type": type(error).__name__, "exc_msg": str(error)}


def library_cases(tree, fixdir):
    """Drives VirtualFile / SourceFile of the tree directly."""
    sys.path.insert(0, tree)
    from cocoasm.virtualfiles.virtual_file import VirtualFile, VirtualFileType
    from cocoasm.virtualfiles.source_file import SourceFile, SourceFileType
    from cocoasm.virtualfiles.coco_file import CoCoFile
    from cocoasm.values import NumericValue
    import cocoasm.virtualfiles.virtual_file as vf_module
    assert os.path.realpath(vf_module.__file__).startswith(os.path.realpath(tree)), vf_module.__file__

    results = []
    scratch = tempfile.mkdtemp(prefix="c10lib_")
    old_cwd = os.getcwd()
    os.chdir(scratch)

    def coco(name="LIBFILE", size=10, kind=0x02, data_type=0x00):
        return CoCoFile(
            name=name, extension="bin", type=NumericValue(kind), data_type=NumericValue(data_type),
            load_addr=NumericValue(0x0E00), exec_addr=NumericValue(0x0E00),
            data=[(i * 7) % 256 for i in range(size)],
        )

    def file_state(path):
        if not os.path.exists(path):
            return None
        if os.path.isdir(path):
            return "dir"
        with open(path, "rb") as handle:
            data = handle.read()
        return {"size": len(data), "sha256": hashlib.sha256(data).hexdigest(),
                "touched": int(os.stat(path).st_mtime) != OLD_MTIME}

    def record(name, func, watch=()):
        entry = {"case": "lib/" + name}
        for path in watch:
            if os.path.isfile(path):
                os.utime(path, (OLD_MTIME, OLD_MTIME))
        try:
            entry["result"] = func()
        except BaseException as error:  # noqa - SystemExit included on purpose
            entry.update(describe_exception(error))
        entry["files"] = {path: file_state(path) for path in watch}
        results.append(entry)

    type_by_name = {
        "none": None, "unknown": VirtualFileType.UNKNOWN, "cas": VirtualFileType.CASSETTE,
        "bin": VirtualFileType.BINARY, "dsk": VirtualFileType.DISK,
    }

    def vf_summary(virtual_file):
        buffer = virtual_file.source_file.get_buffer()
        return {
            "type": str(virtual_file.virtual_file_type),
            "exists": virtual_file.file_exists,
            "names": [coco_file.name for coco_file in virtual_file.coco_file_list],
            "lens": [len(coco_file.data) for coco_file in virtual_file.coco_file_list],
            "buffer_len": len(buffer),
            "buffer_sha": hashlib.sha256(bytes(int(b) & 0xFF for b in buffer)).hexdigest(),
        }

    # open_virtual_file: requested type x existing content
    for type_name, wanted in type_by_name.items():
        for pre_name, pre_fix in PRE_KINDS:
            target = "open_{}_{}.x".format(type_name, pre_name)
            if pre_fix:
                shutil.copy(os.path.join(fixdir, pre_fix), target)

            def do_open(target=target, wanted=wanted):
                virtual_file = VirtualFile(SourceFile(target, file_type=SourceFileType.BINARY), wanted)
                try:
                    virtual_file.open_virtual_file()
                finally:
                    state = vf_summary(virtual_file)
                return state
            record("open/{}/{}".format(type_name, pre_name), do_open, watch=(target,))

    # open + add + save: requested type x append value x existing content
    append_values = [("false", False), ("true", True), ("none", None), ("one", 1), ("zero", 0), ("str", "yes")]
    for type_name, wanted in type_by_name.items():
        for append_name, append in append_values:
            for pre_name, pre_fix in PRE_KINDS:
                if append_name not in ("false", "true") and pre_name not in ("absent", "cas", "dsk"):
                    continue
                if pre_name == "bigcas" and type_name in ("none", "unknown"):
                    continue
                target = "save_{}_{}_{}.x".format(type_name, append_name, pre_name)
                if pre_fix:
                    shutil.copy(os.path.join(fixdir, pre_fix), target)

                def do_save(target=target, wanted=wanted, append=append):
                    virtual_file = VirtualFile(SourceFile(target, file_type=SourceFileType.BINARY), wanted)
                    stage = "open"
                    try:
                        virtual_file.open_virtual_file()
                        stage = "add"
                        virtual_file.add_coco_file(coco())
                        stage = "save"
                        returned = virtual_file.save_virtual_file(append_mode=append)
                        stage = "done:{!r}".format(returned)
                    except Exception as error:
                        return {"stage": stage, "state": vf_summary(virtual_file), **describe_exception(error)}
                    return {"stage": stage, "state": vf_summary(virtual_file)}
                record("save/{}/{}/{}".format(type_name, append_name, pre_name), do_save, watch=(target,))

    # save without open, default append argument, forced file_exists flag
    for type_name, wanted in type_by_name.items():
        for forced in (False, True):
            target = "forced_{}_{}.x".format(type_name, forced)
            with open(target, "wb") as handle:
                handle.write(b"KEEP ME")

            def do_forced(target=target, wanted=wanted, forced=forced):
                virtual_file = VirtualFile(SourceFile(target, file_type=SourceFileType.BINARY), wanted)
                virtual_file.file_exists = forced
                virtual_file.add_coco_file(coco("FORCED", 300))
                try:
                    virtual_file.save_virtual_file()
                except Exception as error:
                    return {"state": vf_summary(virtual_file), **describe_exception(error)}
                return {"state": vf_summary(virtual_file)}
            record("forced/{}/{}".format(type_name, forced), do_forced, watch=(target,))

    # container failure comes before / instead of the exists check
    def disk_full(exists, append):
        target = "full_{}_{}.dsk".format(exists, append)
        with open(target, "wb") as handle:
            handle.write(b"ORIGINAL")
        os.utime(target, (OLD_MTIME, OLD_MTIME))
        virtual_file = VirtualFile(SourceFile(target, file_type=SourceFileType.BINARY), VirtualFileType.DISK)
        virtual_file.file_exists = exists
        for index in range(80):
            virtual_file.add_coco_file(coco("F{}".format(index), 2500))
        try:
            virtual_file.save_virtual_file(append_mode=append)
        except Exception as error:
            return {"file": file_state(target), **describe_exception(error)}
        return {"file": file_state(target)}
    for exists in (False, True):
        for append in (False, True):
            record("diskfull/{}/{}".format(exists, append), lambda e=exists, a=append: disk_full(e, a))

    def bad_member(wanted, exists):
        target = "badmember_{}_{}.x".format(wanted.name, exists)
        with open(target, "wb") as handle:
            handle.write(b"ORIGINAL")
        os.utime(target, (OLD_MTIME, OLD_MTIME))
        virtual_file = VirtualFile(SourceFile(target, file_type=SourceFileType.BINARY), wanted)
        virtual_file.file_exists = exists
        virtual_file.add_coco_file("not a coco file")
        try:
            virtual_file.save_virtual_file(append_mode=False)
        except Exception as error:
            return {"file": file_state(target), **describe_exception(error)}
        return {"file": file_state(target)}
    for wanted in (VirtualFileType.CASSETTE, VirtualFileType.BINARY, VirtualFileType.DISK):
        for exists in (False, True):
            record("badmember/{}/{}".format(wanted.name, exists), lambda w=wanted, e=exists: bad_member(w, e))

    # source file of ASSEMBLY type: write_file is a no-op
    def assembly_typed(wanted):
        target = "asmtyped_{}.x".format(wanted.name)
        virtual_file = VirtualFile(SourceFile(target), wanted)
        virtual_file.open_virtual_file()
        virtual_file.add_coco_file(coco())
        virtual_file.save_virtual_file(append_mode=True)
        return {"state": vf_summary(virtual_file), "file": file_state(target)}
    for wanted in (VirtualFileType.CASSETTE, VirtualFileType.BINARY, VirtualFileType.DISK):
        record("asmtyped/{}".format(wanted.name), lambda w=wanted: assembly_typed(w))

    # get_coco_files / list_files
    for pre_name, pre_fix in PRE_KINDS + [("twocas", "two.cas"), ("twodsk", "two.dsk")]:
        if not pre_fix:
            continue

        def do_sniff(pre_fix=pre_fix):
            source = SourceFile(os.path.join(fixdir, pre_fix), file_type=SourceFileType.BINARY)
            source.read_file()
            virtual_file = VirtualFile(source)
            files, kind = virtual_file.get_coco_files()
            virtual_file.open_virtual_file()
            return {
                "kind": str(kind), "names": [f.name for f in files], "listing": [str(f) for f in files],
                "filtered": [f.name for f in virtual_file.list_files(filenames=["SECOND  ", "SECOND"])],
                "all": [f.name for f in virtual_file.list_files()],
                "state": vf_summary(virtual_file),
            }
        record("sniff/{}".format(pre_name), do_sniff)

    # SourceFile primitives
    def sf_roundtrip(values):
        target = "sf_{}.bin".format(hashlib.sha256(repr(values).encode()).hexdigest()[:10])
        with open(target, "wb") as handle:
            handle.write(b"BEFORE")
        source = SourceFile(target, file_type=SourceFileType.BINARY)
        source.set_buffer(values)
        try:
            source.write_file()
        except Exception as error:
            return {"file": file_state(target), **describe_exception(error)}
        reread = SourceFile(target, file_type=SourceFileType.BINARY)
        reread.read_file()
        static = SourceFile.read_binary_contents(target)
        return {"file": file_state(target), "buffer": reread.get_buffer()[:64], "len": len(reread.get_buffer()),
                "same": static == reread.get_buffer(), "types": sorted({type(v).__name__ for v in static})}
    for values in ([], [0], [255], [0, 1, 2, 254, 255], list(range(256)) * 3, [256], [-1], [1, 2, "a"],
                   [1.5], bytearray(b"abc"), b"xyz", (9, 8, 7), [True, False]):
        record("sourcefile/roundtrip/{!r}".format(values if len(values) < 10 else len(values)),
               lambda v=values: sf_roundtrip(v))

    def sf_misc():
        out = {}
        with open("text.asm", "w") as handle:
            handle.write("  LDA #1\n  RTS\n")
        source = SourceFile("text.asm")
        source.read_file()
        out["asm_lines"] = source.get_buffer()
        out["asm_static"] = SourceFile.read_assembly_contents("text.asm")
        source.set_buffer([1, 2, 3])
        source.write_file()
        out["asm_after_write"] = file_state("text.asm")["sha256"]
        binary = SourceFile("text.asm", file_type=SourceFileType.BINARY)
        binary.read_file()
        out["as_binary"] = binary.get_buffer()
        out["name"] = binary.get_file_name()
        odd = SourceFile("text.asm", file_type="neither")
        odd.read_file()
        odd.write_file()
        out["odd_buffer"] = odd.get_buffer()
        SourceFile.write_binary_contents("direct.bin", [65, 66, 67])
        out["direct"] = SourceFile.read_binary_contents("direct.bin")
        return out
    record("sourcefile/misc", sf_misc)

    for label, func in (
        ("read-missing-binary", lambda: SourceFile("nope.bin", file_type=SourceFileType.BINARY).read_file()),
        ("read-missing-asm", lambda: SourceFile("nope.asm").read_file()),
        ("write-missing-dir", lambda: SourceFile.write_binary_contents("nodir/x.bin", [1])),
        ("read-dir", lambda: SourceFile.read_binary_contents(".")),
        ("write-none-name", lambda: SourceFile(None, file_type=SourceFileType.BINARY).write_file()),
        ("open-none-name", lambda: VirtualFile(SourceFile(None), VirtualFileType.DISK).open_virtual_file()),
        ("save-no-source", lambda: VirtualFile(None, VirtualFileType.BINARY).save_virtual_file()),
        ("save-no-source-none-type", lambda: VirtualFile().save_virtual_file(append_mode=True)),
        ("open-no-source", lambda: VirtualFile().open_virtual_file()),
    ):
        record("errors/" + label, func)

    os.chdir(old_cwd)
    shutil.rmtree(scratch, ignore_errors=True)
    return results


def worker(tree, fixdir):
    tree = os.path.realpath(tree)
    results = []
    for case in cli_cases():
        results.append(run_cli_case(tree, fixdir, case))
    results.extend(library_cases(tree, fixdir))
    json.dump(results, sys.stdout, indent=0, sort_keys=True, default=repr)


# --------------------------------------------------------------------------
# parent
# --------------------------------------------------------------------------


def main():
    if len(sys.argv) == 4 and sys.argv[1] == "--worker":
        worker(sys.argv[2], sys.argv[3])
        return 0
    if len(sys.argv) != 3:
        print(__doc__)
        return 2
    tree_a, tree_b = (os.path.realpath(path) for path in sys.argv[1:3])
    fixdir = tempfile.mkdtemp(prefix="c10fix_")
    try:
        build_fixtures(tree_a, fixdir)
        procs = []
        for tree in (tree_a, tree_b):
            env = dict(os.environ)
            env["PYTHONDONTWRITEBYTECODE"] = "1"
            env["PYTHONHASHSEED"] = "0"
            env.pop("PYTHONPATH", None)
            procs.append(subprocess.Popen(
                [PY, os.path.abspath(__file__), "--worker", tree, fixdir],
                cwd=tree, env=env, stdout=subprocess.PIPE, stderr=subprocess.PIPE, text=True,
            ))
        outputs = []
        for tree, proc in zip((tree_a, tree_b), procs):
            out, err = proc.communicate()
            if proc.returncode != 0:
                print("worker for {} failed:\n{}".format(tree, err))
                return 1
            outputs.append(json.loads(out))
    finally:
        shutil.rmtree(fixdir, ignore_errors=True)

    results_a, results_b = outputs
    differences = 0
    if len(results_a) != len(results_b):
        print("DIFFERENT number of cases: {} vs {}".format(len(results_a), len(results_b)))
        differences += 1
    for item_a, item_b in zip(results_a, results_b):
        if item_a != item_b:
            differences += 1
            print("DIFFERENCE in case {}".format(item_a.get("case")))
            print("  A: {}".format(json.dumps(item_a, sort_keys=True)[:1500]))
            print("  B: {}".format(json.dumps(item_b, sort_keys=True)[:1500]))
    refused = sum(
        1 for item in results_a for step in item.get("steps", [])
        if "already exists" in step["stdout"] or "is not of type" in step["stdout"]
    )
    print("{} cases compared ({} CLI steps refused to write), {} differences".format(
        len(results_a), refused, differences))
    return 0 if differences == 0 else 1


if __name__ == "__main__":
    sys.exit(main())
