#!/usr/bin/env python
"""
Differential demonstration: runs the same inputs through the code of two
source trees (one subprocess per tree, the tree being cwd and the first entry
of sys.path) and compares every observable result.

usage: equiv.py <treeA> <treeB>      exit 0 = all cases agree, 1 = difference
"""
import json
import os
import subprocess
import sys

WORKER = r'''
import contextlib, enum, io, json, os, subprocess, sys, tempfile
tree = os.path.abspath(sys.argv[1])
os.chdir(tree)
sys.path.insert(0, tree)
sys.dont_write_bytecode = True

import cocoasm.values as values_mod
import cocoasm.operands as operands_mod
import cocoasm.instruction as instruction_mod
import cocoasm.statement as statement_mod
import cocoasm.program as program_mod
import cocoasm.exceptions as exceptions_mod
from cocoasm.values import *
from cocoasm.operands import *
from cocoasm.instruction import *
from cocoasm.statement import Statement
from cocoasm.program import Program
from cocoasm.exceptions import *


def safe(fn):
    try:
        return describe(fn())
    except Exception as error:
        return {"raised": type(error).__name__, "msg": str(error)}


def describe(obj, depth=0):
    if depth > 6:
        return "<deep>"
    if obj is None or isinstance(obj, (bool, int, str, float)):
        return obj
    if isinstance(obj, bytes):
        return obj.hex()
    if isinstance(obj, enum.Enum):
        return str(obj)
    if isinstance(obj, (list, tuple)):
        return [describe(x, depth + 1) for x in obj]
    if isinstance(obj, (set, frozenset)):
        return sorted(describe(x, depth + 1) for x in obj)
    if isinstance(obj, dict):
        return [[describe(k, depth + 1), describe(v, depth + 1)] for k, v in obj.items()]
    if isinstance(obj, values_mod.Value):
        out = {"cls": type(obj).__name__}
        for name in ("type", "int", "size_hint", "explict_addressing_mode", "negative", "resolved",
                     "original_string", "hex_array", "operation", "original_value"):
            if hasattr(obj, name):
                out[name] = describe(getattr(obj, name), depth + 1)
        for name in ("left", "right", "value"):
            if hasattr(obj, name):
                out[name] = describe(getattr(obj, name), depth + 1)
        out["hex()"] = safe(obj.hex)
        out["hex_len()"] = safe(obj.hex_len)
        out["byte_len()"] = safe(obj.byte_len)
        out["is_8_bit()"] = safe(obj.is_8_bit)
        out["is_16_bit()"] = safe(obj.is_16_bit)
        return out
    if isinstance(obj, instruction_mod.CodePackage):
        return {"cls": "CodePackage", "fields": [[k, describe(v, depth + 1)] for k, v in sorted(vars(obj).items())]}
    if isinstance(obj, operands_mod.Operand):
        out = {"cls": type(obj).__name__}
        for name in ("type", "operand_string", "requires_resolution", "operation", "value", "left", "right"):
            out[name] = describe(getattr(obj, name, "<missing>"), depth + 1)
        out["mnemonic"] = getattr(obj.instruction, "mnemonic", None)
        return out
    if isinstance(obj, instruction_mod.Instruction):
        return {"cls": "Instruction", "fields": describe(tuple(obj), depth + 1)}
    if isinstance(obj, instruction_mod.Mode):
        return {"cls": "Mode", "fields": list(obj)}
    if isinstance(obj, statement_mod.Statement):
        out = {"cls": "Statement"}
        for name in ("is_empty", "is_comment_only", "label", "mnemonic", "comment", "state", "fixed_size",
                     "pcr_size_hint", "operand", "original_operand", "code_pkg"):
            out[name] = describe(getattr(obj, name, "<missing>"), depth + 1)
        out["str"] = safe(lambda: str(obj))
        return out
    if isinstance(obj, BaseException):
        out = {"exc": type(obj).__name__, "msg": str(obj), "args": describe(obj.args, depth + 1)}
        if hasattr(obj, "value"):
            out["value"] = describe(obj.value, depth + 1)
        if hasattr(obj, "statement"):
            stmt = obj.statement
            out["statement"] = stmt if isinstance(stmt, str) else safe(lambda: str(stmt))
        return out
    return "<{}>".format(type(obj).__name__)


def run_program(lines, deep):
    program = Program()
    out = {}
    try:
        program.process([line + "\n" for line in lines])
    except BaseException as error:
        out["error"] = describe(error)
        out["statements_so_far"] = len(program.statements)
        return out
    out["binary"] = safe(program.get_binary_array)
    out["listing"] = safe(program.get_statements)
    out["symbols"] = safe(program.get_symbol_table)
    out["symbol_table"] = describe(program.symbol_table)
    out["origin"] = describe(program.origin)
    out["name"] = describe(program.name)
    out["layout"] = [
        [s.code_pkg.size, s.code_pkg.max_size, describe(s.code_pkg.address.hex()), s.fixed_size, s.pcr_size_hint]
        for s in program.statements
    ]
    if deep:
        out["statements"] = [describe(s) for s in program.statements]
    return out


def run_python(code):
    namespace = dict(globals())
    stream = io.StringIO()
    out = {}
    try:
        with contextlib.redirect_stdout(stream):
            exec(code, namespace)
        out["result"] = describe(namespace.get("result"))
    except BaseException as error:
        out["error"] = describe(error)
    out["stdout"] = stream.getvalue()
    return out


def run_cli(case):
    out = {"runs": []}
    with tempfile.TemporaryDirectory() as work:
        for name, content in case.get("files", {}).items():
            with open(os.path.join(work, name), "wb") as handle:
                handle.write(content.encode("latin-1"))
        env = dict(os.environ, PYTHONDONTWRITEBYTECODE="1")
        for argv in case["runs"]:
            done = subprocess.run(
                [sys.executable, os.path.join(tree, case["tool"])] + argv,
                cwd=work, env=env, stdout=subprocess.PIPE, stderr=subprocess.PIPE, timeout=120,
            )
            run = {"returncode": done.returncode}
            run["stdout"] = done.stdout.decode("latin-1").replace(tree, "<TREE>").replace(work, "<WORK>")
            stderr_lines = done.stderr.decode("latin-1").replace(tree, "<TREE>").replace(work, "<WORK>")
            stderr_lines = stderr_lines.strip().splitlines()
            # tracebacks carry line numbers of the tree, keep only the final line
            run["stderr_last"] = stderr_lines[-1] if stderr_lines else ""
            run["files"] = {}
            for name in sorted(os.listdir(work)):
                path = os.path.join(work, name)
                if os.path.isfile(path):
                    with open(path, "rb") as handle:
                        run["files"][name] = handle.read().hex()
                else:
                    run["files"][name] = sorted(os.listdir(path))
            out["runs"].append(run)
    return out


results = []
for case in json.load(sys.stdin):
    kind = case["k"]
    if kind == "prog":
        results.append(run_program(case["src"], case.get("deep", False)))
    elif kind == "py":
        results.append(run_python(case["code"]))
    elif kind == "cli":
        results.append(run_cli(case))
    else:
        results.append({"bad kind": kind})
json.dump(results, sys.stdout)
'''


def prog(*lines, deep=True):
    return {"k": "prog", "src": list(lines), "deep": deep}


def py(code):
    return {"k": "py", "code": code}


def cli(tool, argv, files=None):
    """One command line run (argv is a list of strings) or several in the same directory (a list of lists)."""
    runs = [list(argv)] if argv and isinstance(argv[0], str) else [list(a) for a in argv]
    return {"k": "cli", "tool": tool, "runs": runs, "files": files or {}}


def one(statement, *extra, deep=True):
    """A one-instruction program at $1000 with a few symbols available."""
    return prog(
        "        ORG   $1000",
        "SMALL   EQU   $12",
        "BIG     EQU   $1234",
        "START   NOP   ",
        "        " + statement,
        "NEXT    NOP   ",
        *extra, deep=deep
    )


def run_tree(tree, cases):
    env = dict(os.environ, PYTHONDONTWRITEBYTECODE="1")
    done = subprocess.run(
        [sys.executable, "-B", "-c", WORKER, tree],
        input=json.dumps(cases).encode(), stdout=subprocess.PIPE, stderr=subprocess.PIPE,
        cwd=tree, env=env,
    )
    if done.returncode != 0:
        sys.stderr.write(done.stderr.decode())
        raise SystemExit("worker failed for " + tree)
    return json.loads(done.stdout.decode())


def main():
    if len(sys.argv) != 3:
        raise SystemExit(__doc__)
    tree_a, tree_b = (os.path.abspath(p) for p in sys.argv[1:3])
    cases = build_cases()
    results_a = run_tree(tree_a, cases)
    results_b = run_tree(tree_b, cases)
    different = 0
    errors = 0
    for case, res_a, res_b in zip(cases, results_a, results_b):
        if "error" in res_a:
            errors += 1
        if res_a != res_b:
            different += 1
            if different <= 10:
                print("DIFFERENT:", json.dumps(case)[:400])
                print("   A:", json.dumps(res_a)[:600])
                print("   B:", json.dumps(res_b)[:600])
    print("{} cases ({} of them error cases in tree A), {} different".format(len(cases), errors, different))
    return 1 if different or len(results_a) != len(cases) or len(results_b) != len(cases) else 0


SPELLINGS = ["0", "5", "255", "256", "65535", "65536", "-1", "-128", "$5", "$05", "$005", "$0005", "$FF", "$0FF", "$FFFF",
             "$12345", "%00000101", "%0000000000000101", "%101", "'A", "5+1", "$10*2", "100/0", "7/2", "OTHER", "OTHER+1",
             "LBL", "LBL+1", "LATER", "LATER-LBL", "", "#5", "<5", ">5", "5,X", "[5]", "ME"]
USES = ["LDA   #{}", "LDA   {}", "LDX   #{}", "LDX   {}", "LDA   {},X", "LDA   [{}]", "LDA   {}+1", "LDX   #{}-1",
        "LEAX  {},PCR", "FCB   {}", "FDB   {}", "JMP   {}"]


def build_cases():
    cases = []
    for spelling in SPELLINGS:
        head = ["        ORG   $0E00", "OTHER   EQU   $20", "LBL     NOP   ", "ME      EQU   " + spelling]
        for use in USES:
            cases.append(prog(*head, "HERE    " + use.format("ME"), "LATER   RTS   ", deep=False))
        # defined after its use
        cases.append(prog("        ORG   $0E00", "OTHER   EQU   $20", "LBL     LDA   #ME", "        LDX   ME",
                          "        LDB   ME,X", "LATER   RTS   ", "ME      EQU   " + spelling))
    # labels on every kind of statement, and what they end up as in the symbol table
    cases.append(prog("L0      NOP   ", "L1      ORG   $2000", "L2      FCB   1,2,3", "L3      FDB   1,2", "L4      RMB   10",
                      'L5      FCC   "AB"', "L6      EQU   L4", "L7      EQU   $10", "L8      SETDP $20", "L9      NAM   PROG",
                      "L10     LDA   L2", "L11     LDX   #L6", "L12     END   L0"))
    cases.append(prog("        ORG   $0100", "@A      NOP   ", "B@      LDA   @A", "A1      LDX   #B@", "1A      LDB   A1",
                      "A_B     JMP   1A", "        JMP   A_B"))
    # redefinitions in every combination, first definition wins the complaint
    for first in ("NOP   ", "EQU   5", "FCB   1", "ORG   $100"):
        for second in ("NOP   ", "EQU   5", "EQU   6", "RMB   2"):
            cases.append(prog("        ORG   $0E00", "TWICE   " + first, "        NOP   ", "TWICE   " + second,
                              "        LDA   TWICE"))
    cases.append(prog("SAME    NOP   ", "same    NOP   ", "        LDA   SAME", "        LDA   same"))
    cases.append(prog("A       NOP   ", "X       NOP   ", "PCR     NOP   ", "        LDA   A", "        LDA   X", "        JMP   PCR"))
    # many labels, symbol table order and addresses with later ORGs
    cases.append(prog(*(["        ORG   $1000"] + ["N{}     LDD   #N{}".format(i, (i * 7) % 40) for i in range(40)]
                        + ["        ORG   $3000"] + ["M{}     FDB   {}".format(i, i) for i in range(10)]), deep=False))
    # save_symbol and the symbol table object itself
    cases.append(py(
        "program = Program()\n"
        "table = program.symbol_table\n"
        "program.process(['        ORG   $0E00\\n', 'K       EQU   5\\n', 'L       LDA   #K\\n', 'M       RTS   \\n'])\n"
        "result = [table is program.symbol_table, list(table), program.symbol_table]"))
    cases.append(py(
        "program = Program()\n"
        "stmts = program.parse(['L       NOP   \\n', 'K       EQU   $1234\\n', '        NOP   \\n', 'L       RTS   \\n'])\n"
        "rows = []\n"
        "for index, statement in enumerate(stmts):\n"
        "    try:\n"
        "        rows.append(describe(program.save_symbol(index * 10, statement)))\n"
        "    except Exception as error:\n"
        "        rows.append(describe(error))\n"
        "    rows.append(describe(program.symbol_table))\n"
        "result = rows"))
    source = "\n".join(["        NAM   SYMS", "        ORG   $0E00", "WIDTH   EQU   32", "SCREEN  EQU   $0400", "START   LDX   #SCREEN",
                        "LOOP    LDA   #WIDTH", "        STA   ,X+", "        CMPX  #SCREEN+WIDTH", "        BNE   LOOP",
                        "DONE    RTS   ", "        END   START", ""])
    cases.append(cli("assembler.py", ["s.asm", "--print", "--symbols", "--to_bin", "s.bin"], {"s.asm": source}))
    cases.append(cli("assembler.py", ["t.asm", "--symbols"], {"t.asm": "DUP     NOP   \nDUP     NOP   \n"}))
    return cases


if __name__ == "__main__":
    sys.exit(main())
