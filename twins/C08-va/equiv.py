#!/venv/bin/python
"""Differential check of DiskFile.write_to_granules between two trees.
usage: equiv.py <treeA> <treeB>; exit 0 if every observable result agrees."""
import json
import subprocess
import sys

DRIVER = r'''
import sys, os, json, hashlib, random, traceback
tree = sys.argv[1]
sys.path.insert(0, tree)
os.chdir(tree)
from cocoasm.virtualfiles.disk import DiskFile, DiskConstants, MLPreamble, BasicPreamble, ASCIIPreamble, Postamble
from cocoasm.virtualfiles.coco_file import CoCoFile
from cocoasm.values import NumericValue

results = []

def digest(buf):
    return hashlib.sha256(bytes(buf)).hexdigest()

def nonblank(buf):
    # run-length summary of the bytes that differ from a formatted image (0xFF)
    out = []
    start = None
    for i, b in enumerate(buf):
        if b != 0xFF:
            if start is None:
                start = i
        elif start is not None:
            out.append((start, i - start, hashlib.md5(bytes(buf[start:i])).hexdigest()))
            start = None
    if start is not None:
        out.append((start, len(buf) - start, hashlib.md5(bytes(buf[start:])).hexdigest()))
    return out

def listing(disk):
    try:
        files = disk.list_files()
        return [[f.name, f.extension, f.type.hex(), f.data_type.hex(), f.load_addr.hex(), f.exec_addr.hex(),
                 len(f.data), hashlib.md5(bytes(f.data)).hexdigest()] for f in files]
    except BaseException as e:
        return ["EXC", type(e).__name__, str(e)]

def record(label, fn):
    try:
        value = fn()
        results.append([label, "ok", value])
    except BaseException as e:
        results.append([label, "exc", type(e).__name__, str(e)])

def make_file(kind, length, n=0, seed=0):
    rnd = random.Random(length * 31 + seed)
    data = [rnd.randrange(256) for _ in range(length)]
    name = "F%d" % n
    if kind == "ml":
        return CoCoFile(name=name, extension="BIN", type=NumericValue(2), data_type=NumericValue(0),
                        load_addr=NumericValue(0x0E00 + n), exec_addr=NumericValue(0x0E10 + n), data=data)
    if kind == "bas":
        return CoCoFile(name=name, extension="BAS", type=NumericValue(0), data_type=NumericValue(0), data=data)
    return CoCoFile(name=name, extension="TXT", type=NumericValue(1), data_type=NumericValue(0xFF), data=data)

LENGTHS = [0, 1, 5, 245, 246, 250, 251, 255, 256, 257, 2293, 2294, 2295, 2298, 2299, 2300, 2301, 2303, 2304,
           2305, 4597, 4598, 4599, 4602, 4603, 4604, 4607, 4608, 4609, 6907, 6912, 20000, 65535]

# 1. single file on a blank image, every kind, boundary lengths
for kind in ("ml", "bas", "asc"):
    for length in LENGTHS:
        def case(kind=kind, length=length):
            d = DiskFile()
            d.add_file(make_file(kind, length))
            buf = d.get_buffer()
            return [len(buf), digest(buf), nonblank(buf), listing(DiskFile(buffer=list(buf)))]
        record("single/%s/%d" % (kind, length), case)

# 2. sequences under default and permuted fill order
for seed in range(12):
    def case(seed=seed):
        rnd = random.Random(seed)
        order = None
        if seed % 2:
            order = list(range(68))
            rnd.shuffle(order)
        d = DiskFile(granule_fill_order=order)
        out = []
        for n in range(rnd.randrange(2, 9)):
            kind = rnd.choice(["ml", "bas", "asc"])
            length = rnd.choice(LENGTHS[:-2] + [rnd.randrange(0, 12000)])
            try:
                d.add_file(make_file(kind, length, n, seed))
                out.append("added")
            except BaseException as e:
                out.append([type(e).__name__, str(e)])
        buf = d.get_buffer()
        return [out, digest(buf), nonblank(buf), listing(DiskFile(buffer=list(buf)))]
    record("sequence/%d" % seed, case)

# 3. fill the disk until it refuses
def fill(kind, length, order=None):
    d = DiskFile(granule_fill_order=order)
    out = []
    for n in range(80):
        try:
            d.add_file(make_file(kind, length, n))
            out.append("ok")
        except BaseException as e:
            out.append([type(e).__name__, str(e)])
            break
    buf = d.get_buffer()
    return [out, digest(buf), listing(DiskFile(buffer=list(buf)))]
record("fill/ml/2299", lambda: fill("ml", 2299))
record("fill/ml/2294", lambda: fill("ml", 2294))
record("fill/ml/2293", lambda: fill("ml", 2293))
record("fill/ml/10", lambda: fill("ml", 10))
record("fill/bas/9000/rev", lambda: fill("bas", 9000, list(reversed(range(68)))))

# 4. write_to_granules called directly
def amble():
    pre = MLPreamble(); pre.data_length = NumericValue(0x1234); pre.load_addr = NumericValue(0x2000)
    post = Postamble(); post.exec_addr = NumericValue(0x2010)
    return pre, post
def bpre():
    pre = BasicPreamble(); pre.data_length = NumericValue(0x0102)
    return pre

def direct(label, length, granules, pre=None, post=None, container=list, **kw):
    def case():
        d = DiskFile()
        data = container([(i * 7 + 3) % 256 for i in range(length)])
        granules_before = list(granules)
        ret = d.write_to_granules(data, granules, pre, post, **kw)
        buf = d.get_buffer()
        return [repr(ret), granules == granules_before, len(buf), digest(buf), nonblank(buf)]
    record("direct/" + label, case)

pre, post = amble()
direct("empty-granules", 512, [])
direct("empty-granules-ambles", 512, [], pre, post)
direct("no-ambles-234", 234, [0])
direct("no-ambles-2303", 2303, [0, 1])
direct("no-ambles-2304", 2304, [0])
direct("no-ambles-2304-two", 2304, [0, 5])
direct("no-ambles-2305", 2305, [0, 2])
direct("ml-234", 234, [0], pre, post)
direct("ml-0", 0, [3], pre, post)
direct("ml-2294", 2294, [4], pre, post)
direct("ml-2298", 2298, [4, 9], pre, post)
direct("ml-2299-one-granule", 2299, [4], pre, post)
direct("ml-2299-two", 2299, [4, 9], pre, post)
direct("ml-2300", 2300, [9, 4], pre, post)
direct("ml-extra-granules", 100, [10, 11, 12], pre, post)
direct("ml-too-few", 7000, [20, 21], pre, post)
direct("ml-three", 6000, [33, 34, 0], pre, post)
direct("ml-not-first", 234, [0], pre, post, first_granule=False)
direct("ml-not-first-2304", 2304, [7, 8], pre, post, first_granule=False)
direct("ml-not-first-2300", 2300, [7, 8], pre, post, first_granule=False)
direct("pre-only", 2301, [1, 2], pre, None)
direct("post-only", 2303, [1, 2], None, post)
direct("post-only-2304", 2304, [1, 2], None, post)
direct("basic-2301", 2301, [40, 41], bpre(), None)
direct("basic-2300", 2300, [40, 41], bpre(), None)
direct("ascii-2304", 2304, [50, 51], ASCIIPreamble(), None)
direct("ascii-2303", 2303, [50], ASCIIPreamble(), None)
direct("ascii-not-first", 10, [50], ASCIIPreamble(), post, first_granule=False)
direct("last-granule-spill", 2298, [67], pre, post)
direct("last-granule-fits", 2294, [67], pre, post)
direct("last-granule-spill-no-pre", 2302, [67], None, post)
direct("bad-granule-68", 10, [68], pre, post)
direct("bad-granule-second", 2400, [0, 70], pre, post)
direct("negative-granule", 10, [-1], None, None)
direct("bytes", 3000, [5, 6], pre, post, container=bytes)
direct("bytearray", 4603, [5, 6], pre, post, container=bytearray)
direct("tuple", 4604, [5, 6, 7], pre, post, container=tuple)
direct("tuple-granules", 2400, (5, 6), pre, post)
direct("positional-flag", 2400, [5, 6], pre, post)
def case():
    d = DiskFile()
    d.write_to_granules([1] * 2400, [5, 6], pre, post, False)
    return digest(d.get_buffer())
record("direct/positional-false", case)

print(json.dumps(results))
'''


def run(tree):
    proc = subprocess.run([sys.executable, "-c", DRIVER, tree], cwd=tree, capture_output=True, text=True)
    if proc.returncode != 0:
        print("driver failed in", tree, proc.stderr[-2000:])
        sys.exit(1)
    return json.loads(proc.stdout.strip().splitlines()[-1])


def main():
    tree_a, tree_b = sys.argv[1], sys.argv[2]
    res_a, res_b = run(tree_a), run(tree_b)
    bad = 0
    if len(res_a) != len(res_b):
        print("different number of results", len(res_a), len(res_b))
        bad += 1
    for a, b in zip(res_a, res_b):
        if a != b:
            bad += 1
            print("DIFF", a[0], "\n  A:", str(a)[:400], "\n  B:", str(b)[:400])
    excs = sum(1 for r in res_a if r[1] == "exc")
    print("%d cases compared (%d raise), %d differences" % (len(res_a), excs, bad))
    sys.exit(1 if bad else 0)


if __name__ == "__main__":
    main()
