#!/usr/bin/env python
"""
Differential demonstration: runs the same inputs through the code of two source
trees (one subprocess per tree, tree at the front of sys.path and as cwd) and
compares every observable result.

usage: equiv.py <treeA> <treeB>      exit 0 = all agree, 1 = some difference
"""
import json
import os
import subprocess
import sys
import tempfile

DRIVER = r'''
import sys, os, json, io, contextlib, tempfile, subprocess, hashlib
tree = os.path.abspath(sys.argv[1])
sys.path.insert(0, tree)
os.chdir(tree)
from cocoasm.program import Program
from cocoasm.instruction import INSTRUCTIONS
from cocoasm.statement import Statement
from cocoasm.values import *
from cocoasm.operands import *
from cocoasm import values as V, operands as O, statement as S, program as P


def describe_error(error):
    out = {"exc": type(error).__name__, "msg": str(error), "value": repr(getattr(error, "value", None))}
    statement = getattr(error, "statement", None)
    try:
        out["stmt"] = str(statement)
    except Exception as inner:
        out["stmt"] = "unprintable: {} {}".format(type(inner).__name__, inner)
    return out


def assemble(lines):
    program = Program()
    try:
        program.process(lines)
    except BaseException as error:
        return describe_error(error)
    out = {}
    for key, fn in (
        ("bin", program.get_binary_array),
        ("stmts", program.get_statements),
        ("syms", program.get_symbol_table),
        ("origin", lambda: [program.origin.hex(), program.origin.int, type(program.origin).__name__]),
        ("name", lambda: program.name),
        ("pkgs", lambda: [
            [s.code_pkg.size, s.code_pkg.max_size, s.code_pkg.address.hex(), s.code_pkg.op_code.hex(),
             s.code_pkg.post_byte.hex(), s.code_pkg.additional.hex(), s.code_pkg.additional_needs_resolution,
             list(s.code_pkg.post_byte_choices), s.fixed_size, s.pcr_size_hint, type(s.operand).__name__,
             s.operand.type.name, type(s.operand.value).__name__]
            for s in program.statements]),
    ):
        try:
            out[key] = fn()
        except BaseException as error:
            out[key] = describe_error(error)
    return out


def single_statement_programs():
    forms = [
        "", "#$12", "#$1234", "#0", "#255", "#256", "#65535", "#-1", "#-128", "#-129", "#%10101010", "#'A",
        "$12", "$1234", "<$12", ">$12", "<$1234", ">$1234", "0", "15", "255", "256", "65535", "65536", "-1",
        "%00001111", "%0000111100001111", "%0101", "$12345",
        "[$1234]", "[$12]", "[200]", "[,X]", "[,Y++]", "[,--U]", "[,S+]", "[,-X]", "[A,X]", "[B,Y]", "[D,U]",
        "[5,X]", "[-5,Y]", "[127,U]", "[128,S]", "[-128,X]", "[-129,X]", "[$1234,Y]", "[0,X]", "[10,PCR]",
        "[$1234,PCR]", "[3,X+]",
        ",X", ",Y", ",U", ",S", ",X+", ",X++", ",-Y", ",--Y", "0,U", "A,X", "B,Y", "D,S", "1,X", "15,X", "16,X",
        "-16,Y", "-17,Y", "127,U", "128,U", "-128,S", "-129,S", "255,X", "256,X", "$7FFF,X", "-32768,X", "$10,Y",
        "$0010,Y", "10,PCR", "$1234,PCR", "-3,PCR", "5,X+", "5,-X", "E,X", ",Q", "1,2,3",
        "A", "A,B", "X,Y", "A,X", "D,PC", "CC,DP", "Q,A", "A,B,X,Y", "CC,A,B,DP,X,Y,U,PC", "S", "U", "D,X", "S,U,PC",
        "@@", "1+2", "$10+$20", "300-1", "2*3", "9/3", "FOO",
    ]
    for instruction in INSTRUCTIONS:
        if instruction.is_include:
            continue
        for form in forms:
            yield ["  {} {}".format(instruction.mnemonic, form)]


PROGRAMS = [
    ["  NAM demo", "  ORG $0E00", "START LDA #$01", "  LDX #MSG", "LOOP LDA ,X+", "  BEQ DONE", "  JSR $A002",
     "  BRA LOOP", "DONE RTS", "MSG FCC \"HELLO\"", "  FCB 0", "  END START"],
    ["  ORG $3F00", "VAL EQU $20", "WVAL EQU $1234", "  LDA VAL", "  LDA WVAL", "  LDA <WVAL", "  LDA >VAL",
     "  STA VAL,X", "  STA WVAL,Y", "  LDD #WVAL", "  LDB #VAL", "  LEAX VAL,PCR", "  LDA [VAL,U]", "  LDA [WVAL]"],
    ["BEG NOP", "  LEAX BEG,PCR", "  LEAY FIN,PCR", "  LDA [FIN,PCR]", "  LDB [BEG,PCR]", "  LEAU BEG+1,PCR",
     "  LEAS FIN-1,PCR", "  NOP", "FIN RTS"],
    ["BEG NOP"] + ["  LDA $1234"] * 41 + ["  LEAX BEG,PCR", "  LEAX BEG,PCR", "  LEAY FIN,PCR"] + ["  NOP"] * 125
    + ["FIN RTS"],
    ["BEG NOP"] + ["  NOP"] * 122 + ["  LEAX BEG,PCR", "  LEAX FIN,PCR"] + ["  NOP"] * 126 + ["FIN RTS"],
    ["BEG NOP"] + ["  NOP"] * 123 + ["  LEAX BEG,PCR", "  LEAX FIN,PCR"] + ["  NOP"] * 127 + ["FIN RTS"],
    ["BEG NOP"] + ["  NOP"] * 124 + ["  LEAX BEG,PCR", "  LEAX FIN,PCR"] + ["  NOP"] * 128 + ["FIN RTS"],
    ["BEG NOP"] + ["  NOP"] * 121 + ["  LDA [BEG,PCR]", "  LDA [FIN,PCR]"] + ["  NOP"] * 124 + ["FIN RTS"],
    ["BEG NOP"] + ["  NOP"] * 125 + ["  BRA BEG", "  BRA FIN"] + ["  NOP"] * 127 + ["FIN RTS"],
    ["BEG NOP"] + ["  NOP"] * 126 + ["  BRA BEG"],
    ["BEG NOP"] + ["  NOP"] * 127 + ["  BRA BEG"],
    ["  BRA FIN"] + ["  NOP"] * 127 + ["FIN RTS"],
    ["  BRA FIN"] + ["  NOP"] * 128 + ["FIN RTS"],
    ["BEG NOP"] + ["  NOP"] * 300 + ["  LBRA BEG", "  LBEQ FIN", "  LBSR BEG"] + ["  NOP"] * 300 + ["FIN RTS"],
    ["  ORG $1000", "A1 FDB A2,$1234,7", "A2 FCB 1,2,3,$FF", "  FDB A1", "  FCB 300", "  RMB 4", "A3 JMP A3",
     "  JSR A1+2", "  LDX #A2-1", "  LDD A3*1", "  LDA A2/2"],
    ["  LDA FOO"],
    ["X1 EQU 5", "X1 EQU 6"],
    ["LBL NOP", "LBL NOP"],
    ["  LDA #LBL", "LBL NOP"],
    ["  LDA 1+FOO"],
    ["  XYZ 12"],
    ["garbage"],
    ["  FCC 'AB' trailing", "  FCC /X/", "  FCC"],
    ["  FCC"],
    ["  ORG $0100", "  NOP", "  ORG $0200", "  NOP", "T EQU *"],
    ["Q EQU $10", "R EQU Q+1", "  LDA R", "  LDA Q,X", "  LDA [Q,X]", "  LDA R,PCR"],
    ["V EQU 300", "W EQU -5", "  LDA V,X", "  LDA W,X", "  LDA [V,Y]", "  LDA [W,Y]", "  LEAX V,PCR",
     "  LEAX [W,PCR]"],
    ["; comment only", "", "   ; another", "  NOP ; with comment", "L2 NOP", "  BNE L2 ; back"],
    ["S1 LDA S2,X", "S2 NOP"],
    ["S1 LDA [S2,X]", "S2 NOP"],
    ["S1 LDA S2+1,X", "S2 NOP"],
    ["  ORG $FFF0", "P1 LEAX P1,PCR", "  LEAX P1-2,PCR", "  LEAX P1+$100,PCR"],
    ["  PSHS A,B", "  PULS A,B,PC", "  PSHU S,X", "  PULU D", "  TFR A,B", "  EXG X,D", "  TFR A,X", "  PSHS"],
]


def cli_cases():
    sources = [
        PROGRAMS[0], PROGRAMS[1], PROGRAMS[2], PROGRAMS[14], PROGRAMS[15], PROGRAMS[20], PROGRAMS[21],
        ["  ORG $2000", "GO LDA #1", "  STA $400", "  BRA GO"],
    ]
    out = []
    for number, lines in enumerate(sources):
        with tempfile.TemporaryDirectory() as folder:
            source = os.path.join(folder, "in.asm")
            with open(source, "w") as handle:
                handle.write("".join(line + " \n" for line in lines))
            target = os.path.join(folder, "out.bin")
            cas = os.path.join(folder, "out.cas")
            done = subprocess.run(
                [sys.executable, os.path.join(tree, "assembler.py"), source, "--print", "--symbols",
                 "--to_bin", target, "--to_cas", cas, "--name", "PROG"],
                cwd=tree, capture_output=True, text=True)
            files = {}
            for name in sorted(os.listdir(folder)):
                with open(os.path.join(folder, name), "rb") as handle:
                    files[name] = hashlib.sha256(handle.read()).hexdigest()
            out.append({
                "rc": done.returncode, "out": done.stdout.replace(folder, "<tmp>"),
                "err": done.stderr.replace(tree, "<tree>").replace(folder, "<tmp>").splitlines()[-1:],
                "files": files})
    return out


def call(fn):
    try:
        return repr(fn())
    except BaseException as error:
        return describe_error(error)


def unit_cases():
    """Direct calls into the refactored functions."""
    out = []
#UNIT#
    return out


results = {"single": [], "programs": [], "cli": cli_cases(), "unit": unit_cases()}
for lines in single_statement_programs():
    results["single"].append([lines, assemble(lines)])
for lines in PROGRAMS:
    results["programs"].append(assemble(lines))
    results["programs"].append(assemble([line + " " for line in lines]))
json.dump(results, sys.stdout)
'''

UNIT = r'''
    lines = [
        "", "   ", "\t", "; only", "   ; indented comment  ", ";", " ;   spaced   ", "NOP", " NOP", " NOP ", "LABEL NOP ",
        "LABEL NOP", "label nop ", "L@1 lda #$10 ; load", "L LDA #$10;load", "L  LDA  #$10   trailing words ; x",
        "  LDA $10 no semicolon comment", "  XYZ 1 ; bad mnemonic", "  XYZ ", "  XYZ", "@ NOP ", "1L NOP ",
        "  FCC 'hello' ", "  FCC 'hello world' ; c", "  FCC /a b c/ trailing", "  FCC 'unterminated ", "  FCC ",
        "  FCC  ; only comment", "  FCC '' ", "  FCC ' ", "  FCC 'a' 'b' ", "M FCC \"q r\" rest ; more", "  fcc 'x' ",
        "  FCC 'a;b' ", "  FCC ;a; ", "  LDA #$12345 ", "  LDA #%101 ", "  LDA 1,2,3 ", "  LDA [1 ", "  LDA @@@ ",
        "  PSHS A,B ", "  TFR A,B ; t", "  BRA L ", "  LBRA L ; far", "  LDA ,X+ ", "  LDA [,X++] ; ind",
        "  INCLUDE foo.asm ", "  INCLUDE ", "  ORG $1000 ", "V EQU 5 ", "V EQU $1234 ", "V EQU $12 ", "  END ",
        "  NAM prog ", "  FCB 1,2,3 ", "  FDB $1234,5 ", "  RMB 10 ", "  SETDP $10 ", "  LDA #'A ", "  LDA #'; ",
        "  LDA <$10 ", "  LDA >$10 ", "L: NOP ", "  LDA\t#1\t; tabs", "\tLDA\t#1", "L\tLDA\t#1\t", "  LDA # 1 ",
        "  NOP ;; double", "  NOP ;", "  NOP x ; y ; z", "  LDA ÿ ", "é NOP ", "  NOP \n", "  NOP \r\n",
    ]
    for line in lines:
        def build(line=line):
            statement = Statement.__new__(Statement)
            statement.is_empty = True
            statement.is_comment_only = False
            statement.instruction = None
            statement.label = ""
            statement.operand = None
            statement.original_operand = None
            statement.comment = None
            statement.mnemonic = ""
            statement.state = None
            statement.fixed_size = True
            statement.pcr_size_hint = 2
            statement.code_pkg = CodePackage()
            try:
                statement.parse_line(line)
                outcome = "parsed"
            except BaseException as error:
                outcome = describe_error(error)

            def operand(item):
                if item is None:
                    return None
                return [type(item).__name__, item.operand_string, type(item.value).__name__, item.value.hex(),
                        getattr(item, "original_operand", None)]
            return [outcome, statement.is_empty, statement.is_comment_only, statement.label, statement.mnemonic,
                    statement.comment, statement.instruction.mnemonic if statement.instruction else None,
                    operand(statement.operand), operand(statement.original_operand),
                    statement.original_operand is statement.operand]
        from cocoasm.instruction import CodePackage
        out.append(call(build))
        out.append(call(lambda: str(Statement(line))))
        out.append(assemble([line]))
        out.append(assemble(["  ORG $2000 ", line, "AFTER NOP "]))
'''


def run(tree):
    with tempfile.NamedTemporaryFile("w", suffix=".py", delete=False) as handle:
        handle.write(DRIVER.replace("#UNIT#", UNIT))
        driver = handle.name
    try:
        done = subprocess.run([sys.executable, driver, tree], capture_output=True, text=True, cwd=tree,
                              env=dict(os.environ, PYTHONDONTWRITEBYTECODE="1", PYTHONHASHSEED="0"))
    finally:
        os.unlink(driver)
    if done.returncode != 0:
        print("driver failed for", tree)
        print(done.stderr[-3000:])
        sys.exit(1)
    return json.loads(done.stdout)


def main():
    if len(sys.argv) != 3:
        print(__doc__)
        sys.exit(2)
    first, second = run(os.path.abspath(sys.argv[1])), run(os.path.abspath(sys.argv[2]))
    differences = 0
    total = 0
    for section in first:
        total += len(first[section])
        if len(first[section]) != len(second[section]):
            print("section", section, "has different lengths")
            differences += 1
            continue
        for number, (left, right) in enumerate(zip(first[section], second[section])):
            if left != right:
                differences += 1
                if differences <= 10:
                    print("DIFF in", section, number)
                    print("  A:", json.dumps(left)[:600])
                    print("  B:", json.dumps(right)[:600])
    print("{} cases compared, {} differences".format(total, differences))
    sys.exit(1 if differences else 0)


if __name__ == "__main__":
    main()
