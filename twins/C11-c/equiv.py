#!/usr/bin/env python
"""
Differential demonstration: runs the same set of cases against two source
trees (one subprocess per tree, the tree at the front of sys.path and as the
working directory) and compares every observable result.

usage: equiv.py <treeA> <treeB>      exit 0 = all cases agree, 1 = otherwise
"""
import json
import os
import subprocess
import sys

PYTHON = "/venv/bin/python" if os.path.exists("/venv/bin/python") else sys.executable

DRIVER_HEAD = r'''
import contextlib, enum, hashlib, io, json, os, shutil, subprocess, sys, tempfile
TREE = os.path.abspath(sys.argv[1])
PYTHON = sys.argv[2]
sys.path.insert(0, TREE)
os.chdir(TREE)
RESULTS = []


def norm(text):
    return str(text).replace(TREE, "<TREE>")


def show(obj, depth=0):
    """Canonical, address-free, JSON-able rendering of a result."""
    if depth > 8:
        return "<deep>"
    if obj is None or isinstance(obj, (bool, int, float)):
        return obj
    if isinstance(obj, str):
        return norm(obj)
    if isinstance(obj, (bytes, bytearray)):
        return {"bytes": bytes(obj).hex()}
    if isinstance(obj, enum.Enum):
        return str(obj)
    if isinstance(obj, dict):
        return {"dict": [[show(k, depth + 1), show(v, depth + 1)] for k, v in obj.items()]}
    if hasattr(obj, "_asdict"):
        return {"nt": type(obj).__name__, "f": show(obj._asdict(), depth + 1)}
    if isinstance(obj, (list, tuple, set, frozenset)):
        items = list(obj)
        if len(items) > 600 and all(isinstance(i, int) and not isinstance(i, bool) for i in items):
            blob = ",".join(map(str, items)).encode()
            return {type(obj).__name__: len(items), "sha": hashlib.sha256(blob).hexdigest(),
                    "head": items[:24], "tail": items[-24:]}
        return {type(obj).__name__: [show(i, depth + 1) for i in items]}
    if hasattr(obj, "__dict__"):
        return {"obj": type(obj).__name__, "vars": show(vars(obj), depth + 1)}
    return norm(repr(obj))


def case(label, fn):
    out_buf, err_buf = io.StringIO(), io.StringIO()
    try:
        with contextlib.redirect_stdout(out_buf), contextlib.redirect_stderr(err_buf):
            value = fn()
        out = {"ok": show(value)}
    except SystemExit as error:
        out = {"exit": show(error.code)}
    except BaseException as error:
        out = {"exc": type(error).__name__, "msg": norm(error)}
    out["stdout"] = norm(out_buf.getvalue())
    out["stderr"] = norm(err_buf.getvalue())
    RESULTS.append([label, out])


def cli(tool, argv, files=None, keep=None):
    """
    Runs <TREE>/<tool> with argv inside a fresh temporary directory that first
    receives `files` (name -> str or bytes). Returns return code, stdout, the
    last line of stderr and name/size/sha256 of every file left behind.
    """
    work = keep or tempfile.mkdtemp(prefix="equiv")
    try:
        for name, content in (files or {}).items():
            mode = "wb" if isinstance(content, (bytes, bytearray)) else "w"
            with open(os.path.join(work, name), mode) as handle:
                handle.write(content)
        env = dict(os.environ, PYTHONPATH=TREE, PYTHONDONTWRITEBYTECODE="1", COLUMNS="80")
        done = subprocess.run([PYTHON, os.path.join(TREE, tool)] + list(argv), cwd=work, env=env,
                              capture_output=True, text=True, timeout=600)
        left = {}
        for name in sorted(os.listdir(work)):
            with open(os.path.join(work, name), "rb") as handle:
                blob = handle.read()
            left[name] = [len(blob), hashlib.sha256(blob).hexdigest()]
        err_lines = [line for line in done.stderr.splitlines() if line.strip()]
        return {"rc": done.returncode, "stdout": norm(done.stdout).replace(work, "<WORK>"),
                "stderr_last": norm(err_lines[-1]).replace(work, "<WORK>") if err_lines else "",
                "files": left}
    finally:
        if not keep:
            shutil.rmtree(work, ignore_errors=True)


def read_back(work, name):
    with open(os.path.join(work, name), "rb") as handle:
        return handle.read()

'''

DRIVER_TAIL = r'''
print("@@RESULTS@@" + json.dumps(RESULTS))
'''

DRIVER_PROGS = r'''
def program(size, org="$0E00", nam=None, end=None, seed=7):
    """Assembly source producing `size` pseudo-random bytes at `org`."""
    lines = []
    if nam is not None:
        lines.append("\tNAM {}".format(nam))
    if org is not None:
        lines.append("\tORG {}".format(org))
    lines.append("START\tNOP") if size > 0 else None
    state, left = seed, max(size - 1, 0)
    while left > 0:
        count = min(left, 24)
        values = []
        for _ in range(count):
            state = (state * 1103515245 + 12345) & 0x7FFFFFFF
            values.append("${:02X}".format((state >> 16) & 0xFF))
        lines.append("\tFCB {}".format(",".join(values)))
        left -= count
    if end is not None:
        lines.append("\tEND {}".format(end))
    return "\n".join(lines) + "\n"


def data_bytes(size, seed=3):
    state, out = seed, []
    for _ in range(size):
        state = (state * 1103515245 + 12345) & 0x7FFFFFFF
        out.append((state >> 16) & 0xFF)
    return out

'''

DRIVER_CASES = DRIVER_PROGS + r'''
from cocoasm.virtualfiles.cassette import CassetteFile
from cocoasm.virtualfiles.coco_file import CoCoFile
from cocoasm.values import NumericValue


def image_of(*files):
    cassette = CassetteFile()
    for coco_file in files:
        cassette.add_file(coco_file)
    return list(cassette.buffer)


def coco(name="PROG", size=20, kind=2, data_type=0, load=0x0E00, execute=0x0E10, seed=1):
    return CoCoFile(name=name, extension="bin", type=NumericValue(kind), data_type=NumericValue(data_type),
                    load_addr=NumericValue(load), exec_addr=NumericValue(execute), data=data_bytes(size, seed=seed))


def listing(image, filenames=None, as_type=list):
    def run():
        cassette = CassetteFile(buffer=as_type(image))
        if filenames is None:
            return cassette.list_files()
        return cassette.list_files(filenames=filenames)
    return run


def reading(image, pointer):
    return lambda: CassetteFile(buffer=list(image)).read_file(pointer)


def naming(image, pointer):
    return lambda: CassetteFile(buffer=list(image)).read_coco_file_name(pointer)


# 1. well formed images, every header field varied
for name in ("A", "ab", "Hello", "EIGHTCHR", "NINECHARS", "twelve_chars", "", "WITH SPC", "x.y", "café"):
    case("list-name-{!r}".format(name), listing(image_of(coco(name=name))))
for kind, data_type in ((0, 0), (1, 0), (2, 0), (3, 0), (0, 0xFF), (1, 0xFF), (2, 0xFF), (255, 1)):
    case("list-type-{}-{}".format(kind, data_type), listing(image_of(coco(kind=kind, data_type=data_type))))
for load, execute in ((0, 0), (1, 2), (0xFF, 0x100), (0x0E00, 0x0E00), (0x7FFF, 0x8000), (0xFFFF, 0xFFFE), (0x1234, 0xABCD)):
    case("list-addr-{:04X}-{:04X}".format(load, execute), listing(image_of(coco(load=load, execute=execute))))
for size in (0, 1, 254, 255, 256, 1000):
    case("list-size-{}".format(size), listing(image_of(coco(size=size, seed=size))))

THREE = image_of(coco("FIRST", 10), coco("SECOND", 300, kind=0, seed=2), coco("THIRD", 5, kind=1, data_type=0xFF, seed=3))
case("list-three", listing(THREE))
case("list-three-filter", listing(THREE, filenames=["SECOND  "]))
case("list-three-filter-unpadded", listing(THREE, filenames=["SECOND"]))
case("list-three-filter-two", listing(THREE, filenames=["THIRD   ", "FIRST   ", "NOPE"]))
case("list-three-empty-filter", listing(THREE, filenames=[]))
case("list-three-bytearray", listing(THREE, as_type=bytearray))
case("list-three-tuple", listing(THREE, as_type=tuple))
case("list-empty-image", listing([]))
case("list-only-leader", listing([0x55] * 128))
for pointer in (0, 1, 128, 256, 277, 278, 300, 700, 1200, 1400, len(THREE) - 1, len(THREE), len(THREE) + 50, -1, -400):
    case("read-file-at-{}".format(pointer), reading(THREE, pointer))
for pointer in (0, 255, 260, 261, len(THREE) - 9, len(THREE) - 8, len(THREE) - 7, len(THREE), -8, -3, -100000):
    case("read-name-at-{}".format(pointer), naming(THREE, pointer))

# 2. one image cut short at every length around and inside the header, and inside the blocks
ONE = image_of(coco("CUTME", 12))
for length in list(range(250, 300)) + list(range(530, len(ONE) + 1, 3)):
    case("list-cut-{}".format(length), listing(ONE[:length]))
    case("read-cut-{}".format(length), reading(ONE[:length], 0))


# 3. damaged and hand made images
def patched(image, **changes):
    copy = list(image)
    for offset, value in changes.items():
        copy[int(offset[1:])] = value
    return copy


HEADER = 256  # offset of the $55 $3C $00 start of the header block of ONE
case("list-bad-utf8", listing(patched(ONE, o260=0xFF)))
case("list-bad-utf8-continuation", listing(patched(ONE, o267=0xC3)))
case("list-nul-name", listing(patched(ONE, o260=0, o261=0)))
case("list-name-byte-256", listing(patched(ONE, o262=256)))
case("list-name-byte-negative", listing(patched(ONE, o262=-1)))
case("list-type-wide", listing(patched(ONE, o268=70000)))
case("list-type-negative", listing(patched(ONE, o268=-2)))
case("list-type-256", listing(patched(ONE, o268=258)))
case("list-data-type-wide", listing(patched(ONE, o269=65536)))
case("list-gaps-ff", listing(patched(ONE, o270=0xFF)))
case("list-gaps-wide", listing(patched(ONE, o270=99999)))
case("list-load-wide", listing(patched(ONE, o271=300, o272=300)))
case("list-exec-str", listing(patched(ONE, o273="x")))
case("list-type-str", listing(patched(ONE, o268="2")))
case("list-type-none", listing(patched(ONE, o268=None)))
case("list-length-byte-odd", listing(patched(ONE, o259=0x33)))
case("list-header-type-1", listing(patched(ONE, o258=1)))
case("list-header-sync-broken", listing(patched(ONE, o257=0)))
case("list-checksum-is-header-start", listing(patched(ONE, o275=0x55, o276=0x3C)))
BLOCK = ONE.index(0x3C, 300) - 1
case("list-unknown-block", listing(patched(ONE, **{"o{}".format(BLOCK + 2): 7})))
case("list-eof-first", listing(patched(ONE, **{"o{}".format(BLOCK + 2): 0xFF})))
case("list-block-length-long", listing(patched(ONE, **{"o{}".format(BLOCK + 3): 0xFF})))
case("list-block-length-zero", listing(patched(ONE, **{"o{}".format(BLOCK + 3): 0})))
case("list-header-only", listing(ONE[:277]))
case("list-header-then-header", listing(ONE[:277] + ONE))
case("list-bare-header-and-blocks", listing(ONE[256:277] + ONE[BLOCK:]))
case("list-no-leaders", listing(ONE[256:277] + [0x55, 0x3C, 0x01, 0x02, 9, 8, 0x14, 0x55, 0x55, 0x3C, 0xFF, 0x00, 0xFF, 0x55]))
case("list-header-at-very-end", listing(ONE + [0x55, 0x3C, 0x00]))
case("list-header-at-very-end-plus", listing(ONE + [0x55, 0x3C, 0x00, 0x0F, 65, 66, 67, 68, 69, 70, 71, 72, 2, 0, 0, 0x0E]))
case("list-garbage", listing(data_bytes(5000, seed=99)))


# 4. through VirtualFile and the command line tools
def tool_listing(image, name="t.cas"):
    def run():
        work = tempfile.mkdtemp(prefix="equiv")
        try:
            steps = [cli("file_util.py", [name, "--list"], files={name: bytes(image)}, keep=work)]
            steps.append(cli("file_util.py", [name, "--to_dsk", "out.dsk"], keep=work))
            steps.append(cli("file_util.py", [name, "--to_bin", "out.bin"], keep=work))
            steps.append(cli("file_util.py", [name, "--to_cas", "out.cas", "--files", "second", "CUTME"], keep=work))
            return steps
        finally:
            shutil.rmtree(work, ignore_errors=True)
    return run


case("tool-one", tool_listing(ONE))
case("tool-three", tool_listing(THREE))
case("tool-cut-header", tool_listing(ONE[:270]))
case("tool-cut-block", tool_listing(ONE[:540]))
case("tool-bad-utf8", tool_listing(patched(ONE, o260=0xFF)))
case("tool-unknown-block", tool_listing(patched(ONE, **{"o{}".format(BLOCK + 2): 7})))


def assemble_then_list(nam, extra=(), size=40):
    def run():
        work = tempfile.mkdtemp(prefix="equiv")
        try:
            steps = [cli("assembler.py", ["p.asm", "--to_cas", "p.cas"] + list(extra),
                         files={"p.asm": program(size, org="$2000", nam=nam, end="START")}, keep=work)]
            steps.append(cli("file_util.py", ["p.cas", "--list"], keep=work))
            steps.append(cli("assembler.py", ["p.asm", "--to_cas", "p.cas", "--append"] + list(extra), keep=work))
            steps.append(cli("file_util.py", ["p.cas", "--list"], keep=work))
            return steps
        finally:
            shutil.rmtree(work, ignore_errors=True)
    return run


for nam in ("a", "MixedCas", "toolongname12", None):
    case("cli-nam-{}".format(nam), assemble_then_list(nam))
case("cli-name-switch", assemble_then_list(None, extra=["--name", "switch"]))
case("cli-both-names", assemble_then_list("FROMNAM", extra=["--name", "switch"]))
'''


def run_tree(tree):
    tree = os.path.abspath(tree)
    env = dict(os.environ, PYTHONDONTWRITEBYTECODE="1")
    done = subprocess.run([PYTHON, "-c", DRIVER_HEAD + DRIVER_CASES + DRIVER_TAIL, tree, PYTHON],
                          cwd=tree, env=env, capture_output=True, text=True)
    marker = done.stdout.rfind("@@RESULTS@@")
    if done.returncode != 0 or marker < 0:
        print("driver failed for", tree)
        print(done.stdout[-2000:])
        print(done.stderr[-4000:])
        sys.exit(1)
    return json.loads(done.stdout[marker + len("@@RESULTS@@"):])


def main():
    if len(sys.argv) != 3:
        print(__doc__)
        sys.exit(2)
    first, second = run_tree(sys.argv[1]), run_tree(sys.argv[2])
    bad = 0
    if [label for label, _ in first] != [label for label, _ in second]:
        print("case lists differ")
        bad += 1
    for (label, left), (_, right) in zip(first, second):
        if left != right:
            bad += 1
            print("DIFF in case", label)
            print("  A:", json.dumps(left)[:1500])
            print("  B:", json.dumps(right)[:1500])
    print("{} cases compared, {} differ".format(len(first), bad))
    sys.exit(1 if bad or len(first) < 30 else 0)


if __name__ == "__main__":
    main()
