"""
Differential check for a behaviour preserving refactoring of the cassette
container code (writer, reader, --list / --to_cas front end).

usage: equiv.py <treeA> <treeB>

Each tree is exercised in its own subprocess (tree at the front of sys.path and
as cwd). Every observable result is collected into a JSON document and the two
documents are compared. Exit status 0 = identical, 1 = different.
"""
import json
import os
import subprocess
import sys
import tempfile


# --------------------------------------------------------------------- worker

def describe_file(coco_file):
    def val(v):
        return None if v is None else [type(v).__name__, getattr(v, "int", None), v.hex() if hasattr(v, "hex") else None]
    return {
        "name": coco_file.name,
        "extension": coco_file.extension,
        "type": val(coco_file.type),
        "data_type": val(coco_file.data_type),
        "gaps": val(coco_file.gaps),
        "load": val(coco_file.load_addr),
        "exec": val(coco_file.exec_addr),
        "data": list(coco_file.data),
        "ignore_gaps": coco_file.ignore_gaps,
        "str": str(coco_file),
    }


def outcome(function):
    try:
        return {"ok": function()}
    except BaseException as error:  # noqa
        return {"error": [type(error).__name__, str(error)]}


def pattern(length, seed):
    markers = [0x55, 0x3C, 0x00, 0x01, 0xFF, 0x55, 0x3C, 0xFF, 0x00, 0xFF, 0x55]
    out = []
    state = seed * 7919 + 17
    for index in range(length):
        state = (state * 1103515245 + 12345) & 0x7FFFFFFF
        if seed % 3 == 0:
            out.append(markers[index % len(markers)])
        elif seed % 3 == 1:
            out.append((state >> 16) & 0xFF)
        else:
            out.append(index & 0xFF)
    return out


def worker(tree):
    sys.path.insert(0, tree)
    os.chdir(tree)
    from cocoasm.virtualfiles.cassette import CassetteFile
    from cocoasm.virtualfiles.coco_file import CoCoFile
    from cocoasm.virtualfiles.virtual_file_container import VirtualFileContainer
    from cocoasm.values import NumericValue, NoneValue

    results = {}

    def make(name, ftype, dtype, load, exe, data, **extra):
        return CoCoFile(
            name=name, extension="BIN" if ftype == 2 else "BAS",
            type=NumericValue(ftype), data_type=NumericValue(dtype), gaps=NumericValue(0),
            load_addr=NumericValue(load), exec_addr=NumericValue(exe), data=data, **extra
        )

    def round_trip(files, names=None):
        cassette = CassetteFile()
        cassette.add_files(files)
        image = list(cassette.get_buffer())
        reader = CassetteFile(buffer=list(image))
        listed = reader.list_files(names) if names is not None else reader.list_files()
        return {"image": image, "files": [describe_file(f) for f in listed],
                "orig": list(reader.original_buffer) == image}

    # ---- single file round trips at the interesting lengths
    lengths = [0, 1, 2, 127, 128, 253, 254, 255, 256, 257, 509, 510, 511, 512, 764, 765, 766, 1020, 1275, 4000, 65535]
    for number, length in enumerate(lengths):
        data = pattern(length, number)
        results["single-%d" % length] = outcome(lambda: round_trip(
            [make("F%d" % length, number % 4, 0xFF if number % 2 else 0x00,
                  (number * 4099) & 0xFFFF, (0xFFFF - number * 257) & 0xFFFF, data)]))

    # ---- names
    for number, name in enumerate(["", "A", "ab", "HELLO", "EIGHTCHR", "NINECHARS", "TWELVECHARS!", "a.b", "MiXeD", "~{}|"]):
        results["name-%d" % number] = outcome(lambda: round_trip(
            [make(name, 2, 0, 0x0E00 + number, 0x0E00, pattern(10 + number, number))]))

    # ---- addresses
    for number, (load, exe) in enumerate([(0, 0), (0xFF, 0x100), (0x00FF, 0xFF00), (0xFFFF, 0xFFFF), (0x553C, 0x3C55),
                                          (0x0100, 0x00FF), (0x8000, 0x7FFF), (1, 65534)]):
        results["addr-%d" % number] = outcome(lambda: round_trip([make("ADDR", 2, 0, load, exe, pattern(33, number))]))

    # ---- lists of files
    results["multi-0"] = outcome(lambda: round_trip([]))
    results["multi-3"] = outcome(lambda: round_trip([
        make("ONE", 0, 0xFF, 0, 0, pattern(300, 0)),
        make("TWO", 1, 0xFF, 0x1234, 0x4321, pattern(255, 1)),
        make("THREE", 2, 0x00, 0x3F00, 0x3F10, pattern(510, 2)),
    ]))
    results["multi-empty-middle"] = outcome(lambda: round_trip([
        make("FIRST", 2, 0, 0x1000, 0x1000, pattern(12, 3)),
        make("EMPTY", 2, 0, 0x2000, 0x2000, []),
        make("LAST", 2, 0, 0x3000, 0x3000, pattern(256, 4)),
    ]))
    results["multi-filter"] = outcome(lambda: round_trip([
        make("AAA", 2, 0, 1, 2, pattern(5, 1)),
        make("BBBBBBBB", 2, 0, 3, 4, pattern(6, 2)),
        make("AAA", 0, 0, 5, 6, pattern(7, 0)),
    ], names=["BBBBBBBB", "AAA     "]))
    results["multi-filter-none"] = outcome(lambda: round_trip([
        make("AAA", 2, 0, 1, 2, pattern(5, 1))], names=["ZZZ"]))
    results["multi-filter-empty"] = outcome(lambda: round_trip([
        make("AAA", 2, 0, 1, 2, pattern(5, 1))], names=[]))
    results["multi-10"] = outcome(lambda: round_trip([
        make("N%d" % n, n % 4, 0xFF * (n % 2), n * 1000, n * 2000, pattern(n * 100 + 1, n)) for n in range(10)]))

    # ---- data given as bytes / bytearray / tuple, and with gaps
    for kind, convert in (("bytes", bytes), ("bytearray", bytearray), ("tuple", tuple)):
        results["datakind-" + kind] = outcome(lambda: round_trip([make("KIND", 2, 0, 0x100, 0x100, convert(pattern(600, 1)))]))

    def blocks(data, gaps):
        cassette = CassetteFile()
        cassette.append_data_blocks(data, gaps=gaps)
        return list(cassette.get_buffer())
    for length in (0, 1, 254, 255, 256, 510, 511, 700):
        for gaps in (False, True):
            results["blocks-%d-%s" % (length, gaps)] = outcome(lambda: blocks(pattern(length, length), gaps))
    results["blocks-default"] = outcome(lambda: (lambda c: (c.append_data_blocks(pattern(300, 2)), list(c.buffer))[1])(CassetteFile()))

    # ---- the individual writer primitives
    def primitive(action):
        cassette = CassetteFile()
        returned = action(cassette)
        return [returned, list(cassette.get_buffer())]
    results["prim-eof"] = outcome(lambda: primitive(lambda c: c.append_eof()))
    results["prim-leader"] = outcome(lambda: primitive(lambda c: c.append_leader()))
    results["prim-blank"] = outcome(lambda: primitive(lambda c: c.append_blank()))
    for number, name in enumerate(["", "X", "12345678", "123456789", "éè"]):
        results["prim-name-%d" % number] = outcome(lambda: primitive(lambda c: c.append_name(name)))
    results["prim-header"] = outcome(lambda: primitive(lambda c: c.append_header(make("HDR", 2, 0xFF, 0xABCD, 0x1234, [1]))))
    results["prim-header-none-values"] = outcome(lambda: primitive(lambda c: c.append_header(CoCoFile(name="NONE", data=[1]))))
    results["prim-add-file"] = outcome(lambda: primitive(lambda c: c.add_file(make("ADD", 2, 0, 0x600, 0x600, pattern(256, 5)))))

    # ---- writer errors leave the same partial buffer behind
    def failing(action):
        cassette = CassetteFile()
        try:
            action(cassette)
            status = "no error"
        except BaseException as error:  # noqa
            status = [type(error).__name__, str(error)]
        return [status, [repr(x) for x in cassette.get_buffer()]]
    results["err-name-int"] = outcome(lambda: failing(lambda c: c.add_file(make(12345, 2, 0, 0, 0, [1]))))
    results["err-name-none"] = outcome(lambda: failing(lambda c: c.add_file(make(None, 2, 0, 0, 0, [1]))))
    results["err-data-none"] = outcome(lambda: failing(lambda c: c.add_file(make("D", 2, 0, 0, 0, None))))
    results["err-data-str"] = outcome(lambda: failing(lambda c: c.add_file(make("D", 2, 0, 0, 0, "text"))))
    results["err-data-mixed"] = outcome(lambda: failing(lambda c: c.add_file(make("D", 2, 0, 0, 0, pattern(300, 1) + [None, 3]))))
    results["err-type-none"] = outcome(lambda: failing(lambda c: c.add_file(CoCoFile(name="T", type=None, data=[1]))))
    results["err-exec-none"] = outcome(lambda: failing(lambda c: c.add_file(
        CoCoFile(name="T", type=NumericValue(2), data_type=NumericValue(0), load_addr=NumericValue(0x1234), exec_addr=None, data=[1]))))
    results["err-load-none"] = outcome(lambda: failing(lambda c: c.add_file(
        CoCoFile(name="T", type=NumericValue(2), data_type=NumericValue(0), load_addr=None, exec_addr=NumericValue(1), data=[1]))))
    results["err-not-a-file"] = outcome(lambda: failing(lambda c: c.add_file("nonsense")))
    results["err-add-files-none"] = outcome(lambda: failing(lambda c: c.add_files(None)))
    results["odd-big-byte"] = outcome(lambda: failing(lambda c: c.add_file(make("BIG", 2, 0, 0, 0, [1, 300, 2]))))

    # ---- hand made tape streams
    def header(name, ftype=2, dtype=0, gaps=0, load=0x1000, exe=0x1000):
        body = [0x00, 0x0F] + [ord(c) for c in name.ljust(8)[:8]] + [ftype, dtype, gaps, load >> 8, load & 255, exe >> 8, exe & 255]
        return [0x55, 0x3C] + body + [sum(body) & 0xFF, 0x55]

    def data_block(data):
        body = [0x01, len(data)] + list(data)
        return [0x55, 0x3C] + body + [sum(body) & 0xFF, 0x55]

    eof = [0x55, 0x3C, 0xFF, 0x00, 0xFF, 0x55]

    def listing(stream, names=None):
        reader = CassetteFile(buffer=stream)
        files = reader.list_files(names) if names is not None else reader.list_files()
        return [describe_file(f) for f in files]

    streams = {
        "empty": [],
        "garbage": [1, 2, 3, 4, 5],
        "leader-only": [0x55] * 300,
        "no-leader": header("NOLEAD") + data_block([1, 2, 3]) + eof,
        "short-leader": [0x55] * 3 + header("SHORT") + [0x55] * 2 + data_block([9]) + eof,
        "long-leader": [0x55] * 1000 + header("LONG", gaps=0xFF) + [0x00] * 50 + [0x55] * 500 + data_block([9] * 255) + [0] * 7 + [0x55] * 9 + data_block([8] * 4) + eof,
        "gapped": [0x55] * 128 + header("GAPPED", ftype=0, dtype=0xFF, gaps=0xFF) + [0x55] * 128 + data_block(pattern(255, 0)) + [0x55] * 128 + data_block(pattern(255, 1)) + [0x55] * 128 + data_block(pattern(17, 2)) + [0x55] * 128 + eof,
        "two-files": [0x55] * 128 + header("FILEA", ftype=1) + data_block([1]) + eof + [0x55] * 128 + header("FILEB", ftype=3, dtype=0xFF) + data_block([2, 3]) + eof + [0x55] * 10,
        "marker-payload": header("MARKERS") + data_block([0x55, 0x3C, 0x00, 0x0F, 0x55, 0x3C, 0xFF, 0x00, 0xFF, 0x55, 0x55, 0x3C, 0x01, 0x02]) + eof,
        "zero-length-block": header("ZEROBLK") + data_block([]) + data_block([7]) + eof,
        "only-eof": header("ONLYEOF") + eof + header("AFTER") + data_block([1]) + eof,
        "missing-eof": header("NOEOF") + data_block([1, 2, 3]),
        "missing-eof-tail": header("NOEOF") + data_block([1, 2, 3]) + [0x55] * 20,
        "bad-block-type": header("BADTYPE") + [0x55, 0x3C, 0x02, 0x01, 0x09, 0x0C, 0x55] + eof,
        "header-as-data": header("HDRHDR") + header("INNER") + data_block([1]) + eof,
        "truncated-header-1": header("TRUNC")[:3],
        "truncated-header-2": header("TRUNC")[:8],
        "truncated-header-3": header("TRUNC")[:13],
        "truncated-header-4": header("TRUNC")[:16],
        "truncated-header-5": header("TRUNC")[:18],
        "truncated-header-6": header("TRUNC")[:19],
        "truncated-block-1": header("TRUNC") + [0x55, 0x3C],
        "truncated-block-2": header("TRUNC") + [0x55, 0x3C, 0x01],
        "truncated-block-3": header("TRUNC") + [0x55, 0x3C, 0x01, 0x05, 1, 2],
        "truncated-eof": header("TRUNC") + data_block([1]) + [0x55, 0x3C, 0xFF],
        "non-ascii-name": header("ABC")[:4] + [0xC3, 0xA9] + header("ABC")[6:] + data_block([1]) + eof,
        "invalid-utf8-name": header("ABC")[:4] + [0xFF] + header("ABC")[5:] + data_block([1]) + eof,
        "bytes-buffer": bytes(header("BYTES") + data_block([1]) + eof),
        "bytearray-buffer": bytearray(header("BYTES") + data_block([1]) + eof),
        "tuple-buffer": tuple(header("TUPLE") + data_block([1]) + eof),
    }
    for name, stream in streams.items():
        results["stream-" + name] = outcome(lambda: listing(stream))
    results["stream-filter"] = outcome(lambda: listing(list(streams["two-files"]), names=["FILEB   "]))
    results["stream-filter-stripped"] = outcome(lambda: listing(list(streams["two-files"]), names=["FILEB"]))

    # ---- reader primitives
    probe = header("PROBE") + data_block([5, 6, 7]) + eof
    for number, (sequence, start) in enumerate([([0x55, 0x3C, 0x00], 0), ([0x55, 0x3C, 0x00], 1), ([0x55, 0x3C], 1), ([0x55, 0x3C], 22),
                                                ([0x55, 0x3C], 30), ([0x55, 0x3C], 36), ([0x55, 0x3C], 37), ([0x55, 0x3C], 500),
                                                ([], 0), ([], 3), ([], 400), ([0x55], -1), ([0x55], -3), ([9, 9], 0),
                                                (probe, 0), (probe + [1], 0), ((0x55, 0x3C), 0)]):
        results["skip-%d" % number] = outcome(lambda: CassetteFile(buffer=list(probe)).skip_to_sequence(sequence, start))
    results["skip-default"] = outcome(lambda: CassetteFile(buffer=list(probe)).skip_to_sequence([0x3C]))
    for pointer in (0, 4, 30, 31, 36, 37, 40, -1, -2):
        results["word-%d" % pointer] = outcome(lambda: [CassetteFile(buffer=list(probe)).read_word(pointer).int])
        results["name-at-%d" % pointer] = outcome(lambda: list(CassetteFile(buffer=list(probe)).read_coco_file_name(pointer)))
        results["blocks-at-%d" % pointer] = outcome(lambda: list(CassetteFile(buffer=list(probe)).read_blocks(pointer)))
        results["file-at-%d" % pointer] = outcome(lambda: (lambda r: [describe_file(r[0]) if r[0] else None, r[1]])(
            CassetteFile(buffer=list(probe)).read_file(pointer)))
    results["word-empty"] = outcome(lambda: [CassetteFile().read_word(0).int])
    results["word-one"] = outcome(lambda: [CassetteFile(buffer=[1]).read_word(0).int])

    # ---- container construction
    def construct(buffer):
        container = CassetteFile(buffer=buffer)
        same = container.buffer is buffer
        return [list(container.buffer), list(container.original_buffer), same, container.original_buffer is container.buffer]
    results["ctor-none"] = outcome(lambda: construct(None))
    results["ctor-empty"] = outcome(lambda: construct([]))
    results["ctor-list"] = outcome(lambda: construct([1, 2, 3]))
    results["ctor-bytes"] = outcome(lambda: construct(b"abc"))
    results["ctor-default"] = outcome(lambda: (lambda c: [c.buffer, c.original_buffer])(CassetteFile()))
    results["ctor-base"] = outcome(lambda: (lambda c: [c.buffer, c.original_buffer, c.add_file(None), c.list_files()])(VirtualFileContainer([4])))

    # ---- the command line front end
    work = tempfile.mkdtemp(prefix="equiv-cas-")

    def run_tool(arguments):
        done = subprocess.run([sys.executable, os.path.join(tree, "file_util.py")] + arguments,
                              cwd=work, capture_output=True, text=True)
        produced = {}
        for entry in sorted(os.listdir(work)):
            with open(os.path.join(work, entry), "rb") as handle:
                produced[entry] = list(handle.read())
        return {"rc": done.returncode, "out": done.stdout.replace(tree, "<TREE>"),
                "err": done.stderr.replace(tree, "<TREE>"), "files": produced}

    def write_image(name, content):
        with open(os.path.join(work, name), "wb") as handle:
            handle.write(bytearray(content))

    tape = CassetteFile()
    tape.add_files([
        make("ALPHA", 2, 0, 0x0E00, 0x0E10, pattern(700, 1)),
        make("beta", 0, 0xFF, 0, 0, pattern(255, 0)),
        make("GAMMAGAMMA", 1, 0xFF, 0x1234, 0x5678, pattern(3, 2)),
    ])
    write_image("three.cas", tape.get_buffer())
    write_image("gapped.cas", streams["gapped"])
    write_image("broken.cas", streams["missing-eof"])
    write_image("badtype.cas", streams["bad-block-type"])
    write_image("empty.cas", [])
    write_image("single.cas", streams["no-leader"])
    cli = [
        ["three.cas", "--list"],
        ["gapped.cas", "--list"],
        ["broken.cas", "--list"],
        ["badtype.cas", "--list"],
        ["empty.cas", "--list"],
        ["missing.cas", "--list"],
        ["three.cas"],
        ["three.cas", "--to_cas", "copy.cas"],
        ["three.cas", "--to_cas", "copy.cas"],
        ["three.cas", "--to_cas", "copy.cas", "--append"],
        ["copy.cas", "--list"],
        ["three.cas", "--to_cas", "some.cas", "--files", "alpha", "GAMMAGAM"],
        ["some.cas", "--list"],
        ["three.cas", "--to_cas", "none.cas", "--files", "nothing"],
        ["none.cas", "--list"],
        ["gapped.cas", "--to_cas", "regapped.cas"],
        ["regapped.cas", "--list"],
        ["three.cas", "--to_bin", "three.bin"],
        ["single.cas", "--to_bin", "single.bin"],
        ["single.cas", "--to_bin", "single.bin"],
        ["single.cas", "--to_bin", "single.bin", "--append"],
        ["empty.cas", "--to_bin", "empty.bin"],
        ["single.cas", "--to_bin", "other.bin", "--files", "nolead"],
        ["single.cas", "--to_bin", "skipped.bin", "--files", "zzz"],
        ["three.cas", "--to_dsk", "three.dsk"],
        ["three.dsk", "--list"],
        ["three.dsk", "--to_cas", "fromdisk.cas"],
        ["fromdisk.cas", "--list"],
        ["three.cas", "--to_dsk", "three.dsk"],
        ["three.cas", "--to_dsk", "three.dsk", "--append"],
        ["three.dsk", "--list"],
        ["three.cas", "--to_dsk", "three.cas", "--append"],
        ["three.cas", "--to_cas", "both.cas", "--to_dsk", "both.dsk", "--to_bin", "both.bin"],
        ["single.cas", "--to_cas", "all.cas", "--to_dsk", "all.dsk", "--to_bin", "all.bin", "--list"],
        ["single.cas", "--to_cas", "all.cas", "--to_dsk", "all.dsk", "--to_bin", "all.bin"],
        ["all.dsk", "--to_cas", "three.dsk"],
    ]
    for number, arguments in enumerate(cli):
        results["cli-%02d" % number] = run_tool(arguments)

    import shutil
    shutil.rmtree(work, ignore_errors=True)
    json.dump(results, sys.stdout, default=repr)


# --------------------------------------------------------------------- driver

def main():
    if len(sys.argv) == 3 and sys.argv[1] == "--worker":
        worker(sys.argv[2])
        return 0
    if len(sys.argv) != 3:
        print(__doc__)
        return 2
    documents = []
    for tree in sys.argv[1:3]:
        tree = os.path.abspath(tree)
        environment = dict(os.environ, PYTHONDONTWRITEBYTECODE="1", PYTHONHASHSEED="0")
        done = subprocess.run([sys.executable, os.path.abspath(__file__), "--worker", tree],
                              cwd=tree, capture_output=True, text=True, env=environment)
        if done.returncode != 0:
            print("worker failed for", tree)
            print(done.stderr)
            return 1
        documents.append(json.loads(done.stdout))
    first, second = documents
    different = [key for key in sorted(set(first) | set(second)) if first.get(key) != second.get(key)]
    errors = sum(1 for value in first.values() if isinstance(value, dict) and "error" in value)
    print("%d cases compared (%d of them raise), %d differ" % (len(first), errors, len(different)))
    for key in different:
        print("DIFFERENT:", key)
        print("   A:", json.dumps(first.get(key))[:400])
        print("   B:", json.dumps(second.get(key))[:400])
    return 1 if different else 0


if __name__ == "__main__":
    sys.exit(main())
