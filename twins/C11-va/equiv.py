#!/venv/bin/python
"""Differential check of the disk preamble/postamble writers (and the assembler.py --to_dsk path
that uses them) between two trees. usage: equiv.py <treeA> <treeB>; exit 0 if all results agree."""
import json
import subprocess
import sys

DRIVER = r'''
import sys, os, json, hashlib, random, tempfile, subprocess, shutil
tree = sys.argv[1]
sys.path.insert(0, tree)
os.chdir(tree)
from cocoasm.virtualfiles.disk import DiskFile, DiskConstants, MLPreamble, BasicPreamble, ASCIIPreamble, Postamble
from cocoasm.virtualfiles.coco_file import CoCoFile
from cocoasm.values import NumericValue, NoneValue, AddressValue

results = []

def digest(buf):
    return hashlib.sha256(bytes(buf)).hexdigest()

def record(label, fn):
    try:
        results.append([label, "ok", fn()])
    except BaseException as e:
        results.append([label, "exc", type(e).__name__, str(e)])

def ml(data_length=None, load=None, length=None):
    p = MLPreamble()
    if data_length is not None: p.data_length = data_length
    if load is not None: p.load_addr = load
    if length is not None: p.length = length
    return p
def bas(data_length=None, length=None):
    p = BasicPreamble()
    if data_length is not None: p.data_length = data_length
    if length is not None: p.length = length
    return p
def post(exec_addr=None, length=None):
    p = Postamble()
    if exec_addr is not None: p.exec_addr = exec_addr
    if length is not None: p.length = length
    return p

class Odd(object):
    """a value whose low byte cannot be produced: the write must stop half way, as before"""
    def high_byte(self):
        return 0x12
    def low_byte(self):
        raise RuntimeError("no low byte")

def write_case(label, make, buffer_factory, pointer):
    def case():
        amble = make()
        buf = buffer_factory()
        state = None
        try:
            ret = amble.write(buf, pointer)
            outcome = ["returned", repr(ret)]
        except BaseException as e:
            outcome = ["raised", type(e).__name__, str(e)]
        # the buffer is compared after a failure too
        return [outcome, type(buf).__name__, len(buf), list(buf)[:40], digest(buf) if not isinstance(buf, tuple) else None,
                amble.length]
    record("write/" + label, case)

N = NumericValue
makers = {
    "ml-1234-2000": lambda: ml(N(0x1234), N(0x2000)),
    "ml-0-0": lambda: ml(N(0), N(0)),
    "ml-ff-e00": lambda: ml(N(0xFF), N(0x0E00)),
    "ml-100-ff": lambda: ml(N(0x100), N(0xFF)),
    "ml-ffff-ffff": lambda: ml(N(0xFFFF), N(0xFFFF)),
    "ml-unset": lambda: ml(),
    "ml-load-unset": lambda: ml(N(0x0203)),
    "ml-address-value": lambda: ml(N(300), AddressValue(0x3F00)),
    "ml-str-value": lambda: ml(N("$0A0B"), N("$7FFE")),
    "ml-odd-length-value": lambda: ml(Odd(), N(1)),
    "ml-odd-load-value": lambda: ml(N(0x0405), Odd()),
    "ml-none-attr": lambda: ml(N(0x0405), "notavalue"),
    "ml-length-7": lambda: ml(N(0x1234), N(0x2000), length=7),
    "ml-length-2": lambda: ml(N(0x1234), N(0x2000), length=2),
    "bas-1234": lambda: bas(N(0x1234)),
    "bas-0": lambda: bas(N(0)),
    "bas-ff": lambda: bas(N(0xFF)),
    "bas-ffff": lambda: bas(N(0xFFFF)),
    "bas-unset": lambda: bas(),
    "bas-odd": lambda: bas(Odd()),
    "bas-length-1": lambda: bas(N(0x0102), length=1),
    "ascii": lambda: ASCIIPreamble(),
    "post-2010": lambda: post(N(0x2010)),
    "post-0": lambda: post(N(0)),
    "post-c0": lambda: post(N(0xC0)),
    "post-ffff": lambda: post(N(0xFFFF)),
    "post-unset": lambda: post(),
    "post-odd": lambda: post(Odd()),
    "post-length-9": lambda: post(N(0xABCD), length=9),
}
buffers = {
    "list12": lambda: [0xEE] * 12,
    "bytearray12": lambda: bytearray([0xEE] * 12),
    "list5": lambda: [0xEE] * 5,
    "list4": lambda: [0xEE] * 4,
    "list3": lambda: [0xEE] * 3,
    "list2": lambda: [0xEE] * 2,
    "empty": lambda: [],
    "bytes12": lambda: bytes([0xEE] * 12),
}
for mname, make in makers.items():
    for bname, pointer in (("list12", 0), ("list12", 7), ("list12", 8), ("list12", 9), ("list12", 10), ("list12", 12),
                           ("list12", 40), ("list12", -5), ("list12", -3), ("bytearray12", 3), ("list5", 0), ("list4", 0),
                           ("list3", 0), ("list2", 0), ("empty", 0), ("bytes12", 0)):
        write_case("%s/%s@%d" % (mname, bname, pointer), make, buffers[bname], pointer)

# write followed by read gives the values back
def roundtrip(cls, setup):
    def case():
        a = cls(); setup(a)
        buf = [0x55] * 20
        end = a.write(buf, 6)
        b = cls()
        end2 = b.read(buf, 6)
        return [end, end2, buf, {k: (v.hex() if hasattr(v, "hex") else v) for k, v in sorted(vars(b).items())}]
    return case
for n, (dl, la) in enumerate(((0, 0), (1, 0x0E00), (0x00FF, 0x0100), (0x0100, 0x00FF), (0x8000, 0x7FFF), (0xFFFF, 0xFFFF))):
    record("roundtrip/ml/%d" % n, roundtrip(MLPreamble, lambda a, dl=dl, la=la: (setattr(a, "data_length", N(dl)), setattr(a, "load_addr", N(la)))))
    record("roundtrip/bas/%d" % n, roundtrip(BasicPreamble, lambda a, dl=dl: setattr(a, "data_length", N(dl))))
    record("roundtrip/post/%d" % n, roundtrip(Postamble, lambda a, la=la: setattr(a, "exec_addr", N(la))))

# through DiskFile.add_file / list_files
def listing(buf):
    try:
        files = DiskFile(buffer=list(buf)).list_files()
        return [[f.name, f.extension, f.type.hex(), f.data_type.hex(), f.load_addr.hex(), f.exec_addr.hex(),
                 len(f.data), hashlib.md5(bytes(f.data)).hexdigest()] for f in files]
    except BaseException as e:
        return ["EXC", type(e).__name__, str(e)]
for n, (length, load, exe, ftype, dtype) in enumerate((
        (0, 0, 0, 2, 0), (1, 0x0E00, 0x0E00, 2, 0), (255, 0xFF, 0x100, 2, 0), (256, 0x100, 0xFF, 2, 0), (2294, 0x3F00, 0x3F10, 2, 0),
        (2299, 0x1000, 0x1001, 2, 0), (2300, 0x7FFF, 0x8000, 2, 0), (4603, 0xFFFF, 0xFFFF, 2, 0), (65535, 0, 0xFFFF, 2, 0),
        (100, 0, 0, 0, 0), (2301, 0, 0, 0, 0), (700, 0, 0, 1, 0xFF), (300, 0x2000, 0x2000, 2, 0xFF))):
    def case(n=n, length=length, load=load, exe=exe, ftype=ftype, dtype=dtype):
        rnd = random.Random(n)
        f = CoCoFile(name="PROG%d" % n, extension="BIN", type=N(ftype), data_type=N(dtype), load_addr=N(load),
                     exec_addr=N(exe), data=[rnd.randrange(256) for _ in range(length)])
        d = DiskFile(granule_fill_order=[67] + list(range(67)) if n % 3 == 0 else None)
        try:
            d.add_file(f)
            out = "added"
        except BaseException as e:
            out = [type(e).__name__, str(e)]
        buf = d.get_buffer()
        return [out, digest(buf), listing(buf)]
    record("disk/%d" % n, case)

# end to end: assembler.py, then file_util.py --list on what it wrote
tmp = tempfile.mkdtemp()
def asm(label, source, args, watch):
    def case():
        with open(os.path.join(tmp, "prog.asm"), "w") as fh:
            fh.write(source)
        proc = subprocess.run([sys.executable, os.path.join(tree, "assembler.py"), "prog.asm"] + args, cwd=tmp,
                              capture_output=True, text=True)
        out = [proc.returncode, proc.stdout.replace(tmp, "<tmp>"), proc.stderr.replace(tmp, "<tmp>").replace(tree, "<tree>")]
        for name in watch:
            path = os.path.join(tmp, name)
            if os.path.exists(path):
                out.append([name, os.path.getsize(path), digest(open(path, "rb").read())])
                lst = subprocess.run([sys.executable, os.path.join(tree, "file_util.py"), name, "--list"], cwd=tmp,
                                     capture_output=True, text=True)
                out.append([lst.returncode, lst.stdout, lst.stderr.replace(tree, "<tree>")])
            else:
                out.append([name, "no file"])
        return out
    record("asm/" + label, case)
def prog(org, nam=None, body=200, end=None):
    lines = []
    if nam:
        lines.append("        NAM %s" % nam)
    if org is not None:
        lines.append("        ORG $%04X" % org)
    lines.append("START   LDA #$01")
    for i in range(body):
        lines.append("        FCB $%02X" % (i % 256))
    lines.append("ENTRY   RTS")
    lines.append("        END %s" % end if end else "        END")
    return "\n".join(lines) + "\n"
asm("dsk-nam", prog(0x0E00, "hello"), ["--to_dsk", "p1.dsk"], ["p1.dsk"])
asm("dsk-name-switch", prog(0x3F00), ["--to_dsk", "p2.dsk", "--name", "myprog"], ["p2.dsk"])
asm("dsk-no-name", prog(0x3F00), ["--to_dsk", "p3.dsk"], ["p3.dsk"])
asm("dsk-long-name", prog(0x00FF, "ABCDEFGHIJKL", 2290), ["--to_dsk", "p4.dsk"], ["p4.dsk"])
asm("dsk-end-entry", prog(0x7F00, "E", 2293, "ENTRY"), ["--to_dsk", "p5.dsk"], ["p5.dsk"])
asm("dsk-no-org", prog(None, "NOORG", 3), ["--to_dsk", "p6.dsk"], ["p6.dsk"])
asm("dsk-append", prog(0x1000, "SECOND", 5000), ["--to_dsk", "p1.dsk", "--append"], ["p1.dsk"])
asm("dsk-exists", prog(0x1000, "THIRD", 10), ["--to_dsk", "p1.dsk"], ["p1.dsk"])
asm("all-three", prog(0xC000, "trio", 4600), ["--to_bin", "t.bin", "--to_cas", "t.cas", "--to_dsk", "t.dsk"], ["t.bin", "t.cas", "t.dsk"])
asm("cas-dsk-name", prog(0x0100, None, 2294), ["--to_cas", "u.cas", "--to_dsk", "u.dsk", "--name", "u"], ["u.cas", "u.dsk"])
asm("big", prog(0x0000, "BIG", 40000), ["--to_dsk", "big.dsk"], ["big.dsk"])
shutil.rmtree(tmp)

print(json.dumps(results))
'''


def run(tree):
    proc = subprocess.run([sys.executable, "-c", DRIVER, tree], cwd=tree, capture_output=True, text=True)
    if proc.returncode != 0:
        print("driver failed in", tree, proc.stderr[-2000:])
        sys.exit(1)
    return json.loads(proc.stdout.strip().splitlines()[-1])


def main():
    tree_a, tree_b = sys.argv[1], sys.argv[2]
    res_a, res_b = run(tree_a), run(tree_b)
    bad = 0
    if len(res_a) != len(res_b):
        print("different number of results", len(res_a), len(res_b))
        bad += 1
    for a, b in zip(res_a, res_b):
        if a != b:
            bad += 1
            print("DIFF", a[0], "\n  A:", str(a)[:500], "\n  B:", str(b)[:500])
    excs = sum(1 for r in res_a if r[1] == "exc" or '"raised"' in json.dumps(r))
    print("%d cases compared (%d raise), %d differences" % (len(res_a), excs, bad))
    sys.exit(1 if bad else 0)


if __name__ == "__main__":
    main()
