#!/usr/bin/env python
"""
Differential check for property C13 (assembly always terminates with output
or a source-level diagnostic).

usage: equiv.py <treeA> <treeB>

Each tree is exercised in its own subprocess (tree at the front of sys.path).
The worker runs Program.process() under a watchdog on valid programs, on
single-line mutations of them, on pseudo-random lines, on label,PCR sweeps
around the 8/16 bit boundary, on INCLUDE chains and cycles, and runs the
assembler.py command line on a selection of them. For every case it records
the outcome class (image / ParseError / TranslationError / other exception /
timeout), the bytes, listing and symbol table or the exception type, message,
offending statement and that statement's code package, the CLI exit status,
stdout and the files present afterwards. The driver compares the two records
and exits 0 when identical, 1 otherwise.
"""
import contextlib
import hashlib
import importlib.util
import io
import json
import os
import random
import signal
import subprocess
import sys
import tempfile
import traceback

WATCHDOG_SECONDS = 10

BASE_PROGRAMS = {
    "hello": [
        "        NAM   HELLO",
        "        ORG   $0E00",
        "SCREEN  EQU   $0400",
        "START   LDX   #SCREEN   ; point at the screen",
        "        LEAY  MSG,PCR",
        "LOOP    LDA   ,Y+",
        "        BEQ   DONE",
        "        STA   ,X+",
        "        BRA   LOOP",
        "DONE    RTS",
        "MSG     FCC   \"HELLO WORLD\"",
        "        FCB   0",
        "        END   START",
    ],
    "modes": [
        "VAL     EQU   $10",
        "WIDE    EQU   $1234",
        "BEGIN   LDA   #VAL",
        "        LDB   VAL",
        "        LDD   WIDE",
        "        STA   <$20",
        "        STB   >$20",
        "        LDX   [WIDE]",
        "        LDA   5,X",
        "        LDA   -5,Y",
        "        LDA   200,U",
        "        LDA   $1234,S",
        "        LDA   A,X",
        "        LDA   [D,Y]",
        "        LDA   ,X++",
        "        LDA   [,--Y]",
        "        LEAX  BEGIN,PCR",
        "        LDA   [TABLE,PCR]",
        "        PSHS  A,B,X",
        "        PULS  A,B,X,PC",
        "        TFR   X,Y",
        "        EXG   A,B",
        "        LBRA  BEGIN",
        "        BSR   BEGIN",
        "        JMP   BEGIN+2",
        "TABLE   FDB   BEGIN,$FFFF",
        "        FCB   1,2,3",
        "        RMB   4",
        "        SETDP $0E",
        "; a comment",
        "",
        "        SWI2",
    ],
}


def pcr_program(distance, backward=False, mnemonic="LEAX", indirect=False, extra=0, expression=False):
    target = "TARGET+1" if expression else "TARGET"
    operand = "[{},PCR]".format(target) if indirect else "{},PCR".format(target)
    ref = ["        {:<5} {}".format(mnemonic, operand)]
    ref += ["        LDA   {}".format(operand)] * extra
    filler = ["        FCB   0"] * distance
    if backward:
        return ["TARGET  NOP"] + filler + ref + ["        RTS"]
    return ["START   NOP"] + ref + filler + ["TARGET  RTS"]


def mutations(lines, rng, count):
    alphabet = "ABDXYUSPCR0123456789$#<>[],+-%'\";*/@ ._"
    result = []
    for _ in range(count):
        index = rng.randrange(len(lines))
        line = lines[index]
        kind = rng.choice(("delete_line", "dup_line", "drop_field", "dup_field", "empty_operand", "unterminated",
                           "insert_char", "delete_char", "replace_char", "swap_lines", "no_indent", "tabs", "lower"))
        mutated = list(lines)
        if kind == "delete_line":
            del mutated[index]
        elif kind == "dup_line":
            mutated.insert(index, line)
        elif kind == "drop_field":
            fields = line.split()
            if fields:
                del fields[rng.randrange(len(fields))]
            mutated[index] = "        " + " ".join(fields)
        elif kind == "dup_field":
            fields = line.split()
            if fields:
                position = rng.randrange(len(fields))
                fields.insert(position, fields[position])
            mutated[index] = "        " + " ".join(fields)
        elif kind == "empty_operand":
            mutated[index] = line[:19]
        elif kind == "unterminated":
            mutated[index] = line.rstrip("\"'/") if line.rstrip()[-1:] in "\"'/" else line + "\""
        elif kind == "insert_char" and line:
            position = rng.randrange(len(line) + 1)
            mutated[index] = line[:position] + rng.choice(alphabet) + line[position:]
        elif kind == "delete_char" and line:
            position = rng.randrange(len(line))
            mutated[index] = line[:position] + line[position + 1:]
        elif kind == "replace_char" and line:
            position = rng.randrange(len(line))
            mutated[index] = line[:position] + rng.choice(alphabet) + line[position + 1:]
        elif kind == "swap_lines":
            other = rng.randrange(len(lines))
            mutated[index], mutated[other] = mutated[other], mutated[index]
        elif kind == "no_indent":
            mutated[index] = line.lstrip()
        elif kind == "tabs":
            mutated[index] = "\t".join(line.split())
        elif kind == "lower":
            mutated[index] = line.lower()
        result.append((kind, mutated))
    return result


def random_lines(rng, count):
    alphabet = "ABDXYUSLEJMPNOCR0123456789$#<>[],+-%'\";*/@ \t._"
    mnemonics = ["LDA", "STA", "LEAX", "BRA", "LBRA", "FCB", "FDB", "FCC", "RMB", "ORG", "EQU", "NAM", "END", "TFR",
                 "PSHS", "JMP", "NOP", "INCLUDE", "SETDP", "XYZ", ""]
    result = []
    for _ in range(count):
        shape = rng.randrange(3)
        if shape == 0:
            line = "".join(rng.choice(alphabet) for _ in range(rng.randint(0, 24)))
        else:
            label = "".join(rng.choice("ABXL@1") for _ in range(rng.randint(0, 4)))
            operand = "".join(rng.choice(alphabet.replace(" ", "").replace("\t", "")) for _ in range(rng.randint(0, 8)))
            line = "{:<7} {:<5} {}".format(label, rng.choice(mnemonics), operand)
        result.append(line)
    return result


def build_cases():
    rng = random.Random(0xC13)
    cases = {}
    for name, lines in BASE_PROGRAMS.items():
        cases["base:" + name] = lines
        for number, (kind, mutated) in enumerate(mutations(lines, rng, 350)):
            cases["mut:{}:{:03d}:{}".format(name, number, kind)] = mutated
    for number in range(60):
        cases["rand_prog:{:02d}".format(number)] = random_lines(rng, rng.randint(1, 6))
    for number, line in enumerate(random_lines(rng, 300)):
        cases["rand_line:{:03d}".format(number)] = [line]
    for distance in list(range(118, 136)) + [0, 1, 60, 250, 300]:
        for backward in (False, True):
            cases["pcr:{}:{}".format("back" if backward else "fwd", distance)] = pcr_program(distance, backward)
            cases["pcr_ind:{}:{}".format("back" if backward else "fwd", distance)] = \
                pcr_program(distance, backward, mnemonic="LDA", indirect=True)
            cases["pcr_multi:{}:{}".format("back" if backward else "fwd", distance)] = \
                pcr_program(distance, backward, extra=3)
            cases["pcr_expr:{}:{}".format("back" if backward else "fwd", distance)] = \
                pcr_program(distance, backward, expression=True)
    # PCR references crossing each other (each one's size depends on the other)
    for distance in (118, 121, 122, 123, 124, 125, 126, 127, 128, 129, 130):
        filler = ["        FCB   0"] * distance
        cases["pcr_cross:{}".format(distance)] = (
            ["FIRST   LEAX  SECOND,PCR"] + filler + ["MIDDLE  LEAY  FIRST,PCR", "        LDA   LAST,PCR"] + filler +
            ["SECOND  LEAU  MIDDLE,PCR", "LAST    RTS"])
    extras = {
        "indexed_label_no_pcr": ["START   LDA   START,X"],
        "indexed_label_expr_no_pcr": ["START   LDA   START+1,X"],
        "pcr_self": ["START   LEAX  START,PCR"],
        "pcr_undefined": ["START   LEAX  NOWHERE,PCR"],
        "pcr_equ": ["VAL     EQU   5", "START   LEAX  VAL,PCR"],
        "empty": [],
        "blank": ["", "   ", "\t"],
        "only_comment": ["; hello", "* star comment"],
        "label_only": ["LABEL"],
        "label_space": ["LABEL   "],
        "mnemonic_only": ["        NOP"],
        "lda_nothing": ["        LDA"],
        "lda_nothing_space": ["        LDA   "],
        "fcc_nothing": ["        FCC"],
        "fcc_one_quote": ["        FCC   \""],
        "fcc_unterminated": ["        FCC   \"ABC"],
        "fcc_empty": ["        FCC   \"\""],
        "fcc_comment": ["        FCC   \"A B\" trailing words"],
        "fcb_trailing_comma": ["        FCB   1,"],
        "fcb_only_comma": ["        FCB   ,"],
        "fdb_trailing_comma": ["        FDB   ,1"],
        "fdb_symbol": ["X1      FDB   X1"],
        "equ_nothing": ["VAL     EQU"],
        "equ_self": ["VAL     EQU   VAL"],
        "equ_forward": ["A1      EQU   B1", "B1      EQU   5", "        LDA   A1"],
        "equ_string": ["VAL     EQU   \"A\""],
        "org_nothing": ["        ORG"],
        "org_symbol": ["VAL     EQU   $10", "        ORG   VAL", "        NOP"],
        "org_label_forward": ["        ORG   LATER", "LATER   NOP"],
        "rmb_nothing": ["        RMB"],
        "rmb_symbol": ["VAL     EQU   5", "        RMB   VAL"],
        "rmb_huge": ["        RMB   65535", "        NOP"],
        "end_nothing": ["        END"],
        "end_undefined": ["        END   NOWHERE"],
        "nam_nothing": ["        NAM"],
        "setdp_nothing": ["        SETDP"],
        "include_nothing": ["        INCLUDE"],
        "bra_nothing": ["        BRA"],
        "bra_undefined": ["        BRA   NOWHERE"],
        "bra_expression": ["START   BRA   START+1"],
        "bra_indexed": ["START   BRA   ,X"],
        "bra_immediate": ["START   BRA   #1"],
        "jmp_undefined": ["        JMP   NOWHERE"],
        "expr_undefined": ["        LDA   NOWHERE+1"],
        "expr_div_zero": ["        LDA   1/0"],
        "expr_sym_div_zero": ["Z       EQU   0", "        LDA   5/Z"],
        "expr_negative": ["        LDA   1-2"],
        "expr_overflow": ["        LDX   #$FFFF+$FFFF"],
        "expr_mul_overflow": ["        LDX   #$FFFF*$FFFF"],
        "label_redefined": ["L1      NOP", "L1      NOP"],
        "label_at": ["@L1     NOP", "        BRA   @L1"],
        "tfr_one": ["        TFR   A"],
        "tfr_three": ["        TFR   A,B,X"],
        "pshs_nothing": ["        PSHS"],
        "pshs_bad": ["        PSHS  Q"],
        "index_two_commas": ["        LDA   1,2,X"],
        "index_bracket_open": ["        LDA   [1,X"],
        "index_bracket_close": ["        LDA   1,X]"],
        "index_empty_brackets": ["        LDA   []"],
        "imm_nothing": ["        LDA   #"],
        "dir_nothing": ["        LDA   <"],
        "ext_nothing": ["        LDA   >"],
        "hex_nothing": ["        LDA   $"],
        "char_nothing": ["        LDA   #'"],
        "stray_punctuation": ["        LDA   ,,,"],
        "stray_semicolon": ["        ;LDA  #1"],
        "stray_colon": ["LABEL:  LDA   #1"],
        "unicode": ["        LDA   #é"],
        "nul": ["        LDA   #\x00"],
        "long_label": ["A" * 200 + " NOP"],
        "long_operand": ["        LDA   " + "1" * 500],
        "many_statements": ["        NOP"] * 3000,
        "deep_expression": ["        LDA   1+2+3+4+5"],
        "no_newline_space": ["LDA #1"],
        "carriage_return": ["        LDA   #1\r"],
    }
    for name, lines in extras.items():
        cases["extra:" + name] = lines
    return cases


INCLUDE_SETS = {
    "plain": ({"main.asm": ["        INCLUDE inc.asm", "        LDA   #VAL", "        RTS"],
               "inc.asm": ["VAL     EQU   5", "        NOP"]}, "main.asm"),
    "nested": ({"main.asm": ["        INCLUDE a.asm", "        RTS"], "a.asm": ["        INCLUDE b.asm", "        NOP"],
                "b.asm": ["        INCLUDE c.asm", "        CLRA"], "c.asm": ["LEAF    CLRB"]}, "main.asm"),
    "twice": ({"main.asm": ["        INCLUDE a.asm", "        INCLUDE a.asm", "        RTS"], "a.asm": ["        NOP"]}, "main.asm"),
    "twice_label": ({"main.asm": ["        INCLUDE a.asm", "        INCLUDE a.asm"], "a.asm": ["DUP     NOP"]}, "main.asm"),
    "diamond": ({"main.asm": ["        INCLUDE a.asm", "        INCLUDE b.asm"], "a.asm": ["        INCLUDE c.asm"],
                 "b.asm": ["        INCLUDE c.asm"], "c.asm": ["        NOP"]}, "main.asm"),
    "self": ({"main.asm": ["        INCLUDE main.asm", "        RTS"]}, "main.asm"),
    "self_inner": ({"main.asm": ["        INCLUDE a.asm"], "a.asm": ["        NOP", "        INCLUDE a.asm"]}, "main.asm"),
    "cycle2": ({"main.asm": ["        INCLUDE a.asm"], "a.asm": ["        INCLUDE b.asm"], "b.asm": ["        INCLUDE a.asm"]}, "main.asm"),
    "cycle3": ({"main.asm": ["        INCLUDE a.asm"], "a.asm": ["        INCLUDE b.asm"], "b.asm": ["        INCLUDE c.asm"],
                "c.asm": ["        NOP", "        INCLUDE a.asm"]}, "main.asm"),
    "cycle_main": ({"main.asm": ["        NOP", "        INCLUDE a.asm"], "a.asm": ["        INCLUDE main.asm"]}, "main.asm"),
    "missing": ({"main.asm": ["        INCLUDE nothere.asm", "        RTS"]}, "main.asm"),
    "missing_nested": ({"main.asm": ["        INCLUDE a.asm"], "a.asm": ["        INCLUDE nothere.asm"]}, "main.asm"),
    "directory": ({"main.asm": ["        INCLUDE sub"], "sub/x.asm": ["        NOP"]}, "main.asm"),
    "subdir": ({"main.asm": ["        INCLUDE sub/x.asm"], "sub/x.asm": ["        NOP"]}, "main.asm"),
    "bad_inside": ({"main.asm": ["        INCLUDE a.asm"], "a.asm": ["        FOO   #1"]}, "main.asm"),
    "bad_operand_inside": ({"main.asm": ["        INCLUDE a.asm"], "a.asm": ["        LDA   #$"]}, "main.asm"),
    "empty_include": ({"main.asm": ["        INCLUDE a.asm", "        NOP"], "a.asm": []}, "main.asm"),
    "include_case": ({"main.asm": ["        include a.asm", "        NOP"], "a.asm": ["        CLRA"]}, "main.asm"),
    "include_comment": ({"main.asm": ["        INCLUDE a.asm ; the library", "        NOP"], "a.asm": ["        CLRA"]}, "main.asm"),
    "include_label": ({"main.asm": ["HERE    INCLUDE a.asm", "        BRA   HERE"], "a.asm": ["        CLRA"]}, "main.asm"),
    "include_pcr": ({"main.asm": ["START   LEAX  FAR,PCR", "        INCLUDE fill.asm", "FAR     RTS"],
                     "fill.asm": ["        FCB   0"] * 126}, "main.asm"),
}

CLI_FROM_CASES = [
    "base:hello", "base:modes", "extra:fcc_unterminated", "extra:lda_nothing", "extra:bra_undefined", "extra:label_redefined",
    "extra:indexed_label_no_pcr", "extra:expr_div_zero", "extra:empty", "extra:pshs_bad", "extra:rmb_huge", "extra:org_nothing",
    "pcr:fwd:126", "pcr:back:126", "pcr_cross:125", "extra:equ_self", "extra:tfr_one", "extra:unicode", "extra:stray_colon",
    "extra:end_undefined", "extra:fdb_symbol", "extra:hex_nothing", "mut:hello:007:", "mut:modes:011:", "mut:modes:101:",
]
CLI_SWITCHES = ["--print", "--symbols", "--to_bin", "out.bin", "--to_cas", "out.cas", "--to_dsk", "out.dsk", "--name", "PROG"]


class Timeout(BaseException):
    pass


def on_alarm(signum, frame):
    raise Timeout()


def load_module(tree, name):
    spec = importlib.util.spec_from_file_location("tool_" + name, os.path.join(tree, name + ".py"))
    module = importlib.util.module_from_spec(spec)
    spec.loader.exec_module(module)
    return module


def worker(tree):
    sys.path.insert(0, tree)
    sys.setrecursionlimit(400)
    from cocoasm.program import Program
    from cocoasm.exceptions import ParseError, TranslationError
    signal.signal(signal.SIGALRM, on_alarm)
    results = {}

    def package_of(statement):
        try:
            package = statement.code_pkg
            return [package.size, package.max_size, package.op_code.hex(), package.post_byte.hex(),
                    package.additional.hex(), package.address.hex(), package.post_byte_choices,
                    package.additional_needs_resolution, statement.fixed_size, statement.pcr_size_hint,
                    statement.label, statement.mnemonic, statement.is_empty, statement.is_comment_only]
        except Exception as error:
            return ["no package", type(error).__name__]

    def process(lines):
        program = Program()
        signal.alarm(WATCHDOG_SECONDS)
        try:
            program.process(lines)
            record = {
                "outcome": "image",
                "bytes": program.get_binary_array(),
                "listing": [str(x) for x in program.get_statements()],
                "symbols": [str(x) for x in program.get_symbol_table()],
                "origin": [type(program.origin).__name__, program.origin.hex()],
                "name": program.name,
                "packages": [package_of(statement) for statement in program.statements],
            }
        except Timeout:
            record = {"outcome": "timeout"}
        except (ParseError, TranslationError) as error:
            statement = error.statement
            record = {"outcome": type(error).__name__, "value": str(error.value), "str": str(error),
                      "statement_type": type(statement).__name__}
            try:
                record["statement"] = str(statement)
            except Exception as inner:
                record["statement"] = ["unprintable", type(inner).__name__, str(inner)]
            if not isinstance(statement, str):
                record["package"] = package_of(statement)
            record["all_packages"] = [package_of(statement) for statement in program.statements]
            record["symbol_names"] = sorted(program.symbol_table)
        except RecursionError as error:
            record = {"outcome": "internal", "type": "RecursionError"}
        except Exception as error:
            record = {"outcome": "internal", "type": type(error).__name__, "message": str(error)}
        finally:
            signal.alarm(0)
        return record

    cases = build_cases()
    for name, lines in cases.items():
        results["lib:" + name] = process([line + "\n" for line in lines])
    # the same text without line terminators, and as one string (iterated per character)
    for name in ("base:hello", "base:modes", "extra:fcc_unterminated", "extra:lda_nothing"):
        results["lib_noeol:" + name] = process(list(cases[name]))
    results["lib_string"] = process("  NOP\n")
    for bad in (None, 5, [None], [5], [b"  NOP"]):
        results["lib_badinput:{!r}".format(bad)] = process(bad)

    home = os.getcwd()

    def populate(files):
        for path, lines in files.items():
            if os.path.dirname(path):
                os.makedirs(os.path.dirname(path), exist_ok=True)
            with open(path, "w") as handle:
                handle.write("".join(line + "\n" for line in lines))

    def snapshot():
        found = {}
        for root, dirs, names in os.walk("."):
            for name in sorted(names):
                path = os.path.join(root, name)
                with open(path, "rb") as handle:
                    found[os.path.relpath(path, ".")] = hashlib.sha256(handle.read()).hexdigest()
        return found

    assembler = load_module(tree, "assembler")

    def run_cli(argv):
        out = io.StringIO()
        status = 0
        old_argv = sys.argv
        sys.argv = ["assembler.py"] + argv
        signal.alarm(WATCHDOG_SECONDS * 2)
        try:
            with contextlib.redirect_stdout(out), contextlib.redirect_stderr(out):
                try:
                    assembler.main(assembler.parse_arguments())
                except SystemExit as error:
                    status = error.code
                except Timeout:
                    status = "timeout"
                except BaseException as error:
                    status = ["traceback", type(error).__name__, str(error)]
        finally:
            signal.alarm(0)
            sys.argv = old_argv
        return {"stdout": out.getvalue(), "status": status}

    for name, (files, main_file) in INCLUDE_SETS.items():
        with tempfile.TemporaryDirectory() as scratch:
            os.chdir(scratch)
            try:
                populate(files)
                with open(main_file) as handle:
                    results["include_lib:" + name] = process(handle.readlines())
                before = snapshot()
                record = run_cli([main_file] + CLI_SWITCHES)
                record["before"] = before
                record["after"] = snapshot()
                results["include_cli:" + name] = record
            finally:
                os.chdir(home)

    for prefix in CLI_FROM_CASES:
        name = next(key for key in cases if key.startswith(prefix))
        for existing in (False, True):
            with tempfile.TemporaryDirectory() as scratch:
                os.chdir(scratch)
                try:
                    populate({"src.asm": cases[name]})
                    if existing:
                        for target in ("out.bin", "out.cas", "out.dsk"):
                            with open(target, "wb") as handle:
                                handle.write(b"previous contents of " + target.encode())
                    before = snapshot()
                    record = run_cli(["src.asm"] + CLI_SWITCHES + (["--append"] if existing else []))
                    record["before"] = before
                    record["after"] = snapshot()
                    results["cli:{}:{}".format(name, "existing" if existing else "fresh")] = record
                finally:
                    os.chdir(home)

    json.dump(results, sys.stdout, sort_keys=True)


def run_worker(tree):
    tree = os.path.abspath(tree)
    env = dict(os.environ, PYTHONDONTWRITEBYTECODE="1", PYTHONHASHSEED="0")
    env.pop("PYTHONPATH", None)
    done = subprocess.run([sys.executable, os.path.abspath(__file__), "--worker", tree],
                          cwd=tree, env=env, stdout=subprocess.PIPE, stderr=subprocess.PIPE, text=True)
    if done.returncode != 0:
        print("worker failed for {}:\n{}".format(tree, done.stderr))
        sys.exit(1)
    return json.loads(done.stdout)


def main():
    if len(sys.argv) == 3 and sys.argv[1] == "--worker":
        try:
            worker(sys.argv[2])
        except Exception:
            traceback.print_exc()
            sys.exit(2)
        return
    if len(sys.argv) != 3:
        print(__doc__)
        sys.exit(2)
    result_a, result_b = run_worker(sys.argv[1]), run_worker(sys.argv[2])
    differing = [key for key in sorted(set(result_a) | set(result_b)) if result_a.get(key) != result_b.get(key)]
    for key in differing[:20]:
        print("DIFFERENT: {}\n  A: {}\n  B: {}".format(key, str(result_a.get(key))[:500], str(result_b.get(key))[:500]))
    tally = {}
    for key, record in result_a.items():
        outcome = record.get("outcome", "cli")
        tally[outcome] = tally.get(outcome, 0) + 1
    print("{} cases compared {}, {} differ".format(len(result_a), dict(sorted(tally.items())), len(differing)))
    sys.exit(1 if differing else 0)


if __name__ == "__main__":
    main()
