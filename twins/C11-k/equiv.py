#!/usr/bin/env python
"""
Differential check for refactoring C11/k: cassette reader/writer glue - CassetteFile.list_files() over the new iter_files() generator, add_file() over append_gap(), skip_to_sequence() with next(), read_coco_file_name() with index arithmetic.

usage: equiv.py <treeA> <treeB>   (exit 0 = every observable result agrees)
Each tree is exercised in its own subprocess with the tree first on sys.path.
"""
import sys, os, json, subprocess, tempfile

PRELUDE = r'''
# ---- driver prelude: runs inside ONE tree (argv[1]) with a scratch dir (argv[2]) ----
import sys, os, io, json, hashlib, contextlib, importlib, shutil, traceback

TREE = os.path.realpath(sys.argv[1])
SCRATCH = os.path.realpath(sys.argv[2])
sys.path.insert(0, TREE)
os.chdir(TREE)

import cocoasm
assert os.path.realpath(cocoasm.__file__).startswith(TREE + os.sep), cocoasm.__file__

RESULTS = []
_case_no = [0]


def norm(value):
    """Turns any result into something JSON can carry, without losing what is observable."""
    if isinstance(value, (bytes, bytearray)):
        return {"bytes": bytes(value).hex()}
    if isinstance(value, (list, tuple)):
        if len(value) > 64 and all(isinstance(x, int) and not isinstance(x, bool) for x in value):
            blob = ",".join(str(x) for x in value).encode()
            return {"ints": len(value), "sha1": hashlib.sha1(blob).hexdigest()}
        return [norm(x) for x in value]
    if isinstance(value, dict):
        return {str(k): norm(v) for k, v in value.items()}
    if value is None or isinstance(value, (bool, int, float, str)):
        return value
    if hasattr(value, "_asdict"):
        return {"nt": type(value).__name__, "fields": norm(value._asdict())}
    if hasattr(value, "hex") and hasattr(value, "hex_len"):
        try:
            return {"value": type(value).__name__, "hex": value.hex(), "int": getattr(value, "int", None)}
        except Exception as error:      # noqa
            return {"value": type(value).__name__, "hex_error": repr(error)}
    return {"repr": type(value).__name__ + ":" + str(value)}


def snapshot(directory):
    files = {}
    for root, _, names in os.walk(directory):
        for name in sorted(names):
            path = os.path.join(root, name)
            with open(path, "rb") as handle:
                blob = handle.read()
            files[os.path.relpath(path, directory)] = [len(blob), hashlib.sha1(blob).hexdigest()]
    return files


def case(name, fn, workdir=None):
    """Runs fn(), records value / exception / stdout / stderr / files left in workdir."""
    out, err = io.StringIO(), io.StringIO()
    record = {"name": name}
    old_cwd = os.getcwd()
    if workdir:
        os.chdir(workdir)
    try:
        with contextlib.redirect_stdout(out), contextlib.redirect_stderr(err):
            try:
                record["value"] = norm(fn())
            except SystemExit as error:
                record["exit"] = norm(error.code)
            except BaseException as error:      # noqa
                record["exc"] = [type(error).__name__, str(error)]
    finally:
        os.chdir(old_cwd)
    record["stdout"] = out.getvalue()
    record["stderr"] = err.getvalue()
    if workdir:
        record["files"] = snapshot(workdir)
    RESULTS.append(record)
    return record


def fresh_dir(files=None):
    _case_no[0] += 1
    path = os.path.join(SCRATCH, "c%04d" % _case_no[0])
    os.makedirs(path)
    for name, content in (files or {}).items():
        mode = "wb" if isinstance(content, (bytes, bytearray)) else "w"
        with open(os.path.join(path, name), mode) as handle:
            handle.write(content)
    return path


def cli(module_name, argv):
    """Runs a command-line front end the way `python module.py argv...` would."""
    def run():
        module = importlib.import_module(module_name)
        assert os.path.realpath(module.__file__).startswith(TREE + os.sep)
        old = sys.argv
        sys.argv = [module_name + ".py"] + list(argv)
        try:
            module.main(module.parse_arguments())
        finally:
            sys.argv = old
    return run


def cli_case(name, module_name, argv, files=None, workdir=None, then=()):
    """One CLI run in a fresh (or given) directory, optionally followed by more runs in the same directory."""
    workdir = workdir or fresh_dir(files)
    case(name, cli(module_name, argv), workdir)
    for index, (module2, argv2) in enumerate(then):
        case("%s/then%d" % (name, index), cli(module2, argv2), workdir)
    return workdir


def finish():
    json.dump(RESULTS, sys.stdout)
    sys.stdout.write("\n")
# ---- end of prelude ----
'''

CASES = r'''# ---- cases for C11/k: CassetteFile.list_files / iter_files / add_file / append_gap / skip_to_sequence / read_coco_file_name ----
from cocoasm.virtualfiles.cassette import CassetteFile
from cocoasm.virtualfiles.coco_file import CoCoFile
from cocoasm.virtualfiles.virtual_file import VirtualFile, VirtualFileType
from cocoasm.virtualfiles.source_file import SourceFile, SourceFileType
from cocoasm.values import NumericValue, NoneValue


def program(size, name="prog", origin="$0E00", end=None):
    lines = []
    if name is not None:
        lines.append("        NAM %s\n" % name)
    if origin is not None:
        lines.append("        ORG %s\n" % origin)
    if size >= 2:
        lines.append("START   LDA #$01\n")
    else:
        lines.append("START   EQU *\n")
    left = size - 2
    value = 0
    while left > 0:
        chunk = min(left, 40)
        lines.append("        FCB %s\n" % ",".join(str((value + i) % 251) for i in range(chunk)))
        value += chunk
        left -= chunk
    lines.append("        END START\n" if end is None else "        END %s\n" % end)
    return "".join(lines)


# 1. end to end through assembler.py and file_util.py
for size in [0, 2, 3, 254, 255, 256, 257, 509, 510, 511, 512, 765, 766, 1000, 5000]:
    cli_case("cli-cas-%d" % size, "assembler", ["p.asm", "--to_cas", "p.cas"],
             files={"p.asm": program(size)},
             then=[("file_util", ["p.cas", "--list"]), ("file_util", ["p.cas", "--to_dsk", "p.dsk"]),
                   ("file_util", ["p.dsk", "--list"])])
for name in ["a", "AbCdEfGh", "ninechars", "twelve_chars", "x1"]:
    cli_case("cli-cas-name-%s" % name, "assembler", ["p.asm", "--to_cas", "p.cas", "--to_dsk", "p.dsk"],
             files={"p.asm": program(20, name)},
             then=[("file_util", ["p.cas", "--list"]), ("file_util", ["p.dsk", "--list"])])
cli_case("cli-cas-argname", "assembler", ["p.asm", "--to_cas", "p.cas", "--name", "viaarg"],
         files={"p.asm": program(20, None)}, then=[("file_util", ["p.cas", "--list"])])
cli_case("cli-cas-noname", "assembler", ["p.asm", "--to_cas", "p.cas", "--to_dsk", "p.dsk", "--to_bin", "p.bin"],
         files={"p.asm": program(20, None)})
work = cli_case("tape-1", "assembler", ["a.asm", "--to_cas", "t.cas"],
                files={"a.asm": program(300, "first"), "b.asm": program(10, "second", "$7000"),
                       "c.asm": program(600, "third", None)})
cli_case("tape-2", "assembler", ["b.asm", "--to_cas", "t.cas", "--append"], workdir=work)
cli_case("tape-3", "assembler", ["c.asm", "--to_cas", "t.cas", "--append"], workdir=work)
cli_case("tape-4-exists", "assembler", ["c.asm", "--to_cas", "t.cas"], workdir=work)
cli_case("tape-list", "file_util", ["t.cas", "--list"], workdir=work)
cli_case("tape-extract-one", "file_util", ["t.cas", "--to_dsk", "one.dsk", "--files", "second"], workdir=work,
         then=[("file_util", ["one.dsk", "--list"])])
cli_case("tape-extract-two", "file_util", ["t.cas", "--to_cas", "two.cas", "--files", "FIRST", "third", "nosuch"], workdir=work,
         then=[("file_util", ["two.cas", "--list"])])
cli_case("tape-to-bin-many", "file_util", ["t.cas", "--to_bin", "many.bin"], workdir=work)
cli_case("tape-wrong-type", "assembler", ["a.asm", "--to_dsk", "t.cas", "--append"], workdir=work)


# 2. library level
def ml_file(size, name="LIB", load=0x2000, execute=0x2010, seed=7):
    return CoCoFile(name=name, extension="BIN", type=NumericValue(2), data_type=NumericValue(0),
                    load_addr=NumericValue(load), exec_addr=NumericValue(execute),
                    data=[(seed * i + 3) % 256 for i in range(size)])


def tape(files):
    cassette = CassetteFile()
    cassette.add_files(files)
    return list(cassette.get_buffer())


THREE = [ml_file(10, "ALPHA"), ml_file(700, "BETA", 0x0E00, 0x0E10, 11), ml_file(255, "GAMMA", 0xFFFE, 0x0000, 13)]


def build(files):
    def run():
        return tape(files)
    return run


def listing(buffer, filenames=None):
    def run():
        return CassetteFile(buffer=list(buffer)).list_files(filenames=filenames)
    return run


case("build-three", build(THREE))
case("build-none", build([]))
case("build-empty-data", build([ml_file(0, "EMPTY")]))
case("build-novalue-addresses", build([CoCoFile(name="NV", type=NumericValue(2), data_type=NumericValue(0), data=[1, 2, 3])]))
case("build-long-name", build([ml_file(3, "MUCHTOOLONGNAME")]))
case("build-nonascii-name", build([ml_file(3, "café")]))
case("build-wide-name", build([ml_file(3, "€uro")]))

TAPE3 = tape(THREE)
case("list-three", listing(TAPE3))
case("list-filter-hit", listing(TAPE3, ["BETA    "]))
case("list-filter-miss", listing(TAPE3, ["BETA"]))
case("list-filter-two", listing(TAPE3, ["GAMMA   ", "ALPHA   "]))
case("list-filter-empty-list", listing(TAPE3, []))
case("list-filter-string", listing(TAPE3, "xxALPHA   xx"))
case("list-empty-buffer", listing([]))
case("list-empty-data-file", listing(tape([ml_file(0, "EMPTY"), ml_file(4, "AFTER")])))
case("list-junk", listing([0x55, 0x3C] * 40))
case("list-junk-2", listing([0x55, 0x3C, 0x00] * 40))
for cut in list(range(0, 300, 23)) + list(range(len(TAPE3) - 1200, len(TAPE3), 97)) + [len(TAPE3) - k for k in range(1, 9)]:
    case("list-truncated-%d" % cut, listing(TAPE3[:cut]))
for position, value in [(260, 0x01), (259, 0x00), (256 + 3, 0x10), (256 + 12, 0x02), (256 + 21 + 256 + 2, 0x07),
                        (256 + 21 + 256 + 3, 0x00), (256 + 21 + 256 + 3, 0xFF), (256 + 4, 0xFF), (256 + 4, 0xC3)]:
    damaged = list(TAPE3)
    damaged[position] = value
    case("list-damaged-%d-%02X" % (position, value), listing(damaged))
case("list-big-values", listing([0x55, 0x3C, 0x00, 0x0F, 300, 65, 66, 67, 68, 69, 70, 71] + TAPE3))
case("list-str-values", listing([0x55, 0x3C, 0x00, 0x0F, "A", 65, 66, 67, 68, 69, 70, 71] + TAPE3))


def open_host(blob):
    def run():
        virtual_file = VirtualFile(SourceFile("host.img", file_type=SourceFileType.BINARY))
        virtual_file.open_virtual_file()
        return [str(virtual_file.virtual_file_type), virtual_file.list_files(), virtual_file.list_files(["BETA    "])]
    return run


case("host-tape", open_host(TAPE3), fresh_dir({"host.img": bytes(TAPE3)}))
case("host-truncated", open_host(TAPE3), fresh_dir({"host.img": bytes(TAPE3[:700])}))
case("host-empty", open_host(TAPE3), fresh_dir({"host.img": b""}))
case("host-missing", open_host(TAPE3), fresh_dir({}))


def skip(buffer, sequence, **kwargs):
    def run():
        return CassetteFile(buffer=list(buffer)).skip_to_sequence(sequence, **kwargs)
    return run


SMALL = [0, 0x55, 0x3C, 0x00, 9, 0x55, 0x3C, 0x01, 0x55, 0x3C]
for start in [0, 1, 2, 5, 6, 8, 9, 10, 11, 50, -1, -3, -9, -10, -40]:
    case("skip-2-from-%d" % start, skip(SMALL, [0x55, 0x3C], start=start))
    case("skip-3-from-%d" % start, skip(SMALL, [0x55, 0x3C, 0x00], start=start))
case("skip-default-start", skip(SMALL, [0x3C, 0x01]))
case("skip-absent", skip(SMALL, [0x3C, 0x02]))
case("skip-empty-sequence", skip(SMALL, [], start=4))
case("skip-empty-sequence-past-end", skip(SMALL, [], start=40))
case("skip-empty-buffer", skip([], [0x55]))
case("skip-both-empty", skip([], []))
case("skip-whole-buffer", skip(SMALL, list(SMALL)))
case("skip-longer-than-buffer", skip(SMALL, list(SMALL) + [1]))
case("skip-tuple-sequence", skip(SMALL, (0x55, 0x3C)))


def name_at(buffer, pointer):
    def run():
        return CassetteFile(buffer=list(buffer)).read_coco_file_name(pointer)
    return run


NAMES = [ord(c) for c in "ABCDEFGHIJKLMNOP"]
case("name-0", name_at(NAMES, 0))
case("name-8", name_at(NAMES, 8))
case("name-9-short", name_at(NAMES, 9))
case("name-16-past", name_at(NAMES, 16))
case("name-negative", name_at(NAMES, -8))
case("name-negative-wrap", name_at(NAMES, -3))
case("name-nul-padded", name_at([65, 66, 0, 0, 0, 0, 0, 0], 0))
case("name-bad-utf8", name_at([65, 66, 0xFF, 0xFE, 67, 68, 69, 70], 0))
case("name-two-byte-utf8", name_at([0xC3, 0xA9, 67, 68, 69, 70, 71, 72], 0))
case("name-too-big", name_at([65, 66, 256, 68, 69, 70, 71, 72], 0))
case("name-not-int", name_at([65, "B", 67, 68, 69, 70, 71, 72], 0))
'''


def run_tree(tree):
    tree = os.path.realpath(tree)
    with tempfile.TemporaryDirectory(prefix="equiv_") as tmp:
        driver = os.path.join(tmp, "driver.py")
        with open(driver, "w") as handle:
            handle.write(PRELUDE + "\n" + CASES + "\nfinish()\n")
        scratch = os.path.join(tmp, "scratch")
        os.mkdir(scratch)
        env = dict(os.environ, PYTHONDONTWRITEBYTECODE="1", PYTHONHASHSEED="0")
        env.pop("PYTHONPATH", None)
        proc = subprocess.run(
            [sys.executable, "-B", driver, tree, scratch],
            cwd=tree, env=env, capture_output=True, text=True,
        )
        if proc.returncode != 0:
            print("driver failed in", tree)
            print(proc.stderr[-4000:])
            sys.exit(2)
        return json.loads(proc.stdout.splitlines()[-1])


def main():
    if len(sys.argv) != 3:
        print("usage: equiv.py <treeA> <treeB>")
        sys.exit(2)
    res_a = run_tree(sys.argv[1])
    res_b = run_tree(sys.argv[2])
    bad = 0
    if [r["name"] for r in res_a] != [r["name"] for r in res_b]:
        print("case lists differ")
        bad += 1
    for rec_a, rec_b in zip(res_a, res_b):
        if rec_a != rec_b:
            bad += 1
            print("DIFF in case", rec_a["name"])
            for key in sorted(set(rec_a) | set(rec_b)):
                if rec_a.get(key) != rec_b.get(key):
                    print("   ", key, ":", repr(rec_a.get(key))[:300], "!=", repr(rec_b.get(key))[:300])
    errors = sum(1 for r in res_a if "exc" in r or "exit" in r)
    print("%d cases compared (%d of them end in an exception/exit), %d differ" % (len(res_a), errors, bad))
    sys.exit(1 if bad else 0)


if __name__ == "__main__":
    main()
