#!/usr/bin/env python
"""
Differential check for property C07 (disk images round-trip every file).

Usage: equiv.py <treeA> <treeB>

Runs the same battery of cases against the code of both trees (one child
process per tree, tree at the front of sys.path, cwd in a private temp dir),
collects every observable result (image bytes, listed files, exception type
and message, CLI stdout / exit code / files produced) and compares them.
Exit status 0 when everything agrees, 1 otherwise.
"""
import concurrent.futures
import hashlib
import json
import os
import random
import shutil
import signal
import subprocess
import sys
import tempfile
import time

GRAN = 2304
IMAGE = 161280
FAT = 78592
DIR = 78848


# ---------------------------------------------------------------- child ----

def child(tree):
    tree = os.path.abspath(tree)
    sys.path.insert(0, tree)
    sys.dont_write_bytecode = True
    work = tempfile.mkdtemp(prefix="c07eq_")
    os.chdir(work)

    from cocoasm.virtualfiles import disk as D
    from cocoasm.virtualfiles.disk import (
        DiskFile, DiskConstants, MLPreamble, BasicPreamble, ASCIIPreamble, Postamble, Preamble
    )
    from cocoasm.virtualfiles.virtual_file_container import VirtualFileContainer
    from cocoasm.virtualfiles.coco_file import CoCoFile
    from cocoasm.values import NumericValue, NoneValue

    assert os.path.abspath(D.__file__).startswith(tree + os.sep), D.__file__

    results = {}

    class Timeout(BaseException):
        pass

    def on_alarm(signum, frame):
        raise Timeout("timeout")

    signal.signal(signal.SIGALRM, on_alarm)

    def sha(seq):
        try:
            return hashlib.sha256(bytes(bytearray(seq))).hexdigest()
        except Exception:
            return "repr:" + hashlib.sha256(repr(list(seq)).encode()).hexdigest()

    def dval(v):
        if v is None:
            return None
        try:
            return [type(v).__name__, getattr(v, "int", None), v.hex(), bool(getattr(v, "negative", False))]
        except Exception as error:
            return [type(v).__name__, repr(error)]

    def dbuf(b):
        return [type(b).__name__, len(b), sha(b)]

    def dfile(f):
        return {
            "name": f.name, "ext": f.extension, "type": dval(f.type), "data_type": dval(f.data_type),
            "load": dval(f.load_addr), "exec": dval(f.exec_addr), "gaps": dval(f.gaps), "ascii": f.ascii,
            "len": len(f.data), "data": sha(f.data), "datatype": type(f.data).__name__,
            "ignore_gaps": f.ignore_gaps, "str": str(f),
        }

    def dpre(p):
        return [type(p).__name__, dval(p.data_length), dval(p.load_addr), p.length, p.is_ml(), p.get_data_length()]

    def case(name, fn, seconds=300):
        assert name not in results, name
        signal.alarm(seconds)
        started = time.time()
        try:
            results[name] = {"ok": fn()}
        except Timeout:
            results[name] = {"timeout": True}
        except BaseException as error:
            results[name] = {"exc": type(error).__name__, "msg": str(error)}
        finally:
            signal.alarm(0)
            if os.environ.get("C07_TIMING"):
                sys.stderr.write("%8.2f %s\n" % (time.time() - started, name))

    def data(n, seed):
        rnd = random.Random(seed)
        return [rnd.randrange(256) for _ in range(n)]

    def mk(name, ext, kind, n, seed=1, load=0x0E00, exe=0x0E10, as_type=list):
        if kind == "ML":
            return CoCoFile(name=name, extension=ext, type=NumericValue(2), data_type=NumericValue(0),
                            load_addr=NumericValue(load), exec_addr=NumericValue(exe), data=as_type(data(n, seed)))
        if kind == "BAS":
            return CoCoFile(name=name, extension=ext, type=NumericValue(0), data_type=NumericValue(0),
                            data=as_type(data(n, seed)))
        if kind == "DAT":
            return CoCoFile(name=name, extension=ext, type=NumericValue(1), data_type=NumericValue(0),
                            data=as_type(data(n, seed)))
        if kind == "ASC":
            return CoCoFile(name=name, extension=ext, type=NumericValue(0), data_type=NumericValue(0xFF),
                            data=as_type(data(n, seed)))
        if kind == "TXT":
            return CoCoFile(name=name, extension=ext, type=NumericValue(3), data_type=NumericValue(0xFF),
                            data=as_type(data(n, seed)))
        raise ValueError(kind)

    def roundtrip(files, order=None, buffer=None, relist_as=None):
        disk = DiskFile(buffer=buffer, granule_fill_order=order)
        out = {}
        try:
            disk.add_files(files)
        except BaseException as error:
            if isinstance(error, Timeout):
                raise
            out["add_exc"] = [type(error).__name__, str(error)]
        image = disk.get_buffer()
        out["image"] = dbuf(image)
        out["fat"] = list(image[FAT:FAT + 68]) if len(image) >= FAT + 68 else None
        if relist_as is not None:
            image = relist_as(image)
        try:
            out["files"] = [dfile(f) for f in DiskFile(buffer=image).list_files()]
        except BaseException as error:
            if isinstance(error, Timeout):
                raise
            out["list_exc"] = [type(error).__name__, str(error)]
        return out

    # ---- A. writer + reader round trips over boundary lengths -------------
    lengths = sorted(set(
        [0, 1, 2, 3, 4, 5, 6, 10, 11, 128]
        + [k * 256 + d for k in (1, 9) for d in range(-11, 3)]
        + [k * GRAN + d for k in (1, 2, 3) for d in range(-11, 4)]
        + [GRAN * 2 + 256 * 3 + d for d in (-6, -5, -4, -3, -1, 0, 1)]
        + [GRAN * 17 - 7, 40000, 65535 - 2304, 65530, 65535]
    ))
    for kind in ("ML", "BAS", "ASC"):
        for n in lengths:
            case("rt/%s/%d" % (kind, n), lambda kind=kind, n=n: roundtrip([mk("F%d" % n, "BIN", kind, n, seed=n)]))
    case("rt/ML/65536", lambda: roundtrip([mk("BIG", "BIN", "ML", 65536)]))
    case("rt/BAS/65536", lambda: roundtrip([mk("BIG", "BAS", "BAS", 65536)]))
    case("rt/ASC/70000", lambda: roundtrip([mk("BIG", "TXT", "ASC", 70000)]))
    case("rt/DAT/300", lambda: roundtrip([mk("DATA", "DAT", "DAT", 300)]))
    case("rt/TXT/5000", lambda: roundtrip([mk("TEXT", "TXT", "TXT", 5000)]))

    names = ["a", "Ab", "hello", "HELLO123", "MixedCase99", "abcdefghijkl", "x1", "Z"]
    exts = ["", "b", "BA", "bin", "BAS", "DAT", "toolong"]

    def many(count, seed, size_pick):
        rnd = random.Random(seed)
        files = []
        for i in range(count):
            kind = rnd.choice(["ML", "BAS", "ASC", "DAT", "TXT"])
            files.append(mk(rnd.choice(names) + str(i), rnd.choice(exts), kind, size_pick(rnd), seed=seed * 100 + i,
                            load=rnd.randrange(65536), exe=rnd.randrange(65536)))
        return files

    case("multi/small-12", lambda: roundtrip(many(12, 1, lambda r: r.randrange(0, 600))))
    case("multi/granule-edges", lambda: roundtrip(many(10, 2, lambda r: r.choice([1, 2]) * GRAN + r.randrange(-11, 3))))
    case("multi/mixed-8", lambda: roundtrip(many(8, 3, lambda r: r.randrange(0, 12000))))
    case("multi/68-files", lambda: roundtrip(many(68, 4, lambda r: r.randrange(0, 2200))))
    case("multi/69-files-overflow", lambda: roundtrip(many(69, 5, lambda r: r.randrange(0, 2200))))
    case("multi/too-big-total", lambda: roundtrip(many(6, 6, lambda r: r.randrange(30000, 60000))))
    case("multi/exact-fill", lambda: roundtrip([mk("A", "BIN", "BAS", GRAN * 34 - 4, 7), mk("B", "BIN", "BAS", GRAN * 34 - 4, 8)]))
    case("multi/ascii-over-capacity", lambda: roundtrip([mk("A", "BIN", "ASC", GRAN * 27, 7), mk("B", "BIN", "ASC", GRAN * 27, 8),
                                                         mk("C", "BIN", "ASC", GRAN * 14, 9)]))
    case("multi/tuple-data", lambda: roundtrip([mk("TUP", "BIN", "ML", 3000, 3, as_type=tuple), mk("BYT", "BIN", "BAS", 3000, 4, as_type=bytes)]))
    case("multi/bytearray-data", lambda: roundtrip([mk("BA", "BIN", "ML", 4700, 3, as_type=bytearray)]))

    rnd = random.Random(99)
    shuffled = list(range(68))
    rnd.shuffle(shuffled)
    orders = {
        "ascending": list(range(68)),
        "descending": list(range(67, -1, -1)),
        "shuffled": shuffled,
        "evens-odds": list(range(0, 68, 2)) + list(range(1, 68, 2)),
        "tuple": tuple(range(68)),
        "dupes-70": [5] * 3 + list(range(67)),
        "short": list(range(67)),
        "single": [0],
        "out-of-range": [68] + list(range(67)),
        "negative": [-1] + list(range(67)),
    }
    for oname, order in orders.items():
        case("order/%s" % oname, lambda order=order: roundtrip(many(7, 11, lambda r: r.randrange(0, 9000)), order=order))
    case("order/empty-falls-back", lambda: roundtrip(many(3, 12, lambda r: r.randrange(0, 5000)), order=[]))

    # pre-existing fragmentation: add on top of an image that already holds files
    def prefilled(as_type):
        first = DiskFile(granule_fill_order=orders["evens-odds"])
        first.add_files(many(9, 21, lambda r: r.randrange(0, 7000)))
        return as_type(first.get_buffer())

    case("append/list", lambda: roundtrip(many(6, 22, lambda r: r.randrange(0, 8000)), buffer=prefilled(list)))
    case("append/bytearray", lambda: roundtrip(many(6, 22, lambda r: r.randrange(0, 8000)), buffer=prefilled(bytearray)))
    case("append/bytes-immutable", lambda: roundtrip(many(2, 22, lambda r: r.randrange(0, 800)), buffer=prefilled(bytes)))
    case("append/short-buffer", lambda: roundtrip([mk("S", "BIN", "ML", 10)], buffer=[0xFF] * 1000))
    case("append/relist-bytes", lambda: roundtrip(many(5, 23, lambda r: r.randrange(0, 9000)), relist_as=bytes))
    case("append/relist-bytearray", lambda: roundtrip(many(5, 23, lambda r: r.randrange(0, 9000)), relist_as=bytearray))

    def full_directory():
        image = [0xFF] * IMAGE
        for entry in range(72):
            image[DIR + 32 * entry] = 0x41
        return roundtrip([mk("N", "BIN", "BAS", 10)], buffer=image)

    def directory_last_slot_only():
        image = [0xFF] * IMAGE
        for entry in range(71):
            image[DIR + 32 * entry] = 0x41
        disk = DiskFile(buffer=image)
        try:
            disk.add_file(mk("N", "BIN", "BAS", 10))
        except BaseException as error:
            return [type(error).__name__, str(error), dbuf(disk.get_buffer())]
        return dbuf(disk.get_buffer())

    def directory_deleted_slots():
        disk = DiskFile()
        disk.add_files(many(5, 31, lambda r: r.randrange(0, 3000)))
        disk.buffer[DIR + 32] = 0x00
        disk.buffer[DIR + 96] = 0xFF
        disk.add_files(many(3, 32, lambda r: r.randrange(0, 3000)))
        return [dbuf(disk.get_buffer()), [dfile(f) for f in DiskFile(buffer=disk.get_buffer()).list_files()]]

    case("dir/full", full_directory)
    case("dir/last-slot-only", directory_last_slot_only)
    case("dir/deleted-slots-reused", directory_deleted_slots)

    def odd_names():
        files = [
            CoCoFile(name="nul\0\0\0\0\0", extension="b\0n", type=NumericValue(2), data_type=NumericValue(0),
                     load_addr=NumericValue(1), exec_addr=NumericValue(2), data=[1, 2, 3]),
            CoCoFile(name="", extension="", type=NumericValue(0), data_type=NumericValue(0), data=[9] * 20),
            CoCoFile(name="sp ace", extension="a b", type=NumericValue(0), data_type=NumericValue(0xFF), data=[65] * 20),
            CoCoFile(name="defaults"),
            CoCoFile(name="noaddr", type=NumericValue(2), data_type=NumericValue(0), data=[7] * 300),
        ]
        return roundtrip(files)

    case("names/odd", odd_names)
    case("names/latin1", lambda: roundtrip([CoCoFile(name="été", extension="fr", type=NumericValue(1),
                                                     data_type=NumericValue(0), data=[1])]))
    case("names/wide-char-list", lambda: roundtrip([CoCoFile(name="ЖX", extension="x", type=NumericValue(0),
                                                                data_type=NumericValue(0), data=[1])]))
    case("names/wide-char-bytearray", lambda: roundtrip([CoCoFile(name="ABЖX", extension="x", type=NumericValue(0),
                                                                     data_type=NumericValue(0), data=[1])],
                                                        buffer=bytearray([0xFF] * IMAGE)))
    case("names/bad-type-object", lambda: roundtrip([CoCoFile(name="BAD", extension="x", type=None, data=[1])]))
    case("names/bad-data-type", lambda: roundtrip([CoCoFile(name="BAD", extension="x", type=NumericValue(0),
                                                             data_type=None, data=[1])]))
    case("names/bad-load", lambda: roundtrip([CoCoFile(name="BAD", extension="x", type=NumericValue(2),
                                                        data_type=NumericValue(0), load_addr=None, exec_addr=NumericValue(3),
                                                        data=[1])]))
    case("names/bad-exec", lambda: roundtrip([CoCoFile(name="BAD", extension="x", type=NumericValue(2),
                                                        data_type=NumericValue(0), load_addr=NumericValue(3), exec_addr=None,
                                                        data=[1] * 3000)]))
    case("names/bytes-name", lambda: roundtrip([CoCoFile(name=b"BYTES", extension="x", type=NumericValue(0),
                                                          data_type=NumericValue(0), data=[1])]))

    # ---- B. reader on images built independently of the library -----------
    def seek(g):
        return g * GRAN + (2 * GRAN if g > 33 else 0)

    def build(specs, exact_convention="dos", fat_tail=0x00, image_type=bytes, size=IMAGE):
        """specs: list of (name, ext, type, ascii, payload bytes, chain, load, exec)."""
        image = bytearray([0xFF] * max(size, IMAGE))
        for i in range(68, 256):
            image[FAT + i] = fat_tail
        for entry, (name, ext, ftype, flag, payload, chain, load, exe) in enumerate(specs):
            if ftype == 2:
                content = bytes([0, len(payload) >> 8 & 255, len(payload) & 255, load >> 8, load & 255]) + bytes(payload) \
                    + bytes([0xFF, 0, 0, exe >> 8, exe & 255])
            elif flag == 0xFF:
                content = bytes(payload)
            else:
                content = bytes([0xFF, len(payload) >> 8 & 255, len(payload) & 255]) + bytes(payload)
            chunks = [content[i:i + GRAN] for i in range(0, len(content), GRAN)] or [b""]
            if exact_convention == "tool" and len(content) % GRAN == 0 and content:
                chunks.append(b"")
            assert len(chunks) <= len(chain), (name, len(chunks), chain)
            used = chain[:len(chunks)]
            for g, chunk in zip(used, chunks):
                image[seek(g):seek(g) + len(chunk)] = chunk
            for g, nxt in zip(used, used[1:]):
                image[FAT + g] = nxt
            last = chunks[-1]
            if exact_convention == "tool":
                sectors = len(last) // 256 + 1
                in_last = len(last) - (sectors - 1) * 256
            else:
                sectors = max(1, (len(last) + 255) // 256)
                in_last = len(last) - (sectors - 1) * 256
            image[FAT + used[-1]] = 0xC0 + sectors
            at = DIR + 32 * entry
            image[at:at + 8] = name.ljust(8).encode("ascii")
            image[at + 8:at + 11] = ext.ljust(3).encode("ascii")
            image[at + 11] = ftype
            image[at + 12] = flag
            image[at + 13] = used[0]
            image[at + 14] = in_last >> 8
            image[at + 15] = in_last & 255
            image[at + 16:at + 32] = bytes(16)
        del image[size:]
        return image_type(image)

    def listing(image):
        return [dfile(f) for f in DiskFile(buffer=image).list_files()]

    def specs_fragmented(seed, count=6, sizes=None):
        rnd = random.Random(seed)
        free = list(range(68))
        rnd.shuffle(free)
        specs = []
        for i in range(count):
            ftype, flag = rnd.choice([(2, 0), (0, 0), (0, 0xFF), (1, 0), (1, 0xFF), (3, 0xFF)])
            size = sizes[i] if sizes else rnd.choice([0, 1, 250, 255, 256, GRAN - 10, GRAN - 5, GRAN - 3, GRAN, GRAN + 1,
                                                      2 * GRAN - 8, 2 * GRAN - 5, 3 * GRAN - 1, 7000, 11111])
            need = (size + 10) // GRAN + 2
            chain, free = free[:need], free[need:]
            specs.append(("FR%d" % i, rnd.choice(["BIN", "BAS", "A", ""]), ftype, flag,
                          bytes(random.Random(seed * 50 + i).randrange(1, 256) for _ in range(size)),
                          chain, rnd.randrange(65536), rnd.randrange(65536)))
        return specs

    for seed in range(1, 9):
        for conv in ("dos", "tool"):
            for image_type in (bytes, list):
                case("read/frag/%d/%s/%s" % (seed, conv, image_type.__name__),
                     lambda seed=seed, conv=conv, image_type=image_type:
                     listing(build(specs_fragmented(seed), exact_convention=conv, image_type=image_type)))
    case("read/frag/bytearray", lambda: listing(build(specs_fragmented(3), image_type=bytearray)))
    case("read/frag/fat-tail-ff", lambda: listing(build(specs_fragmented(4), fat_tail=0xFF)))
    case("read/across-dir-track", lambda: listing(build([
        ("CROSS", "BIN", 2, 0, bytes(range(1, 251)) * 40, [32, 33, 34, 35, 36, 37], 0x1000, 0x2000),
        ("BACK", "BAS", 0, 0, bytes(range(1, 251)) * 30, [40, 0, 50, 13, 66, 1], 0, 0),
    ])))
    for size in (IMAGE - 1, IMAGE, IMAGE + 1, IMAGE + 256, 0, 100, FAT, DIR + 10):
        case("read/size/%d" % size, lambda size=size: listing(build(specs_fragmented(5, count=3), size=size)))
    case("read/empty-list", lambda: listing([]))
    case("read/blank-ff", lambda: listing([0xFF] * IMAGE))
    case("read/blank-00", lambda: listing(bytes(IMAGE)))
    case("read/last-granule-file", lambda: listing(build([
        ("LAST", "BIN", 2, 0, bytes([7]) * (GRAN - 10), [67], 0x1234, 0x5678),
        ("LAST2", "BIN", 0, 0xFF, bytes([8]) * GRAN, [66], 0, 0),
    ])))
    case("read/overrun-last-granule", lambda: listing(build([
        ("OVER", "BIN", 2, 0, bytes([7]) * (GRAN - 10), [67], 0x1234, 0x5678),
    ], size=IMAGE - 6)))

    def mutate(seed, edits, image_type=bytearray, specs=None):
        image = bytearray(build(specs or specs_fragmented(seed)))
        for offset, value in edits:
            image[offset] = value
        return listing(image_type(image))

    base = specs_fragmented(6, count=4, sizes=[3000, 100, 5000, 2299])
    case("mut/baseline", lambda: mutate(6, [], specs=base))
    for entry in range(4):
        chain = base[entry][5]
        g0 = chain[0]
        case("mut/%d/preamble-flag" % entry, lambda g0=g0: mutate(6, [(seek(g0), 0x55)], specs=base))
        case("mut/%d/len-zero" % entry, lambda g0=g0: mutate(6, [(seek(g0) + 1, 0), (seek(g0) + 2, 0)], specs=base))
        case("mut/%d/len-huge" % entry, lambda g0=g0: mutate(6, [(seek(g0) + 1, 0xFF), (seek(g0) + 2, 0xFF)], specs=base))
        case("mut/%d/fat-first-out-of-range" % entry, lambda g0=g0: mutate(6, [(FAT + g0, 0x50)], specs=base))
        case("mut/%d/fat-first-free" % entry, lambda g0=g0: mutate(6, [(FAT + g0, 0xFF)], specs=base))
        case("mut/%d/fat-first-c0" % entry, lambda g0=g0: mutate(6, [(FAT + g0, 0xC0)], specs=base))
        case("mut/%d/fat-first-c9" % entry, lambda g0=g0: mutate(6, [(FAT + g0, 0xC9)], specs=base))
        case("mut/%d/fat-first-df" % entry, lambda g0=g0: mutate(6, [(FAT + g0, 0xDF)], specs=base))
        case("mut/%d/fat-first-99" % entry, lambda g0=g0: mutate(6, [(FAT + g0, 0x99)], specs=base))
        case("mut/%d/dir-granule-67" % entry, lambda entry=entry: mutate(6, [(DIR + 32 * entry + 13, 67)], specs=base))
        case("mut/%d/dir-granule-68" % entry, lambda entry=entry: mutate(6, [(DIR + 32 * entry + 13, 68)], specs=base))
        case("mut/%d/dir-granule-255" % entry, lambda entry=entry: mutate(6, [(DIR + 32 * entry + 13, 255)], specs=base))
        case("mut/%d/dir-type-2" % entry, lambda entry=entry: mutate(6, [(DIR + 32 * entry + 11, 2)], specs=base))
        case("mut/%d/dir-type-0" % entry, lambda entry=entry: mutate(6, [(DIR + 32 * entry + 11, 0)], specs=base))
        case("mut/%d/dir-ascii-ff" % entry, lambda entry=entry: mutate(6, [(DIR + 32 * entry + 12, 0xFF)], specs=base))
        case("mut/%d/dir-ascii-00" % entry, lambda entry=entry: mutate(6, [(DIR + 32 * entry + 12, 0x00)], specs=base))
        case("mut/%d/dir-deleted" % entry, lambda entry=entry: mutate(6, [(DIR + 32 * entry, 0x00)], specs=base))
        case("mut/%d/dir-name-high-bit" % entry, lambda entry=entry: mutate(6, [(DIR + 32 * entry + 2, 0xC3)], specs=base))
        case("mut/%d/dir-ext-high-bit" % entry, lambda entry=entry: mutate(6, [(DIR + 32 * entry + 9, 0x80)], specs=base))
        case("mut/%d/dir-last-bytes" % entry,
             lambda entry=entry: mutate(6, [(DIR + 32 * entry + 14, 0x01), (DIR + 32 * entry + 15, 0x00)], specs=base))
    ml = specs_fragmented(6, count=1, sizes=[3000])
    ml[0] = ("MLONLY", "BIN", 2, 0) + ml[0][4:]
    ml_chain = ml[0][5]
    post = seek(ml_chain[1]) + (3010 - GRAN) - 5
    for k, v in ((0, 0xFE), (1, 1), (2, 2), (3, 0xAB), (4, 0xCD)):
        case("mut/postamble/%d" % k, lambda k=k, v=v: mutate(6, [(post + k, v)], specs=ml))
    straddle = [("STRAD", "BIN", 2, 0, bytes([3]) * (GRAN - 8), [10, 50], 0x100, 0x200)]
    case("read/postamble-straddles-granules", lambda: listing(build(straddle)))
    case("read/postamble-starts-next-granule", lambda: listing(build(
        [("NEXT", "BIN", 2, 0, bytes([3]) * (GRAN - 5), [10, 50], 0x100, 0x200)])))
    case("read/postamble-starts-next-granule-tool", lambda: listing(build(
        [("NEXT", "BIN", 2, 0, bytes([3]) * (GRAN - 5), [10, 50, 51], 0x100, 0x200)], exact_convention="tool")))

    def fuzz(seed):
        rnd = random.Random(seed)
        image = bytearray(build(specs_fragmented(seed % 5 + 1)))
        for _ in range(rnd.randrange(1, 4)):
            region = rnd.choice([(FAT, FAT + 68), (DIR, DIR + 32 * 7)])
            image[rnd.randrange(*region)] = rnd.choice([0, 1, 33, 34, 67, 68, 0x99, 0xC0, 0xC1, 0xC9, 0xCA, 0xFF, rnd.randrange(256)])
        return listing(bytes(image))

    for seed in range(40):
        case("fuzz/%d" % seed, lambda seed=seed: fuzz(seed), seconds=20)

    # ---- C. helpers called directly --------------------------------------
    case("seek/all", lambda: [DiskFile.seek_granule(g) for g in list(range(-2, 72)) + [255, 256, 1000]])
    case("seek/float", lambda: DiskFile.seek_granule(33.5))
    case("seek/instance", lambda: [DiskFile().seek_granule(g) for g in (0, 33, 34, 67)])
    case("seek/str", lambda: DiskFile.seek_granule("3"))

    class Amble:
        def __init__(self, length):
            self.length = length

    def arith(fn):
        out = []
        for pre in (MLPreamble(), BasicPreamble(), ASCIIPreamble(), Amble(7)):
            for post_ in (None, Postamble(), Amble(0), Amble(4)):
                for n in [0, 1, 245, 246, 251, 256, 2293, 2294, 2295, 2299, 2300, 2301, 2303, 2304, 2305, 4597, 4598,
                          4599, 4603, 4604, 4608, 65535, 100000]:
                    out.append(fn(bytes(n), pre, post_))
        return out

    case("calc/granules", lambda: arith(DiskFile.calculate_granules_needed))
    case("calc/last-sector-bytes", lambda: arith(DiskFile.calculate_last_sector_bytes_used))
    case("calc/last-granule-sectors", lambda: arith(DiskFile.calculate_last_granules_sectors_used))
    case("calc/sectors", lambda: [DiskFile.calculate_sectors_needed(n) for n in
                                  [-513, -257, -256, -255, -1, 0, 1, 255, 256, 257, 511, 512, 2303, 2304, 2305, 0.5, 255.9, 256.0]])
    case("calc/sectors-str", lambda: DiskFile.calculate_sectors_needed("12"))
    case("calc/granules-none-preamble", lambda: DiskFile.calculate_granules_needed([1], None, None))
    case("calc/last-sector-none-preamble", lambda: DiskFile.calculate_last_sector_bytes_used([1], None, None))
    case("calc/last-sectors-none-preamble", lambda: DiskFile.calculate_last_granules_sectors_used([1], None, None))
    case("calc/granules-instance", lambda: DiskFile().calculate_granules_needed([1] * 5000, MLPreamble(), Postamble()))

    def file_length_cases():
        out = []
        fat = [1, 2, 0xC3, 0xC0, 0xDF, 0xE1, 7, 0xC9, 0xFF - 0x3F, 0x40, 0xC1]
        for start in range(len(fat)):
            for last in (0, 1, 255, 256, 300):
                try:
                    out.append(DiskFile.calculate_file_length(start, fat, last))
                except Exception as error:
                    out.append([type(error).__name__, str(error)])
        return out

    case("flen/table", file_length_cases)
    case("flen/bytes-fat", lambda: DiskFile.calculate_file_length(0, bytes([3, 0xC1, 0, 1]), 17))
    case("flen/empty-fat", lambda: DiskFile.calculate_file_length(0, [], 17))
    case("flen/start-out-of-range", lambda: DiskFile.calculate_file_length(9, [0xC1], 17))
    case("flen/cycle", lambda: DiskFile.calculate_file_length(0, [1, 0], 17), seconds=2)
    case("flen/instance", lambda: DiskFile().calculate_file_length(0, [0xC4], 1))

    def read_data_cases():
        out = []
        image = bytes(build(specs_fragmented(2)))
        fat = image[FAT:FAT + 256]
        for buffer in (image, list(image)):
            disk = DiskFile(buffer=buffer)
            for start in (0, 5, 33, 34, 40, 66, 67, 68, 200):
                for pre in (None, MLPreamble(), BasicPreamble(), ASCIIPreamble()):
                    for n in (0, 1, 2298, 2299, 2300, 2301, 2302, 2303, 2304, 2305, 4603, 4604, 4605, 6000, 70000, -1):
                        try:
                            got, pointer = disk.read_data(start, fat, pre, data_length=n)
                            out.append([len(got), sha(got), type(got).__name__, pointer])
                        except Exception as error:
                            out.append([type(error).__name__, str(error)])
        return out

    case("read_data/grid", read_data_cases)
    case("read_data/default-length", lambda: DiskFile(buffer=[1] * 5000).read_data(0, [], None))
    case("read_data/keyword-args", lambda: DiskFile(buffer=[1] * 5000).read_data(starting_granule=1, fat=[0xC1] * 3,
                                                                              preamble=BasicPreamble(), data_length=7))
    case("read_data/empty-fat", lambda: DiskFile(buffer=[1] * 9000).read_data(0, [], None, data_length=3000))
    case("read_data/short-tail", lambda: DiskFile(buffer=[1] * 2303).read_data(0, [0xC1], MLPreamble(), data_length=2300))
    case("read_data/short-tail-2", lambda: DiskFile(buffer=bytearray(2302)).read_data(0, [0xC1], MLPreamble(), data_length=2300))
    case("read_data/short-tail-3", lambda: DiskFile(buffer=bytes(2300)).read_data(0, [0xC1], MLPreamble(), data_length=2298))
    case("read_data/second-granule-short", lambda: DiskFile(buffer=[1] * 7000).read_data(0, [2], BasicPreamble(), data_length=4700))
    case("read_data/second-granule-short-2", lambda: DiskFile(buffer=[1] * 6911).read_data(0, [2], None, data_length=4608))
    case("read_data/second-granule-exact", lambda: [len(x) if isinstance(x, list) else x for x in
                                                     DiskFile(buffer=[1] * 6912).read_data(0, [2], None, data_length=4608)])
    case("read_data/self-loop", lambda: [len(x) if isinstance(x, list) else x for x in
                                         DiskFile(buffer=[1] * 3000).read_data(0, [0], None, data_length=2700 * 20)])
    case("read_data/self-loop-fits", lambda: [sha(x) if isinstance(x, list) else x for x in
                                              DiskFile(buffer=list(range(256)) * 300).read_data(1, [0, 1], None, data_length=2304 * 9 + 5)])

    def amble_cases():
        out = []
        buffers = [
            [], [0], [0, 1, 2, 3], [0, 1, 2, 3, 4], [0xFF, 1, 2, 3, 4], [0xFF, 0, 0, 3, 4], [0xFF, 0, 1, 3, 4],
            [0xFF, 9, 0, 3, 4], [0xFE, 0, 0, 3, 4], [1, 0xFF, 0, 0, 0x12, 0x34, 9], [9, 9, 0, 0x80, 0x01, 0xFF, 0xFE, 5],
            [0xFF, 0x12, 0x34], [0xFF, 0x12], [0x00, 0xFF, 0xFF, 0xFF, 0xFF],
        ]
        for make in (MLPreamble, BasicPreamble, ASCIIPreamble, Postamble):
            for raw in buffers:
                for convert in (list, bytes, bytearray):
                    for pointer in (0, 1, 2, 3, 6, 50, -1, -5, -6):
                        obj = make()
                        try:
                            end = obj.read(convert(raw), pointer)
                            out.append([make.__name__, end, {k: dval(v) if hasattr(v, "hex") else v for k, v in sorted(vars(obj).items())}])
                        except Exception as error:
                            out.append([make.__name__, type(error).__name__, str(error),
                                        {k: dval(v) if hasattr(v, "hex") else v for k, v in sorted(vars(obj).items())}])
        return out

    case("amble/read", amble_cases)

    def amble_write_cases():
        out = []
        values = [NoneValue(), NumericValue(0), NumericValue(5), NumericValue(255), NumericValue(256), NumericValue(0x1234),
                  NumericValue(65535), NumericValue("$0E"), NumericValue("$000E"), NumericValue(-3), None]
        for size in (0, 2, 3, 4, 5, 6, 9):
            for pointer in (0, 1, 4, -5, -3, 20):
                for a in values:
                    for b in (NumericValue(0xBEEF), NoneValue(), None):
                        for make in (MLPreamble, BasicPreamble, ASCIIPreamble, Postamble):
                            for convert in (list, bytearray):
                                obj = make()
                                if make is Postamble:
                                    obj.exec_addr = a
                                else:
                                    obj.data_length = a
                                    obj.load_addr = b
                                target = convert([0x11] * size)
                                try:
                                    end = obj.write(target, pointer)
                                    out.append([end, list(target)])
                                except Exception as error:
                                    out.append([type(error).__name__, str(error), list(target)])
        return [len(out), hashlib.sha256(json.dumps(out).encode()).hexdigest(), out[:40]]

    case("amble/write", amble_write_cases)
    case("amble/write-bytes-immutable", lambda: MLPreamble().write(bytes(10), 0))
    case("amble/post-write-bytes-immutable", lambda: Postamble().write(bytes(10), 0))
    case("amble/describe", lambda: [dpre(MLPreamble()), dpre(BasicPreamble()), dpre(ASCIIPreamble()),
                                    [dval(Postamble().exec_addr), Postamble().length]])
    case("amble/abstract", lambda: Preamble())
    case("amble/kwargs", lambda: [MLPreamble().read(buffer=[0, 1, 2, 3, 4], pointer=0),
                                  BasicPreamble().read(buffer=[0xFF, 1, 2], pointer=0),
                                  Postamble().read(buffer=[0xFF, 0, 0, 3, 4], pointer=0),
                                  MLPreamble().write(buffer=[0] * 5, pointer=0),
                                  BasicPreamble().write(buffer=[0] * 5, pointer=0),
                                  ASCIIPreamble().write(buffer=[0] * 5, pointer=2),
                                  ASCIIPreamble().read(buffer=[0] * 5, pointer=2),
                                  Postamble().write(buffer=[0] * 5, pointer=0)])

    def container_cases():
        out = []
        for raw in ([], [1], [1, 2], [0xDE, 0xAD, 0xBE, 0xEF], bytes([0xDE, 0xAD, 0xBE]), bytearray([0x41, 0x42, 0x43, 0xC3])):
            disk = DiskFile(buffer=raw)
            for pointer in (0, 1, 2, 3, 4, -1, -2, -3):
                for fn in (lambda: dval(disk.read_word(pointer)),
                           lambda: disk.read_sequence(pointer, 2),
                           lambda: disk.read_sequence(pointer, 2, decode=True),
                           lambda: disk.read_sequence(pointer, 0),
                           lambda: disk.read_sequence(pointer, 9),
                           lambda: disk.validate_sequence(pointer, [0xAD, 0xBE]),
                           lambda: disk.validate_sequence(pointer, [])):
                    try:
                        out.append(fn())
                    except Exception as error:
                        out.append([type(error).__name__, str(error)])
        return out

    case("container/read-helpers", container_cases)
    case("container/word-str-digits", lambda: dval(DiskFile(buffer=["1", "2"]).read_word(0)))
    case("container/word-big", lambda: dval(DiskFile(buffer=[256, 0]).read_word(0)))
    case("container/word-keyword", lambda: dval(DiskFile(buffer=[1, 2, 3]).read_word(pointer=1)))
    case("container/base-class", lambda: [VirtualFileContainer().get_buffer(), VirtualFileContainer(buffer=[1]).original_buffer,
                                          VirtualFileContainer().add_file(None), VirtualFileContainer().list_files()])
    case("container/base-add-files", lambda: VirtualFileContainer().add_files([1, 2]))
    case("container/original-buffer", lambda: (lambda d: [d.original_buffer[:4], d.add_file(mk("A", "B", "BAS", 3)),
                                                          sha(d.original_buffer), sha(d.buffer), d.buffer is d.get_buffer()])(
        DiskFile(buffer=[0xFF] * IMAGE)))
    case("container/init-defaults", lambda: (lambda d: [len(d.buffer), d.original_buffer, d.granule_fill_order ==
                                                        DiskConstants.GRANULE_FILL_ORDER, sha(d.buffer)])(DiskFile()))

    def in_use_cases():
        disk = DiskFile()
        disk.add_files(many(5, 41, lambda r: r.randrange(0, 6000)))
        out = []
        for n in range(-2, 75):
            for fn in (disk.granule_in_use, disk.directory_entry_in_use):
                try:
                    out.append(fn(n))
                except Exception as error:
                    out.append([type(error).__name__, str(error)])
        out.append(disk.find_empty_granule())
        out.append(disk.find_empty_directory_entry())
        return out

    case("alloc/in-use", in_use_cases)

    def fat_cases():
        out = []
        for chain in ([], [2], [2, 4], [2, 4, 6, 8], (1, 3, 5), [67, 0, 33, 34], [5, 5, 5], [0, 68], [300], [-1, 2], [3, "x"]):
            for sectors in (0, 1, 9, 10, 63, 64, -1):
                for convert in (list, bytearray):
                    disk = DiskFile(buffer=convert([0xFF] * IMAGE))
                    try:
                        ret = disk.write_to_fat(chain, sectors)
                        out.append([ret, list(disk.buffer[FAT - 2:FAT + 70]), sha(disk.buffer)])
                    except Exception as error:
                        out.append([type(error).__name__, str(error), list(disk.buffer[FAT - 2:FAT + 70]), sha(disk.buffer)])
        return [len(out), hashlib.sha256(json.dumps(out).encode()).hexdigest(), out[:12]]

    case("fat/write", fat_cases, seconds=600)
    case("fat/keyword", lambda: (lambda d: [d.write_to_fat(allocated_granules=[1, 2], last_granule_sectors_used=3),
                                            list(d.buffer[FAT:FAT + 4])])(DiskFile()))
    case("fat/small-buffer", lambda: (lambda d: [d.write_to_fat([1, 2], 3), d.buffer])(DiskFile(buffer=[7] * 10)))

    def dir_entry_cases():
        out = []
        files = [
            mk("plain", "bin", "ML", 4), mk("LONGERTHAN8", "LONG", "BAS", 4), mk("", "", "ASC", 0),
            CoCoFile(name="n\0l", extension="\0", type=NumericValue(3), data_type=NumericValue(0xFF)),
            CoCoFile(name="wideЖ", extension="e", type=NumericValue(3), data_type=NumericValue(0xFF)),
            CoCoFile(name="typ", extension="e", type=None, data_type=NumericValue(0xFF)),
            CoCoFile(name="dty", extension="e", type=NumericValue(1), data_type=None),
            CoCoFile(name="straße", extension="ß", type=NumericValue(1), data_type=NumericValue(0)),
        ]
        for coco_file in files:
            for entry in (0, 71, 72, -1, 2573):
                for granule, used in ((0x20, 0x22), (67, 256), (300, 65535), (5, 65536), (5, -2), (None, 5), (5, None)):
                    for convert in (list, bytearray):
                        if convert is bytearray and entry not in (0, 72):
                            continue
                        disk = DiskFile(buffer=convert([0xEE] * IMAGE))
                        try:
                            ret = disk.write_dir_entry(entry, coco_file, granule, used)
                            out.append([ret, sha(disk.buffer)])
                        except Exception as error:
                            out.append([type(error).__name__, str(error), sha(disk.buffer)])
        return [len(out), hashlib.sha256(json.dumps(out).encode()).hexdigest(), out[:12]]

    case("dir/write-entry", dir_entry_cases, seconds=600)
    case("dir/write-entry-keywords", lambda: (lambda d: [d.write_dir_entry(directory_entry_number=3, coco_file=mk("K", "W", "ML", 1),
                                                                            first_granule=9, last_sector_bytes_used=77),
                                                         list(d.buffer[DIR + 96:DIR + 128])])(DiskFile()))

    def granule_write_cases():
        out = []
        for n in (0, 2294, 2295, 2299, 2300, 2304, 4603, 7000):
            for chain in ([], [3, 1], [33, 34, 2, 67], [70], (0, 0, 0)):
                for pre, post_ in ((None, None), (MLPreamble(), Postamble()), (BasicPreamble(), None), (ASCIIPreamble(), None),
                                   (None, Postamble())):
                    for first in (True, False):
                        if not first and n % 5:
                            continue
                        disk = DiskFile(buffer=[0xEE] * IMAGE)
                        if pre is not None:
                            pre.data_length = NumericValue(n)
                            pre.load_addr = NumericValue(0x4000)
                        if post_ is not None:
                            post_.exec_addr = NumericValue(0x4001)
                        payload = data(n, n)
                        try:
                            ret = disk.write_to_granules(payload, chain, pre, post_, first_granule=first)
                            out.append([ret, len(disk.buffer), sha(disk.buffer), chain])
                        except Exception as error:
                            out.append([type(error).__name__, str(error), len(disk.buffer), sha(disk.buffer), chain])
        return [len(out), hashlib.sha256(json.dumps(out).encode()).hexdigest(), out[:12]]

    case("granules/write", granule_write_cases, seconds=600)
    case("granules/write-bytes", lambda: (lambda d: [d.write_bytes_to_buffer(3, [1, 2, 3]), d.write_bytes_to_buffer(0, []),
                                                     d.write_bytes_to_buffer(pointer=8, data_to_write=b"\x05\x06"), d.buffer])(
        DiskFile(buffer=[0] * 12)))
    case("granules/write-bytes-overrun", lambda: (lambda d: [d.write_bytes_to_buffer(10, [1, 2, 3])])(DiskFile(buffer=[0] * 12)))

    def add_file_state_cases():
        out = []
        disk = DiskFile(granule_fill_order=list(range(68)))
        for i, (kind, n) in enumerate([("ML", 2294), ("ML", 2295), ("BAS", 2301), ("ASC", 2304), ("ASC", 0), ("ML", 0),
                                       ("BAS", 0), ("ML", 65535), ("ML", 65535), ("BAS", 60000), ("ML", 9)]):
            try:
                ret = disk.add_file(mk("S%d" % i, "BIN", kind, n, seed=i))
                out.append([ret, sha(disk.buffer), list(disk.buffer[FAT:FAT + 68])])
            except Exception as error:
                out.append([type(error).__name__, str(error), sha(disk.buffer), list(disk.buffer[FAT:FAT + 68])])
        out.append(list(disk.buffer[FAT + 68:DIR]) == [0] * 188)
        try:
            out.append([dfile(f) for f in DiskFile(buffer=disk.buffer).list_files()])
        except Exception as error:
            out.append([type(error).__name__, str(error)])
        return out

    case("add_file/state-after-each", add_file_state_cases)
    case("add_file/keyword", lambda: (lambda d: [d.add_file(coco_file=mk("KW", "BIN", "ML", 12)), sha(d.buffer)])(DiskFile()))
    case("add_file/none", lambda: DiskFile().add_file(None))

    case("api/surface", lambda: sorted(n for n in dir(DiskFile) if not n.startswith("_")))
    case("api/constants", lambda: {k: v for k, v in vars(DiskConstants).items() if not k.startswith("_")
                                   and k in ("FAT_OFFSET", "DIR_OFFSET", "HALF_TRACK_LEN", "SECTORS_PER_TRACK", "BYTES_PER_SECTOR",
                                             "TOTAL_GRANULES", "PREAMBLE_LEN", "POSTAMBLE_LEN", "IMAGE_SIZE", "GRANULE_FILL_ORDER")})

    # ---- D. command line tools -------------------------------------------
    def cli(script, *args):
        proc = subprocess.run([sys.executable, "-B", os.path.join(tree, script)] + list(args), cwd=work,
                              stdout=subprocess.PIPE, stderr=subprocess.PIPE, timeout=120)
        err = proc.stderr.decode("utf-8", "replace").replace(tree, "<TREE>")
        return [proc.returncode, proc.stdout.decode("utf-8", "replace").replace(tree, "<TREE>"), err]

    def snapshot():
        return {name: hashlib.sha256(open(os.path.join(work, name), "rb").read()).hexdigest()
                for name in sorted(os.listdir(work)) if os.path.isfile(os.path.join(work, name))}

    def cli_cases():
        out = []
        with open("frag.dsk", "wb") as handle:
            handle.write(bytes(build(specs_fragmented(7))))
        with open("cross.dsk", "wb") as handle:
            handle.write(bytes(build([
                ("CROSS", "BIN", 2, 0, bytes(range(1, 251)) * 40, [32, 33, 34, 35, 36, 37], 0x1000, 0x2000),
                ("BASIC", "BAS", 0, 0, bytes(range(1, 251)) * 10, [41, 0, 14], 0, 0),
                ("TEXT", "TXT", 1, 0xFF, b"HELLO WORLD\r" * 300, [5, 60], 0, 0),
            ])))
        with open("bad.dsk", "wb") as handle:
            image = bytearray(build(base))
            image[seek(base[1][5][0])] = 0x42
            handle.write(bytes(image))
        with open("short.dsk", "wb") as handle:
            handle.write(bytes(build(specs_fragmented(7), size=IMAGE - 1)))
        with open("prog.asm", "w") as handle:
            handle.write("        ORG $0E00\nSTART   LDA #$01\n        LDB #$02\nLOOP    STA $0400\n        BRA LOOP\n"
                         "        FCB " + ",".join(["$%02X" % (i % 256) for i in range(60)]) + "\n        END START\n")
        with open("big.asm", "w") as handle:
            handle.write("        ORG $2000\nSTART   NOP\n" + "".join(
                "        FDB " + ",".join("$%04X" % ((i * 37 + j) % 65536) for j in range(8)) + "\n" for i in range(320))
                + "        END START\n")
        out.append(cli("file_util.py", "frag.dsk", "--list"))
        out.append(cli("file_util.py", "cross.dsk", "--list"))
        out.append(cli("file_util.py", "bad.dsk", "--list"))
        out.append(cli("file_util.py", "short.dsk", "--list"))
        out.append(cli("file_util.py", "missing.dsk", "--list"))
        out.append(cli("file_util.py", "cross.dsk", "--to_dsk", "copy.dsk"))
        out.append(cli("file_util.py", "copy.dsk", "--list"))
        out.append(cli("file_util.py", "cross.dsk", "--to_dsk", "copy.dsk"))
        out.append(cli("file_util.py", "frag.dsk", "--to_dsk", "copy.dsk", "--append"))
        out.append(cli("file_util.py", "copy.dsk", "--list"))
        out.append(cli("file_util.py", "cross.dsk", "--to_dsk", "only.dsk", "--files", "cross", "TEXT"))
        out.append(cli("file_util.py", "only.dsk", "--list"))
        out.append(cli("file_util.py", "cross.dsk", "--to_cas", "out.cas"))
        out.append(cli("file_util.py", "out.cas", "--list"))
        out.append(cli("file_util.py", "out.cas", "--to_dsk", "fromcas.dsk"))
        out.append(cli("file_util.py", "fromcas.dsk", "--list"))
        out.append(cli("file_util.py", "cross.dsk", "--to_bin", "out.bin"))
        out.append(cli("file_util.py", "only.dsk", "--to_bin", "out.bin", "--files", "CROSS"))
        out.append(cli("assembler.py", "prog.asm", "--to_dsk", "asm.dsk", "--name", "prog"))
        out.append(cli("file_util.py", "asm.dsk", "--list"))
        out.append(cli("assembler.py", "big.asm", "--to_dsk", "asm.dsk", "--name", "bigger"))
        out.append(cli("assembler.py", "big.asm", "--to_dsk", "asm.dsk", "--name", "bigger", "--append"))
        out.append(cli("assembler.py", "prog.asm", "--to_dsk", "asm.dsk", "--append", "--print", "--symbols"))
        out.append(cli("file_util.py", "asm.dsk", "--list"))
        out.append(cli("assembler.py", "big.asm", "--to_dsk", "frag2.dsk", "--name", "ontofrag"))
        shutil.copy("frag.dsk", "frag3.dsk")
        out.append(cli("assembler.py", "big.asm", "--to_dsk", "frag3.dsk", "--name", "ontofrag", "--append"))
        out.append(cli("file_util.py", "frag3.dsk", "--list"))
        out.append(snapshot())
        return out

    case("cli/all", cli_cases, seconds=600)

    os.chdir("/")
    shutil.rmtree(work, ignore_errors=True)
    sys.stdout.write(json.dumps(results, sort_keys=True, default=repr))


# --------------------------------------------------------------- parent ----

def run_tree(tree):
    env = dict(os.environ)
    env.pop("PYTHONPATH", None)
    env["PYTHONDONTWRITEBYTECODE"] = "1"
    env["PYTHONHASHSEED"] = "0"
    proc = subprocess.run([sys.executable, "-B", os.path.abspath(__file__), "--child", tree],
                          stdout=subprocess.PIPE, stderr=subprocess.PIPE, env=env)
    if proc.returncode != 0:
        sys.stderr.write(proc.stderr.decode("utf-8", "replace"))
        raise SystemExit("child for %s failed with status %d" % (tree, proc.returncode))
    return json.loads(proc.stdout.decode("utf-8"))


def main():
    if len(sys.argv) == 3 and sys.argv[1] == "--child":
        child(sys.argv[2])
        return 0
    if len(sys.argv) != 3:
        sys.stderr.write(__doc__)
        return 2
    with concurrent.futures.ThreadPoolExecutor(max_workers=2) as pool:
        left, right = pool.map(run_tree, sys.argv[1:3])
    names = sorted(set(left) | set(right))
    bad = [name for name in names if left.get(name) != right.get(name)]
    outcomes = {"ok": 0, "exc": 0, "timeout": 0}
    for name in names:
        for key in outcomes:
            if key in left.get(name, {}):
                outcomes[key] += 1
    print("%d cases compared (%d returned, %d raised, %d timed out in tree A); %d differ"
          % (len(names), outcomes["ok"], outcomes["exc"], outcomes["timeout"], len(bad)))
    for name in bad[:25]:
        print("DIFF %s\n  A: %s\n  B: %s" % (name, json.dumps(left.get(name))[:600], json.dumps(right.get(name))[:600]))
    if len(names) < 30:
        print("too few cases")
        return 1
    return 1 if bad else 0


if __name__ == "__main__":
    sys.exit(main())
