"""
Differential check for a behaviour preserving refactoring of the cassette
container code (writer, reader, --list / --to_cas front end).

usage: equiv.py <treeA> <treeB>

Each tree is exercised in its own subprocess (tree at the front of sys.path and
as cwd). Every observable result is collected into a JSON document and the two
documents are compared. Exit status 0 = identical, 1 = different.
"""
import json
import os
import subprocess
import sys
import tempfile


# --------------------------------------------------------------------- worker

def strip_traceback(text):
    """an uncaught exception prints source line numbers, which any edit moves: keep the final 'Type: message' line only"""
    if "Traceback (most recent call last)" not in text:
        return text
    head = text[:text.index("Traceback (most recent call last)")]
    lines = [line for line in text.splitlines() if line.strip()]
    return head + "<traceback> " + lines[-1]


def describe_file(coco_file):
    def val(v):
        return None if v is None else [type(v).__name__, getattr(v, "int", None), v.hex() if hasattr(v, "hex") else None]
    return {
        "name": coco_file.name,
        "extension": coco_file.extension,
        "type": val(coco_file.type),
        "data_type": val(coco_file.data_type),
        "gaps": val(coco_file.gaps),
        "load": val(coco_file.load_addr),
        "exec": val(coco_file.exec_addr),
        "data": list(coco_file.data),
        "ignore_gaps": coco_file.ignore_gaps,
        "str": str(coco_file),
    }


def outcome(function):
    try:
        return {"ok": function()}
    except BaseException as error:  # noqa
        return {"error": [type(error).__name__, str(error)]}


def pattern(length, seed):
    markers = [0x55, 0x3C, 0x00, 0x01, 0xFF, 0x55, 0x3C, 0xFF, 0x00, 0xFF, 0x55]
    out = []
    state = seed * 7919 + 17
    for index in range(length):
        state = (state * 1103515245 + 12345) & 0x7FFFFFFF
        if seed % 3 == 0:
            out.append(markers[index % len(markers)])
        elif seed % 3 == 1:
            out.append((state >> 16) & 0xFF)
        else:
            out.append(index & 0xFF)
    return out


def worker(tree):
    sys.path.insert(0, tree)
    os.chdir(tree)
    from cocoasm.virtualfiles.cassette import CassetteFile
    from cocoasm.virtualfiles.coco_file import CoCoFile
    from cocoasm.virtualfiles.virtual_file_container import VirtualFileContainer
    from cocoasm.values import NumericValue, NoneValue

    results = {}

    def make(name, ftype, dtype, load, exe, data, **extra):
        return CoCoFile(
            name=name, extension="BIN" if ftype == 2 else "BAS",
            type=NumericValue(ftype), data_type=NumericValue(dtype), gaps=NumericValue(0),
            load_addr=NumericValue(load), exec_addr=NumericValue(exe), data=data, **extra
        )

    def round_trip(files, names=None):
        cassette = CassetteFile()
        cassette.add_files(files)
        image = list(cassette.get_buffer())
        reader = CassetteFile(buffer=list(image))
        listed = reader.list_files(names) if names is not None else reader.list_files()
        return {"image": image, "files": [describe_file(f) for f in listed],
                "orig": list(reader.original_buffer) == image}

    # ---- single file round trips at the interesting lengths
    lengths = [0, 1, 2, 127, 128, 253, 254, 255, 256, 257, 509, 510, 511, 512, 764, 765, 766, 1020, 1275, 4000, 65535]
    for number, length in enumerate(lengths):
        data = pattern(length, number)
        results["single-%d" % length] = outcome(lambda: round_trip(
            [make("F%d" % length, number % 4, 0xFF if number % 2 else 0x00,
                  (number * 4099) & 0xFFFF, (0xFFFF - number * 257) & 0xFFFF, data)]))

    # ---- names
    for number, name in enumerate(["", "A", "ab", "HELLO", "EIGHTCHR", "NINECHARS", "TWELVECHARS!", "a.b", "MiXeD", "~{}|"]):
        results["name-%d" % number] = outcome(lambda: round_trip(
            [make(name, 2, 0, 0x0E00 + number, 0x0E00, pattern(10 + number, number))]))

    # ---- addresses
    for number, (load, exe) in enumerate([(0, 0), (0xFF, 0x100), (0x00FF, 0xFF00), (0xFFFF, 0xFFFF), (0x553C, 0x3C55),
                                          (0x0100, 0x00FF), (0x8000, 0x7FFF), (1, 65534)]):
        results["addr-%d" % number] = outcome(lambda: round_trip([make("ADDR", 2, 0, load, exe, pattern(33, number))]))

    # ---- lists of files
    results["multi-0"] = outcome(lambda: round_trip([]))
    results["multi-3"] = outcome(lambda: round_trip([
        make("ONE", 0, 0xFF, 0, 0, pattern(300, 0)),
        make("TWO", 1, 0xFF, 0x1234, 0x4321, pattern(255, 1)),
        make("THREE", 2, 0x00, 0x3F00, 0x3F10, pattern(510, 2)),
    ]))
    results["multi-empty-middle"] = outcome(lambda: round_trip([
        make("FIRST", 2, 0, 0x1000, 0x1000, pattern(12, 3)),
        make("EMPTY", 2, 0, 0x2000, 0x2000, []),
        make("LAST", 2, 0, 0x3000, 0x3000, pattern(256, 4)),
    ]))
    results["multi-filter"] = outcome(lambda: round_trip([
        make("AAA", 2, 0, 1, 2, pattern(5, 1)),
        make("BBBBBBBB", 2, 0, 3, 4, pattern(6, 2)),
        make("AAA", 0, 0, 5, 6, pattern(7, 0)),
    ], names=["BBBBBBBB", "AAA     "]))
    results["multi-filter-none"] = outcome(lambda: round_trip([
        make("AAA", 2, 0, 1, 2, pattern(5, 1))], names=["ZZZ"]))
    results["multi-filter-empty"] = outcome(lambda: round_trip([
        make("AAA", 2, 0, 1, 2, pattern(5, 1))], names=[]))
    results["multi-10"] = outcome(lambda: round_trip([
        make("N%d" % n, n % 4, 0xFF * (n % 2), n * 1000, n * 2000, pattern(n * 100 + 1, n)) for n in range(10)]))

    # ---- data given as bytes / bytearray / tuple, and with gaps
    for kind, convert in (("bytes", bytes), ("bytearray", bytearray), ("tuple", tuple)):
        results["datakind-" + kind] = outcome(lambda: round_trip([make("KIND", 2, 0, 0x100, 0x100, convert(pattern(600, 1)))]))

    def blocks(data, gaps):
        cassette = CassetteFile()
        cassette.append_data_blocks(data, gaps=gaps)
        return list(cassette.get_buffer())
    for length in (0, 1, 254, 255, 256, 510, 511, 700):
        for gaps in (False, True):
            results["blocks-%d-%s" % (length, gaps)] = outcome(lambda: blocks(pattern(length, length), gaps))
    results["blocks-default"] = outcome(lambda: (lambda c: (c.append_data_blocks(pattern(300, 2)), list(c.buffer))[1])(CassetteFile()))

    # ---- the individual writer primitives
    def primitive(action):
        cassette = CassetteFile()
        returned = action(cassette)
        return [returned, list(cassette.get_buffer())]
    results["prim-eof"] = outcome(lambda: primitive(lambda c: c.append_eof()))
    results["prim-leader"] = outcome(lambda: primitive(lambda c: c.append_leader()))
    results["prim-blank"] = outcome(lambda: primitive(lambda c: c.append_blank()))
    for number, name in enumerate(["", "X", "12345678", "123456789", "éè"]):
        results["prim-name-%d" % number] = outcome(lambda: primitive(lambda c: c.append_name(name)))
    results["prim-header"] = outcome(lambda: primitive(lambda c: c.append_header(make("HDR", 2, 0xFF, 0xABCD, 0x1234, [1]))))
    results["prim-header-none-values"] = outcome(lambda: primitive(lambda c: c.append_header(CoCoFile(name="NONE", data=[1]))))
    results["prim-add-file"] = outcome(lambda: primitive(lambda c: c.add_file(make("ADD", 2, 0, 0x600, 0x600, pattern(256, 5)))))

    # ---- writer errors leave the same partial buffer behind
    def failing(action):
        cassette = CassetteFile()
        try:
            action(cassette)
            status = "no error"
        except BaseException as error:  # noqa
            status = [type(error).__name__, str(error)]
        return [status, [repr(x) for x in cassette.get_buffer()]]
    results["err-name-int"] = outcome(lambda: failing(lambda c: c.add_file(make(12345, 2, 0, 0, 0, [1]))))
    results["err-name-none"] = outcome(lambda: failing(lambda c: c.add_file(make(None, 2, 0, 0, 0, [1]))))
    results["err-data-none"] = outcome(lambda: failing(lambda c: c.add_file(make("D", 2, 0, 0, 0, None))))
    results["err-data-str"] = outcome(lambda: failing(lambda c: c.add_file(make("D", 2, 0, 0, 0, "text"))))
    results["err-data-mixed"] = outcome(lambda: failing(lambda c: c.add_file(make("D", 2, 0, 0, 0, pattern(300, 1) + [None, 3]))))
    results["err-type-none"] = outcome(lambda: failing(lambda c: c.add_file(CoCoFile(name="T", type=None, data=[1]))))
    results["err-exec-none"] = outcome(lambda: failing(lambda c: c.add_file(
        CoCoFile(name="T", type=NumericValue(2), data_type=NumericValue(0), load_addr=NumericValue(0x1234), exec_addr=None, data=[1]))))
    results["err-load-none"] = outcome(lambda: failing(lambda c: c.add_file(
        CoCoFile(name="T", type=NumericValue(2), data_type=NumericValue(0), load_addr=None, exec_addr=NumericValue(1), data=[1]))))
    results["err-not-a-file"] = outcome(lambda: failing(lambda c: c.add_file("nonsense")))
    results["err-add-files-none"] = outcome(lambda: failing(lambda c: c.add_files(None)))
    results["odd-big-byte"] = outcome(lambda: failing(lambda c: c.add_file(make("BIG", 2, 0, 0, 0, [1, 300, 2]))))

    # ---- hand made tape streams
    def header(name, ftype=2, dtype=0, gaps=0, load=0x1000, exe=0x1000):
        body = [0x00, 0x0F] + [ord(c) for c in name.ljust(8)[:8]] + [ftype, dtype, gaps, load >> 8, load & 255, exe >> 8, exe & 255]
        return [0x55, 0x3C] + body + [sum(body) & 0xFF, 0x55]

    def data_block(data):
        body = [0x01, len(data)] + list(data)
        return [0x55, 0x3C] + body + [sum(body) & 0xFF, 0x55]

    eof = [0x55, 0x3C, 0xFF, 0x00, 0xFF, 0x55]

    def listing(stream, names=None):
        reader = CassetteFile(buffer=stream)
        files = reader.list_files(names) if names is not None else reader.list_files()
        return [describe_file(f) for f in files]

    streams = {
        "empty": [],
        "garbage": [1, 2, 3, 4, 5],
        "leader-only": [0x55] * 300,
        "no-leader": header("NOLEAD") + data_block([1, 2, 3]) + eof,
        "short-leader": [0x55] * 3 + header("SHORT") + [0x55] * 2 + data_block([9]) + eof,
        "long-leader": [0x55] * 1000 + header("LONG", gaps=0xFF) + [0x00] * 50 + [0x55] * 500 + data_block([9] * 255) + [0] * 7 + [0x55] * 9 + data_block([8] * 4) + eof,
        "gapped": [0x55] * 128 + header("GAPPED", ftype=0, dtype=0xFF, gaps=0xFF) + [0x55] * 128 + data_block(pattern(255, 0)) + [0x55] * 128 + data_block(pattern(255, 1)) + [0x55] * 128 + data_block(pattern(17, 2)) + [0x55] * 128 + eof,
        "two-files": [0x55] * 128 + header("FILEA", ftype=1) + data_block([1]) + eof + [0x55] * 128 + header("FILEB", ftype=3, dtype=0xFF) + data_block([2, 3]) + eof + [0x55] * 10,
        "marker-payload": header("MARKERS") + data_block([0x55, 0x3C, 0x00, 0x0F, 0x55, 0x3C, 0xFF, 0x00, 0xFF, 0x55, 0x55, 0x3C, 0x01, 0x02]) + eof,
        "zero-length-block": header("ZEROBLK") + data_block([]) + data_block([7]) + eof,
        "only-eof": header("ONLYEOF") + eof + header("AFTER") + data_block([1]) + eof,
        "missing-eof": header("NOEOF") + data_block([1, 2, 3]),
        "missing-eof-tail": header("NOEOF") + data_block([1, 2, 3]) + [0x55] * 20,
        "bad-block-type": header("BADTYPE") + [0x55, 0x3C, 0x02, 0x01, 0x09, 0x0C, 0x55] + eof,
        "header-as-data": header("HDRHDR") + header("INNER") + data_block([1]) + eof,
        "truncated-header-1": header("TRUNC")[:3],
        "truncated-header-2": header("TRUNC")[:8],
        "truncated-header-3": header("TRUNC")[:13],
        "truncated-header-4": header("TRUNC")[:16],
        "truncated-header-5": header("TRUNC")[:18],
        "truncated-header-6": header("TRUNC")[:19],
        "truncated-block-1": header("TRUNC") + [0x55, 0x3C],
        "truncated-block-2": header("TRUNC") + [0x55, 0x3C, 0x01],
        "truncated-block-3": header("TRUNC") + [0x55, 0x3C, 0x01, 0x05, 1, 2],
        "truncated-eof": header("TRUNC") + data_block([1]) + [0x55, 0x3C, 0xFF],
        "non-ascii-name": header("ABC")[:4] + [0xC3, 0xA9] + header("ABC")[6:] + data_block([1]) + eof,
        "invalid-utf8-name": header("ABC")[:4] + [0xFF] + header("ABC")[5:] + data_block([1]) + eof,
        "bytes-buffer": bytes(header("BYTES") + data_block([1]) + eof),
        "bytearray-buffer": bytearray(header("BYTES") + data_block([1]) + eof),
        "tuple-buffer": tuple(header("TUPLE") + data_block([1]) + eof),
        "weird-type-negative": header("WEIRD") + [0x55, 0x3C, -1, 0x00, 0xFF, 0x55] + data_block([1]) + eof,
        "weird-type-negative-data": header("WEIRD") + [0x55, 0x3C, -255, 0x02, 7, 8, 0, 0x55] + eof,
        "weird-type-wide": header("WEIRD") + [0x55, 0x3C, 0x1FF, 0x00, 0xFF, 0x55] + eof,
        "weird-type-huge": header("WEIRD") + [0x55, 0x3C, 70000, 0x00, 0xFF, 0x55] + eof,
        "weird-type-string": header("WEIRD") + [0x55, 0x3C, "$FF", 0x00, 0xFF, 0x55] + eof,
        "weird-type-junk": header("WEIRD") + [0x55, 0x3C, "junk", 0x00, 0xFF, 0x55] + eof,
        "weird-type-none": header("WEIRD") + [0x55, 0x3C, None, 0x00, 0xFF, 0x55] + eof,
        "weird-length-negative": header("WEIRD") + [0x55, 0x3C, 0x01, -3, 7, 8, 9, 0, 0x55] + eof,
        "weird-length-wide": header("WEIRD") + [0x55, 0x3C, 0x01, 300] + [4] * 300 + [0, 0x55] + eof,
        "weird-length-overrun": header("WEIRD") + [0x55, 0x3C, 0x01, 300] + [4] * 20,
        "weird-length-string": header("WEIRD") + [0x55, 0x3C, 0x01, "$03", 7, 8, 9, 0, 0x55] + eof,
        "weird-name-wide": header("WEIRD")[:6] + [300] + header("WEIRD")[7:] + data_block([1]) + eof,
        "weird-name-string": header("WEIRD")[:6] + ["A"] + header("WEIRD")[7:] + data_block([1]) + eof,
        "weird-payload-mixed": header("WEIRD") + [0x55, 0x3C, 0x01, 3, "x", None, 4.5, 0, 0x55] + eof,
        "eof-directly-at-end": header("ATEND") + data_block([1]) + [0x55, 0x3C, 0xFF],
        "data-checksum-missing": header("NOCHK") + data_block([1, 2])[:-2] + eof,
        "data-checksum-missing-last": header("NOCHK") + data_block([1, 2])[:-2],
        "second-file-broken": header("GOOD") + data_block([1]) + eof + header("BROKEN") + data_block([2]),
        "second-file-bad-type": header("GOOD") + data_block([1]) + eof + header("BROKEN") + [0x55, 0x3C, 0x03, 0, 3, 0x55],
    }
    for name, stream in streams.items():
        results["stream-" + name] = outcome(lambda: listing(stream))
    results["stream-filter"] = outcome(lambda: listing(list(streams["two-files"]), names=["FILEB   "]))
    results["stream-filter-stripped"] = outcome(lambda: listing(list(streams["two-files"]), names=["FILEB"]))

    # ---- reader primitives
    probe = header("PROBE") + data_block([5, 6, 7]) + eof
    for number, (sequence, start) in enumerate([([0x55, 0x3C, 0x00], 0), ([0x55, 0x3C, 0x00], 1), ([0x55, 0x3C], 1), ([0x55, 0x3C], 22),
                                                ([0x55, 0x3C], 30), ([0x55, 0x3C], 36), ([0x55, 0x3C], 37), ([0x55, 0x3C], 500),
                                                ([], 0), ([], 3), ([], 400), ([0x55], -1), ([0x55], -3), ([9, 9], 0),
                                                (probe, 0), (probe + [1], 0), ((0x55, 0x3C), 0)]):
        results["skip-%d" % number] = outcome(lambda: CassetteFile(buffer=list(probe)).skip_to_sequence(sequence, start))
    results["skip-default"] = outcome(lambda: CassetteFile(buffer=list(probe)).skip_to_sequence([0x3C]))
    for pointer in (0, 4, 30, 31, 36, 37, 40, -1, -2):
        results["word-%d" % pointer] = outcome(lambda: [CassetteFile(buffer=list(probe)).read_word(pointer).int])
        results["name-at-%d" % pointer] = outcome(lambda: list(CassetteFile(buffer=list(probe)).read_coco_file_name(pointer)))
        results["blocks-at-%d" % pointer] = outcome(lambda: list(CassetteFile(buffer=list(probe)).read_blocks(pointer)))
        results["file-at-%d" % pointer] = outcome(lambda: (lambda r: [describe_file(r[0]) if r[0] else None, r[1]])(
            CassetteFile(buffer=list(probe)).read_file(pointer)))
    results["word-empty"] = outcome(lambda: [CassetteFile().read_word(0).int])
    results["word-one"] = outcome(lambda: [CassetteFile(buffer=[1]).read_word(0).int])

    # ---- container construction
    def construct(buffer):
        container = CassetteFile(buffer=buffer)
        same = container.buffer is buffer
        return [list(container.buffer), list(container.original_buffer), same, container.original_buffer is container.buffer]
    results["ctor-none"] = outcome(lambda: construct(None))
    results["ctor-empty"] = outcome(lambda: construct([]))
    results["ctor-list"] = outcome(lambda: construct([1, 2, 3]))
    results["ctor-bytes"] = outcome(lambda: construct(b"abc"))
    results["ctor-default"] = outcome(lambda: (lambda c: [c.buffer, c.original_buffer])(CassetteFile()))
    results["ctor-base"] = outcome(lambda: (lambda c: [c.buffer, c.original_buffer, c.add_file(None), c.list_files()])(VirtualFileContainer([4])))

    # ---- histories through VirtualFile / SourceFile on real temporary files
    import hashlib as h_hashlib
    import shutil as h_shutil
    from cocoasm.virtualfiles.virtual_file import VirtualFile, VirtualFileType
    from cocoasm.virtualfiles.source_file import SourceFile, SourceFileType
    from cocoasm.virtualfiles.coco_file import CoCoFile as HCoCoFile
    from cocoasm.values import NumericValue as HNumericValue
    h_work = tempfile.mkdtemp(prefix="equiv-hist-")

    def h_digest(content):
        content = bytes(bytearray(content))
        return [len(content), h_hashlib.sha256(content).hexdigest()]

    def h_pattern(length, seed):
        out = []
        state = seed * 31337 + 5
        for index in range(length):
            state = (state * 1103515245 + 12345) & 0x7FFFFFFF
            out.append((state >> 16) & 0xFF if seed % 2 else (0x55, 0x3C, 0x00, 0xFF, 0x01)[index % 5])
        return out

    def h_file(name, kind, load, exe, length, seed, ext="BIN"):
        return HCoCoFile(name=name, extension=ext, type=HNumericValue(kind[0]), data_type=HNumericValue(kind[1]), gaps=HNumericValue(0),
                         load_addr=HNumericValue(load), exec_addr=HNumericValue(exe), data=h_pattern(length, seed))

    def h_describe(coco_file):
        def val(v):
            return None if v is None else [type(v).__name__, getattr(v, "int", None), v.hex() if hasattr(v, "hex") else None]
        data = list(coco_file.data)
        return [coco_file.name, coco_file.extension, val(coco_file.type), val(coco_file.data_type), val(coco_file.gaps),
                val(coco_file.load_addr), val(coco_file.exec_addr), len(data), h_hashlib.sha256(repr(data).encode()).hexdigest(),
                coco_file.ignore_gaps, str(coco_file)]

    def h_disk_state():
        state = {}
        for entry in sorted(os.listdir(h_work)):
            with open(os.path.join(h_work, entry), "rb") as handle:
                state[entry] = h_digest(handle.read())
        return state

    def h_step(file_name, requested_type, new_files, append, names=None):
        """one open / add / save / re-open / list round, everything observable recorded"""
        record = {}
        path = os.path.join(h_work, file_name)
        try:
            virtual_file = VirtualFile(SourceFile(path, file_type=SourceFileType.BINARY), requested_type)
            virtual_file.open_virtual_file()
            record["opened"] = [virtual_file.file_exists, str(virtual_file.virtual_file_type), [h_describe(f) for f in virtual_file.list_files()]]
            for new_file in new_files:
                virtual_file.add_coco_file(new_file)
            record["after-add"] = [h_describe(f) for f in (virtual_file.list_files(names) if names is not None else virtual_file.list_files())]
            record["saved"] = virtual_file.save_virtual_file(append_mode=append) if append is not None else virtual_file.save_virtual_file()
        except BaseException as error:  # noqa
            record["error"] = [type(error).__name__, str(error).replace(h_work, "<WORK>")]
        try:
            check = VirtualFile(SourceFile(path, file_type=SourceFileType.BINARY))
            check.open_virtual_file()
            record["reopened"] = [check.file_exists, str(check.virtual_file_type), [h_describe(f) for f in check.list_files()]]
        except BaseException as error:  # noqa
            record["reopen-error"] = [type(error).__name__, str(error).replace(h_work, "<WORK>")]
        record["disk"] = h_disk_state()
        return record

    H_ML, H_BASIC, H_ASCII, H_DATA = (2, 0), (0, 0), (0, 0xFF), (1, 0xFF)
    CAS, DSK, BIN = VirtualFileType.CASSETTE, VirtualFileType.DISK, VirtualFileType.BINARY
    h_lengths = [1, 254, 255, 256, 510, 2293, 2294, 2295, 2299, 2304, 4598, 4604, 7000, 0, 30000]
    h_kinds = [H_ML, H_BASIC, H_ASCII, H_DATA]

    # one file at a time, appended to the same image
    for label, requested in (("cas", CAS), ("dsk", DSK)):
        trace = []
        for number, length in enumerate(h_lengths):
            new_file = h_file("H%d" % number, h_kinds[number % 4] if label == "cas" else h_kinds[number % 3], 0x100 * number, 0x101 * number, length, number)
            trace.append(h_step("grow." + label, requested, [new_file], True))
        results["history-grow-" + label] = trace
    # several files per step, some steps without --append, some with nothing to add, filters
    for label, requested in (("cas", CAS), ("dsk", DSK)):
        trace = [
            h_step("multi." + label, requested, [h_file("A1", H_ML, 1, 2, 300, 1), h_file("A2", H_BASIC, 0, 0, 2304, 2)], False),
            h_step("multi." + label, requested, [h_file("B1", H_ML, 3, 4, 5000, 3)], False),
            h_step("multi." + label, requested, [h_file("B1", H_ML, 3, 4, 5000, 3), h_file("b2", H_ASCII, 0, 0, 255, 4, ext="txt")], True),
            h_step("multi." + label, requested, [], True),
            h_step("multi." + label, requested, [], None),
            h_step("multi." + label, None, [h_file("C1", H_ML, 0xFFFF, 0xFFFF, 2294, 5)], True, names=["C1", "A1"]),
            h_step("multi." + label, requested, [h_file("A1", H_ML, 9, 9, 10, 6)], True, names=[]),
        ]
        results["history-multi-" + label] = trace
    # capacity: a cassette that outgrows the size of a disk image, a disk that fills up
    trace = []
    for number in range(6):
        trace.append(h_step("huge.cas", CAS, [h_file("BIG%d" % number, H_ML, number, number, 40000 + number, number)], True))
    trace.append(h_step("huge.cas", DSK, [h_file("WRONG", H_ML, 0, 0, 10, 1)], True))
    trace.append(h_step("huge.cas", None, [h_file("AUTO", H_ML, 0, 0, 10, 1)], True))
    results["history-huge-cas"] = trace
    trace = []
    for number in range(5):
        trace.append(h_step("full.dsk", DSK, [h_file("F%d" % number, H_ML, number, number, 39000, number)], True))
    trace.append(h_step("full.dsk", DSK, [h_file("SMALL", H_ML, 7, 7, 100, 7)], True))
    trace.append(h_step("full.dsk", CAS, [h_file("WRONG", H_ML, 0, 0, 10, 1)], True))
    results["history-full-dsk"] = trace
    trace = []
    for number in range(0, 74, 8):
        trace.append(h_step("slots.dsk", DSK, [h_file("S%d" % n, h_kinds[n % 3], n, n, 1, n) for n in range(number, number + 8)], True))
    results["history-slots-dsk"] = trace
    # cassette content that looks like something else, binary targets, odd requested types
    with open(os.path.join(h_work, "exact.cas"), "wb") as handle:
        from cocoasm.virtualfiles.cassette import CassetteFile as HCassetteFile
        tape = HCassetteFile()
        tape.add_file(h_file("EXACT", H_ML, 1, 1, 500, 1))
        handle.write(bytearray(list(tape.get_buffer()) + [0x55] * (161280 - len(tape.get_buffer()))))
    with open(os.path.join(h_work, "ff.cas"), "wb") as handle:
        handle.write(bytearray(list(tape.get_buffer()) + [0xFF] * 161280))
    with open(os.path.join(h_work, "zeros.bin"), "wb") as handle:
        handle.write(bytes(400))
    with open(os.path.join(h_work, "empty.dat"), "wb") as handle:
        pass
    results["history-sniff"] = [
        h_step("exact.cas", CAS, [h_file("MORE", H_ML, 2, 2, 20, 2)], True),
        h_step("ff.cas", CAS, [h_file("MORE", H_ML, 2, 2, 20, 2)], True),
        h_step("ff.cas", None, [], None),
        h_step("zeros.bin", BIN, [h_file("ONE", H_ML, 2, 2, 20, 2)], True),
        h_step("zeros.bin", BIN, [h_file("ONE", H_ML, 2, 2, 20, 2), h_file("TWO", H_ML, 2, 2, 20, 3)], False),
        h_step("zeros.bin", CAS, [h_file("ONE", H_ML, 2, 2, 20, 2)], True),
        h_step("zeros.bin", DSK, [h_file("ONE", H_ML, 2, 2, 20, 2)], True),
        h_step("empty.dat", CAS, [h_file("ONE", H_ML, 2, 2, 20, 2)], True),
        h_step("empty.dat", DSK, [h_file("ONE", H_ML, 2, 2, 20, 2)], True),
        h_step("new.bin", BIN, [h_file("ONE", H_ML, 2, 2, 20, 2), h_file("TWO", H_ML, 2, 2, 20, 3)], False),
        h_step("new.bin", None, [h_file("ONE", H_ML, 2, 2, 20, 2)], True),
        h_step("fresh.xyz", None, [h_file("ONE", H_ML, 2, 2, 20, 2)], False),
        h_step("fresh.xyz", VirtualFileType.UNKNOWN, [h_file("ONE", H_ML, 2, 2, 20, 2)], False),
        h_step("fresh2.dsk", DSK, [HCoCoFile(name="BAD", data=None)], False),
        h_step("fresh3.cas", CAS, [HCoCoFile(name="BAD", type=None, data=[1])], False),
        h_step(os.path.join("nodir", "x.cas"), CAS, [h_file("ONE", H_ML, 2, 2, 20, 2)], False),
    ]

    # SourceFile on its own
    def h_source(action):
        try:
            return {"ok": action()}
        except BaseException as error:  # noqa
            return {"error": [type(error).__name__, str(error).replace(h_work, "<WORK>")]}
    with open(os.path.join(h_work, "text.asm"), "w") as handle:
        handle.write("START   LDA #1\n; comment\n\n        END START")
    with open(os.path.join(h_work, "all.bytes"), "wb") as handle:
        handle.write(bytes(range(256)) * 3)

    def h_read(name, **kwargs):
        source = SourceFile(os.path.join(h_work, name), **kwargs)
        before = list(source.get_buffer())
        returned = source.read_file()
        return [before, returned, source.get_file_name().replace(h_work, "<WORK>"), str(source.file_type), type(source.get_buffer()).__name__,
                [repr(x) for x in source.get_buffer()][:800]]

    def h_write(name, buffer, **kwargs):
        source = SourceFile(os.path.join(h_work, name), **kwargs)
        source.set_buffer(buffer)
        returned = source.write_file()
        exists = os.path.exists(os.path.join(h_work, name))
        return [returned, exists, h_digest(open(os.path.join(h_work, name), "rb").read()) if exists else None]
    results["source-file"] = [
        h_source(lambda: h_read("text.asm")), h_source(lambda: h_read("text.asm", file_type=SourceFileType.BINARY)),
        h_source(lambda: h_read("all.bytes", file_type=SourceFileType.BINARY)), h_source(lambda: h_read("all.bytes")),
        h_source(lambda: h_read("empty.dat", file_type=SourceFileType.BINARY)), h_source(lambda: h_read("empty.dat")),
        h_source(lambda: h_read("absent.bin", file_type=SourceFileType.BINARY)), h_source(lambda: h_read("absent.asm")),
        h_source(lambda: h_read("text.asm", file_type=None)), h_source(lambda: h_read("text.asm", file_type="BINARY")),
        h_source(lambda: h_write("w1.bin", [1, 2, 3], file_type=SourceFileType.BINARY)),
        h_source(lambda: h_write("w2.bin", [], file_type=SourceFileType.BINARY)),
        h_source(lambda: h_write("w3.bin", b"abc", file_type=SourceFileType.BINARY)),
        h_source(lambda: h_write("w4.bin", [1, 256], file_type=SourceFileType.BINARY)),
        h_source(lambda: h_write("w5.bin", [1, None], file_type=SourceFileType.BINARY)),
        h_source(lambda: h_write("w6.bin", None, file_type=SourceFileType.BINARY)),
        h_source(lambda: h_write("w7.asm", [1, 2, 3])),
        h_source(lambda: h_write("w8.bin", [1, 2, 3], file_type=None)),
        h_source(lambda: h_write(os.path.join("nodir", "w9.bin"), [1], file_type=SourceFileType.BINARY)),
        h_source(lambda: [list(SourceFile.read_binary_contents(os.path.join(h_work, "all.bytes")))[250:262], SourceFile.read_assembly_contents(os.path.join(h_work, "text.asm"))]),
        h_source(lambda: [SourceFile().get_file_name(), SourceFile().get_buffer(), str(SourceFile().file_type)]),
        h_source(lambda: SourceFile().read_file()), h_source(lambda: SourceFile(file_type=SourceFileType.BINARY).read_file()),
        h_source(lambda: SourceFile(file_type=SourceFileType.BINARY).write_file()),
    ]
    results["source-file-disk"] = h_disk_state()

    # VirtualFile without any file
    def h_virtual(action):
        try:
            return {"ok": action()}
        except BaseException as error:  # noqa
            return {"error": [type(error).__name__, str(error).replace(h_work, "<WORK>")]}
    results["virtual-file-misc"] = [
        h_virtual(lambda: (lambda v: [v.source_file, v.virtual_file_type, v.coco_file_list, v.file_exists, v.list_files(), v.list_files(["A"]), v.delete_coco_file("A")])(VirtualFile())),
        h_virtual(lambda: VirtualFile().open_virtual_file()), h_virtual(lambda: VirtualFile().save_virtual_file()),
        h_virtual(lambda: VirtualFile(virtual_file_type=CAS).save_virtual_file()), h_virtual(lambda: VirtualFile(virtual_file_type=DSK).save_virtual_file(True)),
        h_virtual(lambda: VirtualFile().get_coco_files()),
        h_virtual(lambda: (lambda r: [[h_describe(f) for f in r[0]], str(r[1])])(VirtualFile(SourceFile()).get_coco_files())),
        h_virtual(lambda: (lambda v: (v.add_coco_file(1), v.add_coco_file(None), v.coco_file_list)[2])(VirtualFile())),
        h_virtual(lambda: (lambda v: (v.add_coco_file(h_file("N1", H_ML, 1, 1, 1, 1)), v.add_coco_file(h_file("N2", H_ML, 1, 1, 1, 1)),
                                      [[f.name for f in v.list_files(n)] for n in (None, [], ["N2"], ["N2", "N1"], "N1", ("n1",))])[2])(VirtualFile())),
    ]
    h_shutil.rmtree(h_work, ignore_errors=True)


    # ---- the overwrite matrix: tool x option x append x kind of pre-existing target
    import hashlib as m_hashlib
    import shutil as m_shutil
    from cocoasm.virtualfiles.cassette import CassetteFile as MCassetteFile
    from cocoasm.virtualfiles.disk import DiskFile as MDiskFile
    from cocoasm.virtualfiles.coco_file import CoCoFile as MCoCoFile
    from cocoasm.values import NumericValue as MNumericValue

    def m_file(name, length, seed):
        return MCoCoFile(name=name, extension="BIN", type=MNumericValue(2), data_type=MNumericValue(0), gaps=MNumericValue(0),
                         load_addr=MNumericValue(0x2000 + seed), exec_addr=MNumericValue(0x2001 + seed),
                         data=[(index * 5 + seed) & 0xFF for index in range(length)])
    m_tape = MCassetteFile()
    m_tape.add_files([m_file("OLDONE", 300, 1), m_file("OLDTWO", 10, 2)])
    m_big_tape = MCassetteFile()
    m_big_tape.add_files([m_file("BIG%d" % n, 40000, n) for n in range(5)])
    m_disk = MDiskFile()
    m_disk.add_files([m_file("DSKONE", 3000, 3), m_file("DSKTWO", 5, 4)])
    m_single_tape = MCassetteFile()
    m_single_tape.add_files([m_file("SOLO", 40, 5)])
    m_kinds = {
        "absent": None,
        "empty": [],
        "cassette": list(m_tape.get_buffer()),
        "disk": list(m_disk.get_buffer()),
        "raw-binary": [0x86, 0x01, 0xB7, 0x04, 0x00, 0x39] * 20,
        "arbitrary": [(n * 37 + 11) & 0xFF for n in range(5000)],
        "text": [ord(c) for c in "hello world\n"] * 10,
        "big-cassette": list(m_big_tape.get_buffer()),
        "disk-sized-ff": [0xFF] * 161280,
        "directory": "DIR",
    }
    m_asm = "        NAM MATRIX\n        ORG $0E00\nSTART   LDA #$01\n        STA $0400\n        FCB $55,$3C,$00,$FF\n        RMB 300\n        RTS\n        END START\n"
    m_asm_noname = "        ORG $0E00\nSTART   LDA #$01\n        RTS\n        END START\n"

    def m_snapshot(directory):
        state = {}
        for entry in sorted(os.listdir(directory)):
            path = os.path.join(directory, entry)
            if os.path.isdir(path):
                state[entry] = "directory"
                continue
            with open(path, "rb") as handle:
                content = handle.read()
            state[entry] = [len(content), m_hashlib.sha256(content).hexdigest()]
        return state

    def m_stamp(path):
        if not os.path.exists(path):
            return None
        info = os.stat(path)
        return [info.st_mtime_ns, info.st_ino, info.st_size]

    def m_run(directory, tool, arguments):
        target_stamps = {entry: m_stamp(os.path.join(directory, entry)) for entry in os.listdir(directory)}
        done = subprocess.run([sys.executable, os.path.join(tree, tool)] + arguments, cwd=directory, capture_output=True, text=True)
        touched = sorted(entry for entry in os.listdir(directory) if target_stamps.get(entry) != m_stamp(os.path.join(directory, entry)))
        return {"rc": done.returncode, "out": done.stdout.replace(tree, "<TREE>"), "err": strip_traceback(done.stderr.replace(tree, "<TREE>")),
                "touched": touched, "files": m_snapshot(directory)}

    def m_prepare(kind):
        directory = tempfile.mkdtemp(prefix="equiv-matrix-")
        with open(os.path.join(directory, "prog.asm"), "w") as handle:
            handle.write(m_asm)
        with open(os.path.join(directory, "noname.asm"), "w") as handle:
            handle.write(m_asm_noname)
        with open(os.path.join(directory, "source.cas"), "wb") as handle:
            handle.write(bytearray(m_tape.get_buffer()))
        with open(os.path.join(directory, "solo.cas"), "wb") as handle:
            handle.write(bytearray(m_single_tape.get_buffer()))
        with open(os.path.join(directory, "source.dsk"), "wb") as handle:
            handle.write(bytearray(m_disk.get_buffer()))
        content = m_kinds[kind]
        if content == "DIR":
            os.mkdir(os.path.join(directory, "target"))
        elif content is not None:
            with open(os.path.join(directory, "target"), "wb") as handle:
                handle.write(bytearray(content))
        return directory

    for kind in m_kinds:
        for option in ("--to_bin", "--to_cas", "--to_dsk"):
            for append in (False, True):
                flags = ["--append"] if append else []
                label = "%s%s-%s" % (option[2:], "-append" if append else "", kind)
                directory = m_prepare(kind)
                repeat = kind in ("absent", "empty", "cassette", "disk")
                runs = [m_run(directory, "assembler.py", ["prog.asm", option, "target"] + flags)]
                if repeat:
                    runs.append(m_run(directory, "assembler.py", ["prog.asm", option, "target"] + flags))
                    runs.append(m_run(directory, "file_util.py", ["target", "--list"]))
                results["matrix-asm-" + label] = runs
                m_shutil.rmtree(directory, ignore_errors=True)
                for source in ("solo.cas", "source.cas", "source.dsk"):
                    if source != "solo.cas" and not repeat:
                        continue
                    directory = m_prepare(kind)
                    runs = [m_run(directory, "file_util.py", [source, option, "target"] + flags)]
                    if repeat:
                        runs.append(m_run(directory, "file_util.py", [source, option, "target"] + flags))
                        runs.append(m_run(directory, "file_util.py", ["target", "--list"]))
                    results["matrix-util-%s-%s" % (source, label)] = runs
                    m_shutil.rmtree(directory, ignore_errors=True)

    # sequences of invocations on one directory, plus the odd command lines
    directory = m_prepare("absent")
    sequence = [
        ("assembler.py", ["prog.asm", "--to_cas", "a.cas"]), ("assembler.py", ["prog.asm", "--to_cas", "a.cas"]),
        ("assembler.py", ["prog.asm", "--to_cas", "a.cas", "--append"]), ("assembler.py", ["prog.asm", "--to_dsk", "a.cas", "--append"]),
        ("assembler.py", ["prog.asm", "--to_bin", "a.cas", "--append"]), ("file_util.py", ["a.cas", "--list"]),
        ("assembler.py", ["prog.asm", "--to_dsk", "a.dsk"]), ("assembler.py", ["prog.asm", "--to_dsk", "a.dsk"]),
        ("assembler.py", ["prog.asm", "--to_dsk", "a.dsk", "--append"]), ("assembler.py", ["prog.asm", "--to_cas", "a.dsk", "--append"]),
        ("file_util.py", ["a.dsk", "--list"]), ("file_util.py", ["a.dsk", "--to_cas", "a.cas"]), ("file_util.py", ["a.dsk", "--to_cas", "a.cas", "--append"]),
        ("file_util.py", ["a.cas", "--to_dsk", "a.dsk", "--append", "--files", "matrix"]), ("file_util.py", ["a.cas", "--to_dsk", "a.cas", "--append"]),
        ("file_util.py", ["a.cas", "--to_cas", "a.cas", "--append"]), ("file_util.py", ["a.cas", "--list"]),
        ("assembler.py", ["prog.asm", "--to_bin", "a.bin"]), ("assembler.py", ["prog.asm", "--to_bin", "a.bin"]), ("assembler.py", ["prog.asm", "--to_bin", "a.bin", "--append"]),
        ("assembler.py", ["noname.asm", "--to_bin", "n.bin", "--to_cas", "n.cas", "--to_dsk", "n.dsk"]),
        ("assembler.py", ["noname.asm", "--to_dsk", "n.dsk", "--to_bin", "n2.bin"]),
        ("assembler.py", ["noname.asm", "--name", "given", "--to_bin", "n.bin", "--to_cas", "n.cas", "--to_dsk", "n.dsk"]),
        ("assembler.py", ["prog.asm", "--to_bin", "t.bin", "--to_cas", "a.cas", "--to_dsk", "t.dsk"]),
        ("assembler.py", ["prog.asm", "--to_bin", "t.bin", "--to_cas", "a.cas", "--to_dsk", "t.dsk", "--append"]),
        ("assembler.py", ["prog.asm", "--to_cas", os.path.join("nodir", "x.cas")]), ("assembler.py", ["prog.asm", "--to_dsk", "."]),
        ("assembler.py", ["prog.asm", "--to_bin", ""]), ("assembler.py", ["prog.asm"]), ("assembler.py", ["prog.asm", "--symbols", "--print"]),
        ("file_util.py", ["source.cas", "--to_cas", "t.cas", "--to_dsk", "t2.dsk", "--to_bin", "t2.bin"]),
        ("file_util.py", ["solo.cas", "--to_cas", "t.cas", "--to_dsk", "t2.dsk", "--to_bin", "t2.bin"]),
        ("file_util.py", ["solo.cas", "--to_cas", "t.cas", "--to_dsk", "t2.dsk", "--to_bin", "t2.bin", "--append"]),
        ("file_util.py", ["solo.cas", "--to_bin", "t3.bin", "--files", "other"]), ("file_util.py", ["solo.cas", "--to_bin", "t4.bin", "--files", "solo", "x"]),
        ("file_util.py", ["prog.asm", "--to_bin", "t5.bin"]), ("file_util.py", ["prog.asm", "--to_cas", "t5.cas"]), ("file_util.py", ["absent.cas", "--to_cas", "t6.cas"]),
        ("file_util.py", ["source.cas", "--to_cas", os.path.join("nodir", "x.cas")]), ("file_util.py", ["source.cas", "--list", "--to_cas", "t7.cas"]),
        ("file_util.py", ["source.cas"]), ("file_util.py", []), ("assembler.py", []),
    ]
    results["matrix-sequence"] = [m_run(directory, tool, arguments) for tool, arguments in sequence]
    m_shutil.rmtree(directory, ignore_errors=True)

    # ---- the command line front end
    work = tempfile.mkdtemp(prefix="equiv-c10-")

    def run_tool(arguments):
        done = subprocess.run([sys.executable, os.path.join(tree, "file_util.py")] + arguments,
                              cwd=work, capture_output=True, text=True)
        produced = {}
        for entry in sorted(os.listdir(work)):
            with open(os.path.join(work, entry), "rb") as handle:
                content = handle.read()
                produced[entry] = [len(content), __import__("hashlib").sha256(content).hexdigest()]
        return {"rc": done.returncode, "out": done.stdout.replace(tree, "<TREE>"),
                "err": strip_traceback(done.stderr.replace(tree, "<TREE>")), "files": produced}

    def write_image(name, content):
        with open(os.path.join(work, name), "wb") as handle:
            handle.write(bytearray(content))

    tape = CassetteFile()
    tape.add_files([
        make("ALPHA", 2, 0, 0x0E00, 0x0E10, pattern(700, 1)),
        make("beta", 0, 0xFF, 0, 0, pattern(255, 0)),
        make("GAMMAGAMMA", 1, 0xFF, 0x1234, 0x5678, pattern(3, 2)),
    ])
    write_image("three.cas", tape.get_buffer())
    write_image("gapped.cas", streams["gapped"])
    write_image("broken.cas", streams["missing-eof"])
    write_image("badtype.cas", streams["bad-block-type"])
    write_image("empty.cas", [])
    write_image("single.cas", streams["no-leader"])
    cli = [
        ["three.cas", "--list"],
        ["gapped.cas", "--list"],
        ["broken.cas", "--list"],
        ["badtype.cas", "--list"],
        ["empty.cas", "--list"],
        ["missing.cas", "--list"],
        ["three.cas"],
        ["three.cas", "--to_cas", "copy.cas"],
        ["three.cas", "--to_cas", "copy.cas"],
        ["three.cas", "--to_cas", "copy.cas", "--append"],
        ["copy.cas", "--list"],
        ["three.cas", "--to_cas", "some.cas", "--files", "alpha", "GAMMAGAM"],
        ["some.cas", "--list"],
        ["three.cas", "--to_cas", "none.cas", "--files", "nothing"],
        ["none.cas", "--list"],
        ["gapped.cas", "--to_cas", "regapped.cas"],
        ["regapped.cas", "--list"],
        ["three.cas", "--to_bin", "three.bin"],
        ["single.cas", "--to_bin", "single.bin"],
        ["single.cas", "--to_bin", "single.bin"],
        ["single.cas", "--to_bin", "single.bin", "--append"],
        ["empty.cas", "--to_bin", "empty.bin"],
        ["single.cas", "--to_bin", "other.bin", "--files", "nolead"],
        ["single.cas", "--to_bin", "skipped.bin", "--files", "zzz"],
        ["three.cas", "--to_dsk", "three.dsk"],
        ["three.dsk", "--list"],
        ["three.dsk", "--to_cas", "fromdisk.cas"],
        ["fromdisk.cas", "--list"],
        ["three.cas", "--to_dsk", "three.dsk"],
        ["three.cas", "--to_dsk", "three.dsk", "--append"],
        ["three.dsk", "--list"],
        ["three.cas", "--to_dsk", "three.cas", "--append"],
        ["three.cas", "--to_cas", "both.cas", "--to_dsk", "both.dsk", "--to_bin", "both.bin"],
        ["single.cas", "--to_cas", "all.cas", "--to_dsk", "all.dsk", "--to_bin", "all.bin", "--list"],
        ["single.cas", "--to_cas", "all.cas", "--to_dsk", "all.dsk", "--to_bin", "all.bin"],
        ["all.dsk", "--to_cas", "three.dsk"],
    ]
    for number, arguments in enumerate(cli):
        results["cli-%02d" % number] = run_tool(arguments)


    def run_assembler(arguments):
        done = subprocess.run([sys.executable, os.path.join(tree, "assembler.py")] + arguments, cwd=work, capture_output=True, text=True)
        produced = {}
        for entry in sorted(os.listdir(work)):
            with open(os.path.join(work, entry), "rb") as handle:
                content = handle.read()
                produced[entry] = [len(content), __import__("hashlib").sha256(content).hexdigest()]
        return {"rc": done.returncode, "out": done.stdout.replace(tree, "<TREE>"), "err": strip_traceback(done.stderr.replace(tree, "<TREE>")), "files": produced}
    with open(os.path.join(work, "prog.asm"), "w") as handle:
        handle.write("        NAM HELLO\n        ORG $0E00\nSTART   LDA #$01\n        STA $0400\nDATA    FCB 1,2,3,4\n        RMB 3000\n        FDB START\n        END START\n")
    with open(os.path.join(work, "other.asm"), "w") as handle:
        handle.write("        NAM OTHER\n        ORG $2000\nBEGIN   LDX #$1234\n        FCB $55,$3C,$00,$FF,$01\n        RMB 600\n        RTS\n        END BEGIN\n")
    with open(os.path.join(work, "noname.asm"), "w") as handle:
        handle.write("        ORG $3F00\n        LDX #$1234\n        RTS\n")
    asm = [
        ["prog.asm", "--to_dsk", "asm.dsk"], ["prog.asm", "--to_dsk", "asm.dsk"], ["other.asm", "--to_dsk", "asm.dsk", "--append"],
        ["noname.asm", "--to_dsk", "asm.dsk", "--append"], ["noname.asm", "--to_dsk", "asm.dsk", "--append", "--name", "second"],
        ["prog.asm", "--to_cas", "asm.cas"], ["prog.asm", "--to_cas", "asm.cas"], ["other.asm", "--to_cas", "asm.cas", "--append"],
        ["noname.asm", "--to_cas", "asm.cas", "--append"], ["noname.asm", "--to_cas", "asm.cas", "--append", "--name", "third"],
        ["prog.asm", "--to_bin", "asm.bin"], ["prog.asm", "--to_bin", "asm.bin"], ["other.asm", "--to_bin", "asm.bin", "--append"],
        ["prog.asm", "--to_cas", "asm.dsk", "--append"], ["prog.asm", "--to_dsk", "asm.cas", "--append"], ["prog.asm", "--to_dsk", "asm.bin", "--append"],
        ["other.asm", "--to_bin", "all.bin", "--to_cas", "all.cas", "--to_dsk", "all.dsk"],
        ["prog.asm", "--to_bin", "all.bin", "--to_cas", "all.cas", "--to_dsk", "all.dsk", "--append", "--symbols", "--print"],
        ["missing.asm", "--to_cas", "never.cas"],
    ]
    for number, arguments in enumerate(asm):
        results["asm-%02d" % number] = run_assembler(arguments)
    for number, name in enumerate(["asm.dsk", "asm.cas", "asm.bin", "all.dsk", "all.cas", "all.bin"]):
        results["asm-list-%d" % number] = run_tool([name, "--list"])

    import shutil
    shutil.rmtree(work, ignore_errors=True)
    json.dump(results, sys.stdout, default=repr)


# --------------------------------------------------------------------- driver

def main():
    if len(sys.argv) == 3 and sys.argv[1] == "--worker":
        worker(sys.argv[2])
        return 0
    if len(sys.argv) != 3:
        print(__doc__)
        return 2
    documents = []
    for tree in sys.argv[1:3]:
        tree = os.path.abspath(tree)
        environment = dict(os.environ, PYTHONDONTWRITEBYTECODE="1", PYTHONHASHSEED="0")
        done = subprocess.run([sys.executable, os.path.abspath(__file__), "--worker", tree],
                              cwd=tree, capture_output=True, text=True, env=environment)
        if done.returncode != 0:
            print("worker failed for", tree)
            print(done.stderr)
            return 1
        documents.append(json.loads(done.stdout))
    first, second = documents
    different = [key for key in sorted(set(first) | set(second)) if first.get(key) != second.get(key)]
    errors = sum(1 for value in first.values() if isinstance(value, dict) and "error" in value)
    print("%d cases compared (%d of them raise), %d differ" % (len(first), errors, len(different)))
    for key in different:
        print("DIFFERENT:", key)
        print("   A:", json.dumps(first.get(key))[:400])
        print("   B:", json.dumps(second.get(key))[:400])
    return 1 if different else 0


if __name__ == "__main__":
    sys.exit(main())
