#!/usr/bin/env python
"""
Differential check for property C12 (no accepted statement yields a malformed
or silently truncated instruction).

usage: equiv.py <treeA> <treeB>

Each tree is exercised in its own subprocess (tree at the front of sys.path,
tree as cwd). The worker assembles every mnemonic of the instruction table
against a corpus of operand strings (valid, out of range, wrong register,
wrong mode, mutated and pseudo-random), a set of multi-line programs, a set
of direct Value/Operand constructor probes and some assembler.py command
lines, and records every observable: emitted bytes, listing lines, symbol
table, origin, name, exception type and message. The driver compares the two
records and exits 0 when they are identical, 1 otherwise.
"""
import contextlib
import hashlib
import importlib.util
import io
import json
import os
import random
import subprocess
import sys
import tempfile
import traceback

OPERANDS = [
    "", "#0", "#1", "#$01", "#$FF", "#255", "#256", "#$100", "#$1234", "#$FFFF", "#65535", "#65536", "#70000",
    "#$12345", "#-1", "#-128", "#-129", "#-32768", "#-32769", "#%1", "#%11111111", "#%111111111",
    "#%1111111111111111", "#'A", "#'", "#", "#$", "#LABEL", "#LABEL+1", "#<$12", "#>$12",
    "0", "1", "$0", "$00", "$12", "$FF", "$100", "$0012", "$1234", "$FFFF", "$12345", "255", "256", "65535",
    "65536", "70000", "-1", "-128", "-32768", "-32769", "%10101010", "%101", "%1010101010101010", "'A", "'",
    "<$12", "<$1234", "<0", "<256", "<LABEL", ">$12", ">$1234", ">0", ">LABEL", "<", ">", "<<$12", "<>$12",
    "[$12]", "[$1234]", "[$12345]", "[0]", "[70000]", "[LABEL]", "[LABEL+1]", "[]", "[", "]", "[$12", "$12]",
    "[[$12]]", "[#1]", "[<$12]",
    ",X", ",Y", ",U", ",S", ",Z", ",PC", ",PCR", ",A", ",D", ",X+", ",X++", ",-X", ",--X", ",X-", ",X--",
    ",+X", ",++X", ",X+++", ",---X", ",Y+", ",U++", ",-S", ",--Y", ",-X+", ",XY", ",SU", ",x",
    "0,X", "1,X", "5,Z", "15,X", "16,X", "17,Y", "-1,X", "-16,X", "-17,U", "127,S", "128,X", "-128,X", "-129,X",
    "255,X", "256,X", "32767,X", "32768,Y", "65535,X", "65536,X", "70000,X", "-32768,X", "-32769,X",
    "$0,X", "$00,X", "$F,X", "$10,X", "$7F,Y", "$80,U", "$FF,S", "$100,X", "$1234,X", "$FFFF,Y", "$12345,X",
    "%1,X", "%00000001,X", "'A,X", "A,X", "B,Y", "D,U", "A,S", "E,X", "X,X", "CC,X", "A,Z", "A,PC", "A,PCR",
    "A,X+", "D,-X", "1,X+", "1,-X", "1,X++", "$10,--Y", "LABEL,X", "LABEL+1,X", "LABEL,X+", "<$12,X", ">$12,X",
    "1,PC", "1,PCR", "$10,PCR", "$1234,PCR", "-1,PCR", "128,PCR", "LABEL,PCR", "LABEL+1,PCR", "LABEL,PC",
    "[,X]", "[,Y]", "[,U]", "[,S]", "[,Z]", "[,X+]", "[,X++]", "[,-X]", "[,--X]", "[,Y+]", "[,-S]", "[,PCR]",
    "[0,X]", "[1,X]", "[15,X]", "[16,X]", "[-1,X]", "[-16,Y]", "[-17,Y]", "[127,U]", "[128,S]", "[-128,X]",
    "[-129,X]", "[255,X]", "[256,X]", "[65535,X]", "[65536,X]", "[-32768,X]", "[$10,X]", "[$1234,Y]",
    "[$12345,Y]", "[A,X]", "[B,Y]", "[D,U]", "[E,X]", "[A,Z]", "[A,X+]", "[1,X+]", "[1,--X]", "[LABEL,X]",
    "[LABEL+1,X]", "[1,PCR]", "[$1234,PCR]", "[LABEL,PCR]", "[LABEL+1,PCR]", "[-1,PCR]", "[1,PC]", "[5,Z]",
    "[,X", ",X]", "[1,2,X]", "1,2,X", "1,,X", ",,X", "1,", ",", ",,",
    "A", "B", "D", "X", "Y", "U", "S", "PC", "CC", "DP", "Z", "a", "A,B", "B,A", "A,X ", "X,Y", "D,X", "X,D",
    "A,D", "A,CC", "CC,DP", "DP,A", "PC,S", "S,PC", "U,S", "A,A", "X,X", "PC,PC", "A,Z", "Z,A", "A,B,X", "A,",
    ",A", "X,Y,U", "A,B,D,X,Y,U,S,PC,CC,DP", "A,B,X,Y,U,PC,CC,DP", "A,B,X,Y,S,PC,CC,DP", "CC,A,B,DP,X,Y,U,PC",
    "CC,A,B,DP,X,Y,S,PC", "D,A", "A,A,A", "PC,U,Y,X,DP,B,A,CC", "X,", ",X,", "x,y", "A B", "A;B",
    "LABEL", "LABEL+1", "LABEL-1", "LABEL*2", "LABEL/2", "LABEL+LABEL", "1+1", "$10+$10", "LABEL+", "+1",
    "UNDEFINED", "UNDEFINED+1", "@LOCAL", "LAB_EL", "LABEL+70000", "$FFFF+1", "0-1", "1/0", "LABEL/0",
    "\"A\"", "\"AB\"", "\"ABC", "/ABC/", "'ABC'", "\"\"", "\"", "1,2,3", "$1,$2", "1,256", "$1234,$5678", "1,$12345",
    "1,70000", "1,,2", "1,LABEL", "LABEL,LABEL", "1,-1", "#1,#2", "*", "*+2", "$", "%", "%2", "$G", "1A", "A1",
]


def random_operands(count):
    rng = random.Random(0xC12)
    alphabet = "0123456789ABDXYUSPCRZ$#<>[],+-%'*/"
    result = []
    for _ in range(count):
        length = rng.randint(1, 8)
        result.append("".join(rng.choice(alphabet) for _ in range(length)))
    # single-character mutations of good operands
    good = ["#$12", "$1234", "<$12", "[$1234]", "5,X", ",X++", "[A,Y]", "LABEL,PCR", "A,B", "X,Y,U", "[$10,PCR]"]
    for text in good:
        for _ in range(6):
            position = rng.randrange(len(text))
            choice = rng.choice(("delete", "insert", "replace"))
            if choice == "delete":
                result.append(text[:position] + text[position + 1:])
            elif choice == "insert":
                result.append(text[:position] + rng.choice(alphabet) + text[position:])
            else:
                result.append(text[:position] + rng.choice(alphabet) + text[position + 1:])
    return result


PROGRAMS = {
    "pcr_near_far": ["START   LEAX  NEAR,PCR", "        LDA   FAR,PCR", "NEAR    NOP"] + ["        FDB   $0000"] * 80 +
                    ["FAR     LDB   [START,PCR]", "        LEAY  [FAR,PCR]", "        RTS"],
    "branches": ["START   BRA   NEXT", "        LBRA  NEXT", "NEXT    BNE   START", "        LBSR  START",
                 "        BSR   NEXT", "        LBEQ  NEXT"],
    "branch_too_far": ["START   BRA   FAR"] + ["        FDB   $0000"] * 70 + ["FAR     RTS"],
    "branch_back_far": ["START   NOP"] + ["        FDB   $0000"] * 70 + ["        BRA   START"],
    "branch_numeric": ["        BRA   $10", "        LBRA  $1234", "        BRA   1"],
    "symbols": ["LOW     EQU   $10", "HIGH    EQU   $1234", "NEG     EQU   -1", "START   LDA   LOW", "        LDA   HIGH",
                "        LDA   #LOW", "        LDX   #HIGH", "        LDA   #HIGH", "        LDA   <HIGH", "        LDA   >LOW",
                "        LDA   LOW,X", "        LDA   HIGH,X", "        LDA   [LOW]", "        LDA   [HIGH,Y]",
                "        LDA   LOW+1", "        LDX   #HIGH+1", "        LDA   START", "        LDA   START+2",
                "        LDA   NEG,X", "        JMP   START", "        JSR   [START]"],
    "imm_symbol_wide": ["HIGH    EQU   $1234", "        LDA   #HIGH"],
    "direct_symbol_wide": ["HIGH    EQU   $1234", "        LDA   <HIGH"],
    "fcb_wide": ["        FCB   $1234"],
    "fcb_list_wide": ["        FCB   1,$1234"],
    "fdb_list": ["        FDB   1,$1234,65535"],
    "fdb_list_wide": ["        FDB   1,70000"],
    "rmb": ["        RMB   0", "        RMB   1", "        RMB   300", "        FCB   1"],
    "rmb_neg": ["        RMB   -1"],
    "org_nam": ["        NAM   TEST", "        ORG   $0E00", "START   LDA   #1", "        END   START"],
    "setdp": ["        SETDP $10", "        LDA   $1010", "        LDA   $10"],
    "stack_all": ["        PSHS  A,B,X,Y,U,PC,CC,DP", "        PULU  A,B,X,Y,S,PC,CC,DP", "        PSHS  D", "        PULS  PC"],
    "tfr_all": ["        TFR   {},{}".format(a, b) for a in ("A", "B", "CC", "DP") for b in ("A", "B", "CC", "DP")] +
               ["        EXG   {},{}".format(a, b) for a in ("D", "X", "Y", "U", "S", "PC") for b in ("D", "X", "Y", "U", "S", "PC")],
    "indexed_sweep": ["        LDA   {},{}".format(n, r) for n in (-32768, -129, -128, -17, -16, -1, 0, 1, 15, 16, 127, 128, 255, 256, 32767, 65535)
                      for r in ("X", "Y", "U", "S")],
    "indirect_sweep": ["        LDA   [{},{}]".format(n, r) for n in (-32768, -129, -128, -17, -16, -1, 0, 1, 15, 16, 127, 128, 255, 256, 32767, 65535)
                       for r in ("X", "Y", "U", "S")],
    "label_redefined": ["A1      NOP", "A1      NOP"],
    "label_is_register": ["X       EQU   5", "        LDA   X", "        LDA   1,X"],
}

CLI = [
    ("ok", ["START   LDA   #$01", "        STA   <$10", "        LDX   #$1234", "        LDA   5,X", "        RTS"], ["--print", "--symbols"]),
    ("imm_wide", ["        LDA   #$1234"], ["--print", "--symbols"]),
    ("bad_reg", ["        LDA   5,Z"], ["--print"]),
    ("sta_imm", ["        STA   #1"], ["--print"]),
    ("leax_ext", ["        LEAX  $10"], ["--print", "--symbols", "--to_bin", "out.bin"]),
    ("tfr_size", ["        TFR   A,X"], ["--print"]),
    ("pshs_s", ["        PSHS  S"], ["--print"]),
    ("w60", ["START   LDA   [$1234,X]", "        LBRA  START"], ["--print", "--symbols", "--width", "60", "--to_bin", "out.bin"]),
]


def load_module(tree, name):
    spec = importlib.util.spec_from_file_location("tool_" + name, os.path.join(tree, name + ".py"))
    module = importlib.util.module_from_spec(spec)
    spec.loader.exec_module(module)
    return module


def worker(tree):
    sys.path.insert(0, tree)
    from cocoasm.program import Program
    from cocoasm.instruction import INSTRUCTIONS
    from cocoasm import values, operands
    from cocoasm.statement import Statement

    results = {}

    def describe_error(error):
        return {"error": [type(error).__name__, str(error), str(getattr(error, "value", None)),
                          str(getattr(error, "statement", None))]}

    def assemble(lines):
        program = Program()
        try:
            program.process([line + "\n" for line in lines])
            binary = program.get_binary_array()
            return {
                "bytes": binary,
                "listing": [str(x) for x in program.get_statements()],
                "symbols": [str(x) for x in program.get_symbol_table()],
                "origin": [type(program.origin).__name__, program.origin.hex()],
                "name": program.name,
                "packages": [[type(s.operand).__name__, s.code_pkg.size, s.code_pkg.max_size,
                              s.code_pkg.op_code.hex(), s.code_pkg.post_byte.hex(), s.code_pkg.additional.hex(),
                              s.code_pkg.address.hex(), s.code_pkg.post_byte_choices,
                              s.code_pkg.additional_needs_resolution]
                             for s in program.statements],
            }
        except Exception as error:
            return describe_error(error)

    mnemonics = [instruction.mnemonic for instruction in INSTRUCTIONS]
    corpus = OPERANDS + random_operands(120)
    for mnemonic in mnemonics:
        record = {}
        for operand in corpus:
            lines = ["LABEL   EQU   $20", "ZERO    NOP", "        {:<5} {}".format(mnemonic, operand), "TAIL    NOP"]
            record[operand] = assemble(lines)
        # the digest keeps the JSON small; the first differing operands are kept in clear text
        results["mnemonic:" + mnemonic] = record

    for name, lines in PROGRAMS.items():
        results["program:" + name] = assemble(lines)

    # ---- direct probes of the Value / Operand layer
    def probe(label, func):
        try:
            results[label] = repr(func())
        except Exception as error:
            results[label] = ["raised", type(error).__name__, str(error)]

    numeric_inputs = [0, 1, 15, 16, 17, 127, 128, 129, 255, 256, 4095, 4096, 32767, 32768, 65535, 65536, 100000,
                      -1, -16, -17, -128, -129, -32768, -32769, True, None, 1.5,
                      "0", "7", "15", "16", "255", "256", "65535", "65536", "99999", "007", "0255", "000256",
                      "-0", "-1", "-128", "-129", "-32768", "-32769", "-99999", "--1", "-", "+1",
                      "$0", "$7", "$F", "$10", "$FF", "$0FF", "$100", "$FFF", "$1000", "$FFFF", "$0FFFF", "$10000",
                      "$ff", "$aB", "$", "$G", "$-1",
                      "%0", "%1", "%0000000", "%00000000", "%11111111", "%000000000", "%111111111111111",
                      "%1111111111111111", "%11111111111111111", "%", "%2", "%00000002",
                      "'A", "'z", "'0", "' ", "''", "'$", "'", "'AB", "A", "", " ", "1 ", " 1", "1,2", "0x10", "1e3"]
    modes = list(values.ExplicitAddressingMode)
    for number in numeric_inputs:
        for hint in ("default", None, 2, 4, 0, 6):
            for mode in modes:
                def build(number=number, hint=hint, mode=mode):
                    if hint == "default":
                        value = values.NumericValue(number, mode=mode)
                    else:
                        value = values.NumericValue(number, size_hint=hint, mode=mode)
                    return [value.int, value.negative, value.size_hint, str(value.explict_addressing_mode),
                            value.hex(), value.hex(size=2), value.hex(size=4), value.hex_len(), value.byte_len(),
                            value.high_byte(), value.low_byte(), value.get_negative(), value.get_negative(2),
                            value.get_negative(4), value.is_4_bit(), value.is_8_bit(), value.is_16_bit(),
                            value.is_direct(), value.is_extended(), value.is_immediate(), str(value), value.ascii()]
                probe("numeric:{!r}:{}:{}".format(number, hint, mode.name), build)
        for cls in (values.DirectNumericValue, values.ExtendedNumericValue, values.AddressValue):
            def build_sub(number=number, cls=cls):
                value = cls(number)
                return [value.int, value.hex(), value.hex(size=2), value.hex(size=4), value.hex_len(),
                        value.byte_len(), getattr(value, "size_hint", None), str(value.explict_addressing_mode)]
            probe("numeric_sub:{}:{!r}".format(cls.__name__, number), build_sub)

    value_strings = ["", "1", "$12", "<$12", ">$12", "#$12", "#<$12", "LABEL", "LABEL+1", "1+LABEL", "A,X", ",X", "1,2,3",
                     "[1]", "\"ABC\"", "'A", "*", "*+1", "$12345", "70000", "-40000", "%101", "@X", "A_B", "1,2", "$1,$2"]
    for text in value_strings:
        for extended_default in (True, False):
            def create(text=text, extended_default=extended_default):
                value = values.Value.create_from_str(text, default_mode_extended=extended_default)
                return [type(value).__name__, value.hex(), value.hex_len(), str(value.explict_addressing_mode),
                        getattr(value, "size_hint", None), getattr(value, "int", None)]
            probe("value_create:{!r}:{}".format(text, extended_default), create)
        for cls_name in ("MultiByteValue", "MultiWordValue", "StringValue", "LeftRightValue", "SymbolValue",
                         "ExpressionValue"):
            def create_cls(text=text, cls_name=cls_name):
                value = getattr(values, cls_name)(text)
                return [value.hex(), value.hex_len(), value.byte_len(), str(value)]
            probe("value_cls:{}:{!r}".format(cls_name, text), create_cls)

    by_name = {instruction.mnemonic: instruction for instruction in INSTRUCTIONS}
    operand_classes = ["UnknownOperand", "PseudoOperand", "SpecialOperand", "RelativeOperand", "InherentOperand",
                       "ImmediateOperand", "DirectOperand", "ExtendedOperand", "ExtendedIndexedOperand", "IndexedOperand"]
    operand_strings = ["", "#1", "#$1234", "$12", "<$12", "$1234", ">$12", "[$1234]", "[$12]", ",X", "5,Z", "1,PC", "A,X",
                       "[,X++]", "[,X+]", "[D,Y]", "$10,PCR", "[$10,PCR]", "-1,X", "-17,X", "-129,X", "200,X", "[200,X]",
                       "[-200,X]", "A,B", "A,X,Y", "S", "U", "Z", "1,2", "$1234,Y+", "1,X,Y"]
    for mnemonic in ("LDA", "STA", "LEAX", "NEG", "JMP", "BRA", "LBRA", "NOP", "PSHS", "PULU", "TFR", "EXG", "FCB",
                     "FDB", "RMB", "ORG", "CMPD", "SWI2", "ANDCC", "CWAI", "LDX", "STX", "BSR"):
        if mnemonic not in by_name:
            results["operand:missing:" + mnemonic] = True
            continue
        for cls_name in operand_classes:
            for text in operand_strings:
                def build_operand(mnemonic=mnemonic, cls_name=cls_name, text=text):
                    operand = getattr(operands, cls_name)(text, by_name[mnemonic])
                    stages = [type(operand).__name__, str(operand.type), operand.operand_string]
                    operand = operand.resolve_symbols({"LABEL": values.NumericValue(5)})
                    stages.append(type(operand).__name__)
                    package = operand.translate()
                    stages.extend([package.op_code.hex(), package.post_byte.hex(), package.additional.hex(),
                                   package.size, package.max_size, package.post_byte_choices,
                                   package.additional_needs_resolution, package.address.hex()])
                    return stages
                probe("operand:{}:{}:{!r}".format(mnemonic, cls_name, text), build_operand)

    # ---- command line
    assembler = load_module(tree, "assembler")
    home = os.getcwd()
    for case_id, lines, argv in CLI:
        with tempfile.TemporaryDirectory() as scratch:
            os.chdir(scratch)
            try:
                with open("src.asm", "w") as handle:
                    handle.write("\n".join(lines) + "\n")
                out = io.StringIO()
                status = 0
                old_argv = sys.argv
                sys.argv = ["assembler.py", "src.asm"] + argv
                try:
                    with contextlib.redirect_stdout(out), contextlib.redirect_stderr(out):
                        try:
                            assembler.main(assembler.parse_arguments())
                        except SystemExit as error:
                            status = error.code
                        except BaseException as error:
                            status = ["traceback", type(error).__name__, str(error)]
                finally:
                    sys.argv = old_argv
                files = {}
                for name in sorted(os.listdir(".")):
                    with open(name, "rb") as handle:
                        files[name] = handle.read().hex()
                results["cli:" + case_id] = {"stdout": out.getvalue(), "status": status, "files": files}
            finally:
                os.chdir(home)

    json.dump(results, sys.stdout, sort_keys=True)


def run_worker(tree):
    tree = os.path.abspath(tree)
    env = dict(os.environ, PYTHONDONTWRITEBYTECODE="1", PYTHONHASHSEED="0")
    env.pop("PYTHONPATH", None)
    done = subprocess.run([sys.executable, os.path.abspath(__file__), "--worker", tree],
                          cwd=tree, env=env, stdout=subprocess.PIPE, stderr=subprocess.PIPE, text=True)
    if done.returncode != 0:
        print("worker failed for {}:\n{}".format(tree, done.stderr))
        sys.exit(1)
    return json.loads(done.stdout)


def flatten(results):
    flat = {}
    for key, record in results.items():
        if key.startswith("mnemonic:"):
            for operand, outcome in record.items():
                flat["{} {!r}".format(key, operand)] = outcome
        else:
            flat[key] = record
    return flat


def main():
    if len(sys.argv) == 3 and sys.argv[1] == "--worker":
        try:
            worker(sys.argv[2])
        except Exception:
            traceback.print_exc()
            sys.exit(2)
        return
    if len(sys.argv) != 3:
        print(__doc__)
        sys.exit(2)
    result_a, result_b = flatten(run_worker(sys.argv[1])), flatten(run_worker(sys.argv[2]))
    differing = [key for key in sorted(set(result_a) | set(result_b)) if result_a.get(key) != result_b.get(key)]
    for key in differing[:20]:
        print("DIFFERENT: {}\n  A: {}\n  B: {}".format(key, str(result_a.get(key))[:500], str(result_b.get(key))[:500]))
    accepted = sum(1 for key, value in result_a.items()
                   if key.startswith("mnemonic:") and "bytes" in value)
    rejected = sum(1 for key, value in result_a.items()
                   if key.startswith("mnemonic:") and "error" in value)
    print("{} cases compared ({} statements accepted, {} rejected), {} differ".format(
        len(result_a), accepted, rejected, len(differing)))
    sys.exit(1 if differing else 0)


if __name__ == "__main__":
    main()
