#!/usr/bin/env python
"""
Differential check for refactoring C15/j: DiskFile.write_to_granules() and DiskFile.read_data() as loops over the granule chain.

usage: equiv.py <treeA> <treeB>   (exit 0 = every observable result agrees)
Each tree is exercised in its own subprocess with the tree first on sys.path.
"""
import sys, os, json, subprocess, tempfile

PRELUDE = r'''
# ---- driver prelude: runs inside ONE tree (argv[1]) with a scratch dir (argv[2]) ----
import sys, os, io, json, hashlib, contextlib, importlib, shutil, traceback

TREE = os.path.realpath(sys.argv[1])
SCRATCH = os.path.realpath(sys.argv[2])
sys.path.insert(0, TREE)
os.chdir(TREE)

import cocoasm
assert os.path.realpath(cocoasm.__file__).startswith(TREE + os.sep), cocoasm.__file__

RESULTS = []
_case_no = [0]


def norm(value):
    """Turns any result into something JSON can carry, without losing what is observable."""
    if isinstance(value, (bytes, bytearray)):
        return {"bytes": bytes(value).hex()}
    if isinstance(value, (list, tuple)):
        if len(value) > 64 and all(isinstance(x, int) and not isinstance(x, bool) for x in value):
            blob = ",".join(str(x) for x in value).encode()
            return {"ints": len(value), "sha1": hashlib.sha1(blob).hexdigest()}
        return [norm(x) for x in value]
    if isinstance(value, dict):
        return {str(k): norm(v) for k, v in value.items()}
    if value is None or isinstance(value, (bool, int, float, str)):
        return value
    if hasattr(value, "_asdict"):
        return {"nt": type(value).__name__, "fields": norm(value._asdict())}
    if hasattr(value, "hex") and hasattr(value, "hex_len"):
        try:
            return {"value": type(value).__name__, "hex": value.hex(), "int": getattr(value, "int", None)}
        except Exception as error:      # noqa
            return {"value": type(value).__name__, "hex_error": repr(error)}
    return {"repr": type(value).__name__ + ":" + str(value)}


def snapshot(directory):
    files = {}
    for root, _, names in os.walk(directory):
        for name in sorted(names):
            path = os.path.join(root, name)
            with open(path, "rb") as handle:
                blob = handle.read()
            files[os.path.relpath(path, directory)] = [len(blob), hashlib.sha1(blob).hexdigest()]
    return files


def case(name, fn, workdir=None):
    """Runs fn(), records value / exception / stdout / stderr / files left in workdir."""
    out, err = io.StringIO(), io.StringIO()
    record = {"name": name}
    old_cwd = os.getcwd()
    if workdir:
        os.chdir(workdir)
    try:
        with contextlib.redirect_stdout(out), contextlib.redirect_stderr(err):
            try:
                record["value"] = norm(fn())
            except SystemExit as error:
                record["exit"] = norm(error.code)
            except BaseException as error:      # noqa
                record["exc"] = [type(error).__name__, str(error)]
    finally:
        os.chdir(old_cwd)
    record["stdout"] = out.getvalue()
    record["stderr"] = err.getvalue()
    if workdir:
        record["files"] = snapshot(workdir)
    RESULTS.append(record)
    return record


def fresh_dir(files=None):
    _case_no[0] += 1
    path = os.path.join(SCRATCH, "c%04d" % _case_no[0])
    os.makedirs(path)
    for name, content in (files or {}).items():
        mode = "wb" if isinstance(content, (bytes, bytearray)) else "w"
        os.makedirs(os.path.dirname(os.path.join(path, name)), exist_ok=True)
        with open(os.path.join(path, name), mode) as handle:
            handle.write(content)
    return path


def cli(module_name, argv):
    """Runs a command-line front end the way `python module.py argv...` would."""
    def run():
        module = importlib.import_module(module_name)
        assert os.path.realpath(module.__file__).startswith(TREE + os.sep)
        old = sys.argv
        sys.argv = [module_name + ".py"] + list(argv)
        try:
            module.main(module.parse_arguments())
        finally:
            sys.argv = old
    return run


def cli_case(name, module_name, argv, files=None, workdir=None, then=()):
    """One CLI run in a fresh (or given) directory, optionally followed by more runs in the same directory."""
    workdir = workdir or fresh_dir(files)
    case(name, cli(module_name, argv), workdir)
    for index, (module2, argv2) in enumerate(then):
        case("%s/then%d" % (name, index), cli(module2, argv2), workdir)
    return workdir


def finish():
    json.dump(RESULTS, sys.stdout)
    sys.stdout.write("\n")
# ---- end of prelude ----
'''

CASES = r'''# ---- shared C15 helpers: disk histories and everything observable about the image after each step ----
import random
from cocoasm.virtualfiles.disk import DiskFile, DiskConstants, MLPreamble, BasicPreamble, ASCIIPreamble, Postamble
from cocoasm.virtualfiles.cassette import CassetteFile
from cocoasm.virtualfiles.coco_file import CoCoFile
from cocoasm.virtualfiles.virtual_file import VirtualFile, VirtualFileType
from cocoasm.virtualfiles.source_file import SourceFile, SourceFileType
from cocoasm.values import NumericValue, NoneValue


def pattern(size, seed=7):
    return [(seed * i + 3) % 256 for i in range(size)]


def ml_file(size, name="LIB", load=0x2000, execute=0x2010, seed=7):
    return CoCoFile(name=name, extension="BIN", type=NumericValue(2), data_type=NumericValue(0),
                    load_addr=NumericValue(load), exec_addr=NumericValue(execute), data=pattern(size, seed))


def basic_file(size, name="BASPROG", ascii_flag=0x00, seed=5):
    return CoCoFile(name=name, extension="BAS", type=NumericValue(0), data_type=NumericValue(ascii_flag), data=pattern(size, seed))


def image_digest(buffer):
    blob = ",".join(str(x) for x in buffer).encode()
    fat = list(buffer[DiskConstants.FAT_OFFSET:DiskConstants.FAT_OFFSET + 68]) if len(buffer) >= DiskConstants.FAT_OFFSET + 68 else None
    slots = None
    if len(buffer) >= DiskConstants.DIR_OFFSET + 72 * 32:
        slots = [buffer[DiskConstants.DIR_OFFSET + 32 * n] for n in range(72)]
    return {"len": len(buffer), "sha1": hashlib.sha1(blob).hexdigest(), "fat": fat, "slot_first_bytes": slots}


def describe_files(files):
    return [[f.name, f.extension, norm(f.type), norm(f.data_type), norm(f.load_addr), norm(f.exec_addr), len(f.data),
             hashlib.sha1(",".join(map(str, f.data)).encode()).hexdigest()] for f in files]


def history(files, **kwargs):
    """Adds the files one after the other to one image; after every step reports outcome, image and listing."""
    def run():
        disk = DiskFile(**kwargs)
        steps = []
        for coco_file in files:
            step = {"file": [coco_file.name, len(coco_file.data)]}
            try:
                step["returned"] = norm(disk.add_file(coco_file))
            except BaseException as error:      # noqa
                step["raised"] = [type(error).__name__, str(error)]
            step["image"] = image_digest(disk.get_buffer())
            steps.append(step)
        try:
            listing = describe_files(DiskFile(buffer=list(disk.get_buffer())).list_files())
        except BaseException as error:      # noqa
            listing = [type(error).__name__, str(error)]
        return {"steps": steps, "listing": listing}
    return run


def asm_program(size, name="prog", origin="$0E00"):
    lines = []
    if name is not None:
        lines.append("        NAM %s\n" % name)
    if origin is not None:
        lines.append("        ORG %s\n" % origin)
    lines.append("START   LDA #$01\n")
    left, value = size - 2, 0
    while left > 0:
        chunk = min(left, 40)
        lines.append("        FCB %s\n" % ",".join(str((value + i) % 251) for i in range(chunk)))
        value += chunk
        left -= chunk
    lines.append("        END START\n")
    return "".join(lines)


GRANULE = 2304
EDGE_SIZES = [0, 1, 245, 246, 247, 255, 256, GRANULE - 11, GRANULE - 10, GRANULE - 9, GRANULE - 6, GRANULE - 5, GRANULE - 4, GRANULE - 1, GRANULE, GRANULE + 1,
              2 * GRANULE - 11, 2 * GRANULE - 10, 2 * GRANULE - 9, 2 * GRANULE - 5, 2 * GRANULE, 3 * GRANULE - 10, 5 * GRANULE + 17, 30000, 65535]
REVERSED_ORDER = list(reversed(DiskConstants.GRANULE_FILL_ORDER))
ASCENDING_ORDER = list(range(68))
SHUFFLED_ORDER = list(DiskConstants.GRANULE_FILL_ORDER)
random.Random(3).shuffle(SHUFFLED_ORDER)


def standard_histories(label):
    for size in EDGE_SIZES:
        case("%s single ml %d" % (label, size), history([ml_file(size)]))
        case("%s single basic %d" % (label, size), history([basic_file(size)]))
        case("%s single ascii %d" % (label, size), history([basic_file(size, "TEXT", 0xFF)]))
    case(label + " slots: 75 one-byte files", history([basic_file(1, "F%d" % i) for i in range(75)]))
    case(label + " slots: 75 empty ml files", history([ml_file(0, "E%d" % i) for i in range(75)]))
    case(label + " granules: 40 two-granule files", history([ml_file(GRANULE + 10, "G%d" % i) for i in range(40)]))
    case(label + " granules: big files", history([ml_file(60000, "BIG1"), ml_file(60000, "BIG2"), ml_file(40000, "BIG3"), ml_file(10, "TINY"), ml_file(30000, "MID")]))
    case(label + " granules: exactly full", history([basic_file(GRANULE * 68 - 1, "ALL", 0xFF), ml_file(0, "MORE")]))
    case(label + " granules: one byte too many", history([basic_file(GRANULE * 68, "ALL", 0xFF), ml_file(0, "MORE")]))
    case(label + " granules: ml over 64K", history([ml_file(65536, "TOOBIG"), ml_file(65535, "MAX"), ml_file(65535, "MAX2"), ml_file(65535, "MAX3")]))
    case(label + " granules: 67 then 1 then 1", history([basic_file(GRANULE * 67 - 1, "MOST", 0xFF), ml_file(GRANULE - 11, "LAST"), ml_file(0, "NONE")]))
    case(label + " granules: 67 then 2", history([basic_file(GRANULE * 67 - 1, "MOST", 0xFF), ml_file(GRANULE - 10, "TWO"), ml_file(0, "ONE")]))
    case(label + " mixture", history([ml_file(3000, "ONE"), basic_file(10, "TWO"), basic_file(GRANULE, "THREE", 0xFF), ml_file(GRANULE - 5, "FOUR"),
                                      ml_file(70000 % 65536, "FIVE"), basic_file(GRANULE - 3, "SIX"), ml_file(50000, "SEVEN"), ml_file(50000, "EIGHT"), ml_file(5, "NINE")]))
    rng = random.Random(99)
    for index in range(6):
        files = [rng.choice([ml_file, basic_file])(rng.choice([0, 5, 300, GRANULE - 10, GRANULE, 5000, 12000, 30000]), "R%d" % n) for n in range(rng.randint(8, 30))]
        case("%s random history %d" % (label, index), history(files))
    for name, order in [("reversed", REVERSED_ORDER), ("ascending", ASCENDING_ORDER), ("shuffled", SHUFFLED_ORDER)]:
        case("%s %s order: mixture" % (label, name), history([ml_file(7000, "A"), basic_file(GRANULE, "B"), ml_file(100, "C"), ml_file(60000, "D"), ml_file(60000, "E"), ml_file(30000, "F")],
                                                              granule_fill_order=order))
        case("%s %s order: to full" % (label, name), history([ml_file(GRANULE + 10, "G%d" % i) for i in range(36)], granule_fill_order=order))
    case(label + " short fill order", history([ml_file(10, "A")], granule_fill_order=[1, 2, 3]))
    case(label + " fill order with bad granule", history([ml_file(10, "A"), ml_file(GRANULE * 3, "B")], granule_fill_order=list(range(1, 69))))
    case(label + " fill order with duplicates", history([ml_file(GRANULE * 3, "A"), ml_file(GRANULE * 3, "B")], granule_fill_order=[5] * 68))
# ---- end of shared C15 helpers ----
# ---- cases for C15/j: DiskFile.write_to_granules() and DiskFile.read_data() as loops over the granule chain ----
standard_histories("j")


def direct_write(size, granules, with_pre=True, with_post=True, first=True, basic=False):
    def run():
        disk = DiskFile()
        preamble = None
        if with_pre:
            preamble = BasicPreamble() if basic else MLPreamble()
            preamble.data_length = NumericValue(size)
            if not basic:
                preamble.load_addr = NumericValue(0x1234)
        postamble = None
        if with_post:
            postamble = Postamble()
            postamble.exec_addr = NumericValue(0xABCD)
        granule_list = None if granules is None else list(granules)
        result = disk.write_to_granules(pattern(size, 3), granule_list, preamble, postamble, first_granule=first)
        return [result, granule_list, image_digest(disk.get_buffer())]
    return run


case("write none list", direct_write(10, None))
case("write empty list", direct_write(10, []))
case("write one", direct_write(10, [0]))
case("write not first", direct_write(10, [0], first=False))
case("write not first long", direct_write(5000, [3, 9, 4], first=False))
case("write no preamble", direct_write(5000, [3, 9, 4], with_pre=False))
case("write no postamble", direct_write(5000, [3, 9, 4], with_post=False))
case("write neither", direct_write(2304, [66, 67], with_pre=False, with_post=False))
case("write too few granules", direct_write(5000, [5]))
case("write too few granules 2", direct_write(2299, [5]))
case("write extra granules", direct_write(100, [5, 6, 7]))
case("write exact fit", direct_write(2299, [10, 20]))
case("write exact fit 2", direct_write(2299 + 2304, [10, 20, 40]))
case("write postamble straddles", direct_write(2297, [10, 20]))
case("write last granule", direct_write(2299, [67]))
case("write last granule overflow", direct_write(2304, [66, 67, 68]))
case("write bad granule", direct_write(10, [70]))
case("write negative granule", direct_write(10, [-1]))
case("write basic preamble", direct_write(2301, [1, 0], basic=True, with_post=False))
case("write high granules", direct_write(7000, [33, 34, 35, 36]))
case("write same granule twice", direct_write(5000, [8, 8, 8]))
case("write tuple of granules", lambda: direct_write(3000, (1, 2))())


def direct_read(granule, fat, data_length, preamble_kind=None, image=None, use_keyword=True):
    def run():
        disk = DiskFile()
        if image == "numbered":
            disk.buffer = [(i // 7) % 256 for i in range(DiskConstants.IMAGE_SIZE)]
        elif image == "short":
            disk.buffer = [(i * 3) % 256 for i in range(5000)]
        elif image == "empty":
            disk.buffer = []
        preamble = {None: None, "ml": MLPreamble(), "basic": BasicPreamble(), "ascii": ASCIIPreamble()}[preamble_kind]
        if use_keyword:
            data, pointer = disk.read_data(granule, fat, preamble, data_length=data_length)
        else:
            data, pointer = disk.read_data(granule, fat, preamble, data_length)
        return [pointer, len(data), hashlib.sha1(",".join(map(str, data)).encode()).hexdigest(), data[:6], data[-6:]]
    return run


CHAIN = [0xFF] * 68
CHAIN[0], CHAIN[1], CHAIN[2], CHAIN[40], CHAIN[67] = 1, 2, 40, 67, 0xC3
LOOPED = [0xFF] * 68
LOOPED[5], LOOPED[6] = 6, 5
for preamble_kind in [None, "ml", "basic", "ascii"]:
    for length in [-300, -1, 0, 1, 2298, 2299, 2300, 2301, 2303, 2304, 2305, 4603, 4604, 4608, 4609, 6912, 9000, 11515, 11520, 12000]:
        case("read chain %s %d" % (preamble_kind, length), direct_read(0, CHAIN, length, preamble_kind, "numbered"))
    case("read loop %s" % preamble_kind, direct_read(5, LOOPED, 30000, preamble_kind, "numbered"))
    case("read loop long %s" % preamble_kind, direct_read(5, LOOPED, 150000, preamble_kind, "numbered"))
    case("read from last granule %s" % preamble_kind, direct_read(67, CHAIN, 2304, preamble_kind, "numbered"))
    case("read past end of image %s" % preamble_kind, direct_read(67, CHAIN, 2400, preamble_kind, "numbered"))
    case("read chain into marker %s" % preamble_kind, direct_read(40, CHAIN, 6000, preamble_kind, "numbered"))
    case("read chain into free entry %s" % preamble_kind, direct_read(3, CHAIN, 6000, preamble_kind, "numbered"))
    case("read short image %s" % preamble_kind, direct_read(0, CHAIN, 3000, preamble_kind, "short"))
    case("read short image tail %s" % preamble_kind, direct_read(2, CHAIN, 390, preamble_kind, "short"))
    case("read short image exact tail %s" % preamble_kind, direct_read(2, CHAIN, 392, preamble_kind, "short"))
    case("read empty image %s" % preamble_kind, direct_read(0, CHAIN, 4, preamble_kind, "empty"))
    case("read empty image nothing %s" % preamble_kind, direct_read(0, CHAIN, 0, preamble_kind, "empty"))
case("read positional length", direct_read(0, CHAIN, 5000, "ml", "numbered", use_keyword=False))
case("read empty fat", direct_read(0, [], 5000, "ml", "numbered"))
case("read empty fat short", direct_read(0, [], 50, "ml", "numbered"))
case("read short fat", direct_read(0, [1], 7000, None, "numbered"))
case("read fat as tuple", direct_read(0, tuple(CHAIN), 7000, None, "numbered"))
case("read granule 68", direct_read(68, CHAIN, 10, None, "numbered"))
case("read granule 70", direct_read(70, CHAIN, 10, None, "numbered"))
case("read negative granule", direct_read(-1, CHAIN, 10, None, "numbered"))
case("read negative granule long", direct_read(-1, CHAIN, 5000, None, "numbered"))


# images with damaged chains, through the public reader
def damaged(files, damage):
    def run():
        disk = DiskFile()
        disk.add_files(files)
        buffer = list(disk.get_buffer())
        damage(buffer)
        return describe_files(DiskFile(buffer=buffer).list_files())
    return guarded_read(run)


def guarded_read(fn):
    import signal

    def run():
        def alarm(signum, frame):
            raise TimeoutError("watchdog")
        signal.signal(signal.SIGALRM, alarm)
        signal.setitimer(signal.ITIMER_REAL, 5)
        try:
            return fn()
        finally:
            signal.setitimer(signal.ITIMER_REAL, 0)
    return run


TWO = [ml_file(6000, "FIRST"), basic_file(3000, "SECOND")]
FAT = DiskConstants.FAT_OFFSET
case("damaged: none", damaged(TWO, lambda b: None))
case("damaged: chain cut early", damaged(TWO, lambda b: b.__setitem__(FAT + 32, 0xC1)))
case("damaged: chain points to free", damaged(TWO, lambda b: b.__setitem__(FAT + 32, 10)))
case("damaged: chain points out of range", damaged(TWO, lambda b: b.__setitem__(FAT + 32, 0x50)))
case("damaged: preamble length grown", damaged(TWO, lambda b: b.__setitem__(DiskFile.seek_granule(32) + 1, 0x40)))
case("damaged: preamble length huge", damaged(TWO, lambda b: b.__setitem__(DiskFile.seek_granule(32) + 1, 0xFF)))
case("damaged: preamble length zero", damaged(TWO, lambda b: [b.__setitem__(DiskFile.seek_granule(32) + 1, 0), b.__setitem__(DiskFile.seek_granule(32) + 2, 0)]))
case("damaged: first granule out of range", damaged(TWO, lambda b: b.__setitem__(DiskConstants.DIR_OFFSET + 13, 80)))
case("damaged: truncated image", damaged(TWO, lambda b: b.__delitem__(slice(100000, None))))

# through the tools
work = cli_case("cli first", "assembler", ["a.asm", "--to_dsk", "d.dsk"],
                files={"a.asm": asm_program(2299, "first"), "b.asm": asm_program(7000, "second", "$3F00"), "c.asm": asm_program(2, "third", None), "d.asm": asm_program(60000, "huge", "$0100")})
for index, source in enumerate(["b.asm", "c.asm", "d.asm", "d.asm", "d.asm", "b.asm"]):
    cli_case("cli append %d %s" % (index, source), "assembler", [source, "--to_dsk", "d.dsk", "--append"], workdir=work, then=[("file_util", ["d.dsk", "--list"])])
cli_case("cli copy to cas", "file_util", ["d.dsk", "--to_cas", "d.cas"], workdir=work, then=[("file_util", ["d.cas", "--list"]), ("file_util", ["d.cas", "--to_dsk", "e.dsk"]), ("file_util", ["e.dsk", "--list"])])
'''


def run_tree(tree):
    tree = os.path.realpath(tree)
    with tempfile.TemporaryDirectory(prefix="equiv_") as tmp:
        driver = os.path.join(tmp, "driver.py")
        with open(driver, "w") as handle:
            handle.write(PRELUDE + "\n" + CASES + "\nfinish()\n")
        scratch = os.path.join(tmp, "scratch")
        os.mkdir(scratch)
        env = dict(os.environ, PYTHONDONTWRITEBYTECODE="1", PYTHONHASHSEED="0")
        env.pop("PYTHONPATH", None)
        proc = subprocess.run(
            [sys.executable, "-B", driver, tree, scratch],
            cwd=tree, env=env, capture_output=True, text=True,
        )
        if proc.returncode != 0:
            print("driver failed in", tree)
            print(proc.stderr[-4000:])
            sys.exit(2)
        return json.loads(proc.stdout.splitlines()[-1])


def main():
    if len(sys.argv) != 3:
        print("usage: equiv.py <treeA> <treeB>")
        sys.exit(2)
    res_a = run_tree(sys.argv[1])
    res_b = run_tree(sys.argv[2])
    bad = 0
    if [r["name"] for r in res_a] != [r["name"] for r in res_b]:
        print("case lists differ")
        bad += 1
    for rec_a, rec_b in zip(res_a, res_b):
        if rec_a != rec_b:
            bad += 1
            print("DIFF in case", rec_a["name"])
            for key in sorted(set(rec_a) | set(rec_b)):
                if rec_a.get(key) != rec_b.get(key):
                    print("   ", key, ":", repr(rec_a.get(key))[:300], "!=", repr(rec_b.get(key))[:300])
    errors = sum(1 for r in res_a if "exc" in r or "exit" in r)
    print("%d cases compared (%d of them end in an exception/exit), %d differ" % (len(res_a), errors, bad))
    sys.exit(1 if bad else 0)


if __name__ == "__main__":
    main()
