"""
Differential demonstration for property C13 refactorings.

Usage: equiv.py <treeA> <treeB>

Runs the same battery of inputs against the code of both trees (one
subprocess per tree, tree at the front of sys.path, scratch directory as cwd),
collects every observable result as JSON and compares them.
Exit status 0 when all results agree, 1 otherwise.
"""
import hashlib
import json
import os
import shutil
import subprocess
import sys
import tempfile

FOCUS = "s: statement.py determine_pcr_relative_sizes (8/16-bit PCR offset choice) and new fix_pcr_size helper"

# --------------------------------------------------------------------------
# Inputs
# --------------------------------------------------------------------------

VALID_PROGRAMS = {
    "hello": [
        "        NAM     HELLO",
        "        ORG     $0E00",
        "START   LDX     #MSG      ; point at message",
        "LOOP    LDA     ,X+",
        "        BEQ     DONE",
        "        JSR     [$A002]",
        "        BRA     LOOP",
        "DONE    RTS",
        "MSG     FCC     \"HELLO\"   ; text",
        "        FCB     0",
        "        END     START",
    ],
    "mixed": [
        "; a comment only line",
        "",
        "VAL     EQU     $20",
        "        ORG     $3000",
        "BEGIN   LDA     #VAL",
        "        LDB     <VAL",
        "        STA     >$4000",
        "        LDD     VAL+2",
        "        LDX     TABLE,PCR",
        "        LEAY    BEGIN,PCR",
        "        TFR     A,B",
        "        PSHS    A,B,X",
        "        PULS    A,B,X",
        "        LDA     [TABLE,PCR]",
        "        LDA     A,X",
        "        LDA     5,Y",
        "        LDA     ,--X",
        "        LBRA    BEGIN",
        "        LBSR    BEGIN",
        "TABLE   FDB     $1234,$5678",
        "        FCB     1,2,3",
        "        RMB     4",
        "        SETDP   $30",
        "        END     BEGIN",
    ],
    "branches": [
        "TOP     NOP",
        "        BNE     TOP",
        "        BEQ     BOT",
        "        LBNE    TOP",
        "        LBEQ    BOT",
        "        SWI2",
        "        CMPD    #$1234",
        "        CMPY    #$12",
        "BOT     RTS",
    ],
}


def pcr_forward(distance, count=1, mnemonic="LDA"):
    lines = ["        ORG     $1000"]
    for n in range(count):
        lines.append("        {}     TARGET,PCR".format(mnemonic))
    lines.append("        RMB     {}".format(distance))
    lines.append("TARGET  NOP")
    return lines


def pcr_backward(distance, count=1, mnemonic="LDA"):
    lines = ["        ORG     $1000", "TARGET  NOP", "        RMB     {}".format(distance)]
    for n in range(count):
        lines.append("        {}     TARGET,PCR".format(mnemonic))
    lines.append("        RTS")
    return lines


def pcr_fcb_forward(nbytes):
    lines = ["START   LEAX    TARGET,PCR"]
    lines.extend(["        FCB     $12"] * nbytes)
    lines.append("TARGET  RTS")
    return lines


def pcr_fcb_backward(nbytes):
    lines = ["TARGET  RTS"]
    lines.extend(["        FCB     $12"] * nbytes)
    lines.append("START   LEAX    TARGET,PCR")
    return lines


def branch_forward(nbytes, mnemonic="BRA"):
    lines = ["START   {}     TARGET".format(mnemonic)]
    lines.extend(["        NOP"] * nbytes)
    lines.append("TARGET  RTS")
    return lines


def branch_backward(nbytes, mnemonic="BRA"):
    lines = ["TARGET  RTS"]
    lines.extend(["        NOP"] * nbytes)
    lines.append("START   {}     TARGET".format(mnemonic))
    return lines


ERROR_LINES = [
    "        FOO     #$10",
    "        LDA",
    "        LDA     ",
    "        LDA     #",
    "        LDA     #$",
    "        LDA     #$GG",
    "        LDA     #%102",
    "        LDA     #$123456",
    "        LDA     NOWHERE",
    "        LDA     NOWHERE,PCR",
    "        LDA     [NOWHERE,PCR]",
    "        LDA     ,",
    "        LDA     ,Q",
    "        LDA     Q,X",
    "        LDA     [",
    "        LDA     []",
    "        LDA     [,]",
    "        LDA     [$10",
    "        LDA     $10]",
    "        LDA     <",
    "        LDA     >",
    "        LDA     1+",
    "        LDA     +1",
    "        LDA     1+2+3",
    "        LDA     A+B",
    "        LDA     'A",
    "        LDA     #'A",
    "        LDA     #'",
    "        LDA     \"",
    "        FCC",
    "        FCC     ",
    "        FCC     \"",
    "        FCC     \"ABC",
    "        FCC     ABC",
    "        FCC     \"\"",
    "        FCC     /A B C/  trailing words",
    "        FCB",
    "        FCB     ,",
    "        FCB     1,,2",
    "        FCB     $100",
    "        FCB     1,$100",
    "        FDB     ",
    "        FDB     1,",
    "        FDB     $10000",
    "        RMB     ",
    "        RMB     X",
    "        RMB     -1",
    "        ORG     ",
    "        ORG     NOWHERE",
    "        EQU     5",
    "LBL     EQU     ",
    "LBL     EQU     LBL",
    "        NAM     ",
    "        END     ",
    "        END     NOWHERE",
    "        SETDP   ",
    "        TFR     A",
    "        TFR     A,X",
    "        TFR     Q,R",
    "        TFR     ,",
    "        EXG     A,B,C",
    "        PSHS    ",
    "        PSHS    Q",
    "        PSHS    A,,B",
    "        PULU    U",
    "        BRA     ",
    "        BRA     NOWHERE",
    "        BRA     #$10",
    "        BRA     $10",
    "        BRA     ,X",
    "        LBRA    1+2",
    "        RTS     $10",
    "        RTS     #1",
    "        NOP     X",
    "        STA     #$10",
    "        LEAX    #$10",
    "        LEAX    $10",
    "        JMP     #$10",
    "        INCLUDE ",
    "LABEL",
    "LABEL   ",
    "NOSPACE",
    "  ;",
    ";",
    "\t",
    "        LDA     #$10 ; comment ; more",
    "        LDA     #$10;nocommentspace",
    "        lda     #$10",
    "L@BEL   LDA     #$10",
    "9LBL    LDA     #$10",
    "        LDA     #$10   extra words here",
    "        LDA     {bad}",
    "        LDA     ~1",
    "???",
    "   ???   ???",
    "        LDA     ,X++++",
    "        LDA     ,-X",
    "        LDA     ,--",
    "        LDA     [,X+]",
    "        LDA     [,-X]",
    "        LDA     $10,PCR",
    "        LDA     ,PCR",
    "        LDA     ,PC",
    "        LDA     1+1,PCR",
    "        LDA     300,X",
    "        LDA     -300,X",
    "        LDA     $10000,X",
    "        LDA     D,Q",
    "        LDA     D,",
    "        FCC     \"A B\" c1 c2",
    "        FCC     \"A B\"; c1",
    "        FCC     \"A\"B\"C\"",
    "        FCC     /A/ /B/",
    "        FCC     \"A ; B\"",
    "        FCC     \"A ; B",
    "        FCC     ; only comment",
    "        FCC     ;",
    "        FCC     \"AB\"\"",
    "        FCC     'AB' x",
    "        FCC     1",
    "        FCC     11",
    "        FCC     \" \"",
    "        FCC       \"X\"   tail   ",
    "MSG     FCC     ,A, tail",
    "        FCC     #A#",
    "        FCC     <A<",
    "        FCC     >A> zz",
    "        FCC     [A[",
    "        FCB     \"A\"",
    "        FDB     'A",
    "        NAM     \"A B\"",
    "        LDA     #$10 ;",
    "        LDA     #$10 ;;; c",
    "        LDA     #$10\t; tab comment\t",
]

OPERAND_STRINGS = [
    "", "#$10", "#10", "#%1010", "#'A", "$10", "$1000", "<$10", ">$10", "10", "%11", "LABEL", "LABEL+1",
    "1+2", "$10-LABEL", "A*B", "4/2", ",X", ",X+", ",X++", ",-X", ",--X", "A,X", "B,Y", "D,U", "5,S",
    "$10,X", "$1000,X", "-5,X", "LABEL,X", "LABEL,PCR", "$10,PCR", "[,X]", "[,X++]", "[,--X]", "[$10,X]",
    "[LABEL,PCR]", "[$1000]", "[LABEL]", "[", "]", "[]", ",", ",,", "A,B", "A,B,X", "X,Y", "CC,DP", "PC,S",
    "Q", "Q,R", "#", "#$", "$", "%", "<", ">", "<>", "'", "\"", "\"ABC\"", "/ABC/", "'ABC'", "\"ABC",
    "1,2,3", "$FF,$100", "1,", ",1", "$1234,$5678", "+", "1+", "+1", "1++2", "(1+2)", "#LABEL", "#LABEL+1",
    "#<LABEL", "<LABEL", ">LABEL", "@LBL", "LBL@", "$GG", "%2", "99999", "999999", "$FFFF", "$10000",
    "-1", "--1", "X", "A", "D", "PCR", ",PCR", ",PC", "1,PC", "A,PCR", "[A,X]", "[D,Y]", "[5,X]", "[,X+]",
    "[,-X]", "?", "!", "=", "&", "^", "*", "(", ")", ".", ":", "a,x", "label", "1 2",
]

OPERAND_MNEMONICS = [
    "LDA", "LDX", "STA", "LEAX", "JMP", "JSR", "BRA", "LBRA", "BSR", "RTS", "NOP", "TFR", "EXG",
    "PSHS", "PULU", "FCB", "FDB", "FCC", "RMB", "ORG", "EQU", "END", "NAM", "INCLUDE", "SETDP",
    "CMPD", "SWI2", "ADDD", "CLR", "ANDCC",
]

INCLUDE_FILES = {
    "inc_ok.asm": ["INCLBL  LDA     #$01", "        RTS"],
    "inc_nested.asm": ["        INCLUDE inc_ok.asm", "        NOP"],
    "inc_self.asm": ["        NOP", "        INCLUDE inc_self.asm"],
    "inc_a.asm": ["        INCLUDE inc_b.asm", "        NOP"],
    "inc_b.asm": ["        INCLUDE inc_a.asm", "        RTS"],
    "inc_bad.asm": ["        FOO     #$10"],
    "inc_dup.asm": ["INCLBL  NOP"],
    "inc_empty.asm": [],
}


def pad(lines):
    """An operand-less statement needs trailing blanks to be recognised by the line pattern."""
    import re
    return [line + "   " if re.match(r"^\S*\s+\w+$", line) else line for line in lines]


def build_programs():
    raw = set(ERROR_LINES)
    return [(name, [line if line in raw else pad([line])[0] for line in lines]) for name, lines in build_raw_programs()]


def build_raw_programs():
    programs = []
    for name, lines in VALID_PROGRAMS.items():
        programs.append(("valid:" + name, lines))

    # single line mutations of the valid programs: deletion and duplication
    for name, lines in VALID_PROGRAMS.items():
        for index in range(len(lines)):
            programs.append(("del:{}:{}".format(name, index), lines[:index] + lines[index + 1:]))
            programs.append(("dup:{}:{}".format(name, index), lines[:index + 1] + lines[index:]))

    # single bad lines, alone and inside a valid program
    for index, line in enumerate(ERROR_LINES):
        programs.append(("err:{}".format(index), [line]))
        base = VALID_PROGRAMS["hello"]
        programs.append(("err-in:{}".format(index), base[:4] + [line] + base[4:]))

    # PCR distance sweeps around the 8/16 bit boundary
    for distance in list(range(118, 134)) + [0, 1, 2, 60, 250, 255, 256, 257, 1000]:
        for mnemonic in ("LDA", "LEAX"):
            for count in (1, 2, 3):
                programs.append(("pcrf:{}:{}:{}".format(mnemonic, count, distance),
                                 pcr_forward(distance, count, mnemonic)))
                programs.append(("pcrb:{}:{}:{}".format(mnemonic, count, distance),
                                 pcr_backward(distance, count, mnemonic)))
    for nbytes in list(range(120, 132)) + [0, 1, 3]:
        programs.append(("pcrff:{}".format(nbytes), pcr_fcb_forward(nbytes)))
        programs.append(("pcrfb:{}".format(nbytes), pcr_fcb_backward(nbytes)))

    # crossing PCR references (each inside the other's span)
    for distance in (100, 120, 122, 123, 124, 125, 126, 127, 128, 130):
        programs.append(("pcrx:{}".format(distance), [
            "A1      LDA     B1,PCR",
            "        RMB     {}".format(distance),
            "A2      LDB     A1,PCR",
            "        RMB     {}".format(distance),
            "B1      LDX     A2,PCR",
            "        LDY     [B1,PCR]",
            "        RTS",
        ]))
        programs.append(("pcrexpr:{}".format(distance), [
            "A1      LDA     B1+1,PCR",
            "        RMB     {}".format(distance),
            "B1      LDX     A1-1,PCR",
            "        RTS",
        ]))

    # short / long branch sweeps
    for nbytes in list(range(122, 132)) + [0, 1]:
        for mnemonic in ("BRA", "BNE", "LBRA", "BSR"):
            programs.append(("brf:{}:{}".format(mnemonic, nbytes), branch_forward(nbytes, mnemonic)))
            programs.append(("brb:{}:{}".format(mnemonic, nbytes), branch_backward(nbytes, mnemonic)))

    # symbols
    programs.append(("dup-label", ["L1      NOP", "L1      RTS"]))
    programs.append(("dup-equ", ["L1      EQU     5", "L1      EQU     6"]))
    programs.append(("dup-equ-label", ["L1      EQU     5", "L1      NOP"]))
    programs.append(("equ-chain", ["L1      EQU     L2", "L2      EQU     5", "        LDA     #L1"]))
    programs.append(("equ-self", ["L1      EQU     L1", "        LDA     #L1"]))
    programs.append(("two-orgs", ["        ORG     $1000", "A1      NOP", "        ORG     $2000", "A2      JMP     A1"]))
    programs.append(("two-names", ["        NAM     ONE", "        NAM     TWO", "        NOP"]))
    programs.append(("empty", []))
    programs.append(("blank-only", ["", "   ", "; x"]))

    # includes
    programs.append(("inc-ok", ["        NOP", "        INCLUDE inc_ok.asm", "        JMP     INCLBL"]))
    programs.append(("inc-nested", ["        INCLUDE inc_nested.asm", "        JMP     INCLBL"]))
    programs.append(("inc-twice", ["        INCLUDE inc_empty.asm", "        INCLUDE inc_empty.asm", "        NOP"]))
    programs.append(("inc-twice-dup", ["        INCLUDE inc_ok.asm", "        INCLUDE inc_ok.asm"]))
    programs.append(("inc-dup-label", ["INCLBL  NOP", "        INCLUDE inc_dup.asm"]))
    programs.append(("inc-self", ["        INCLUDE inc_self.asm"]))
    programs.append(("inc-cycle", ["        NOP", "        INCLUDE inc_a.asm"]))
    programs.append(("inc-missing", ["        NOP", "        INCLUDE no_such_file.asm"]))
    programs.append(("inc-dir", ["        INCLUDE ."]))
    programs.append(("inc-bad", ["        INCLUDE inc_bad.asm"]))
    programs.append(("inc-empty", ["        INCLUDE inc_empty.asm"]))
    programs.append(("inc-labelled", ["HERE    INCLUDE inc_ok.asm", "        JMP     HERE"]))
    return programs


CLI_RUNS = [
    # (source name, extra args)
    ("valid:hello", ["--print", "--symbols"]),
    ("valid:hello", ["--to_bin", "out.bin"]),
    ("valid:hello", ["--to_cas", "out.cas", "--print"]),
    ("valid:hello", ["--to_dsk", "out.dsk", "--symbols"]),
    ("valid:hello", ["--to_bin", "out.bin", "--to_cas", "out.cas", "--to_dsk", "out.dsk", "--name", "OTHER"]),
    ("valid:mixed", ["--print", "--symbols", "--to_bin", "out.bin"]),
    ("valid:mixed", ["--to_cas", "out.cas"]),
    ("valid:mixed", ["--to_cas", "out.cas", "--name", "MIXED"]),
    ("valid:branches", ["--print", "--to_dsk", "out.dsk", "--name", "BR"]),
    ("err:0", ["--print", "--to_bin", "out.bin"]),
    ("err:8", ["--to_bin", "out.bin", "--to_cas", "out.cas", "--name", "X"]),
    ("err:32", ["--to_bin", "out.bin"]),
    ("err:39", ["--to_bin", "out.bin"]),
    ("err:57", ["--symbols", "--to_dsk", "out.dsk", "--name", "X"]),
    ("err:80", ["--to_bin", "out.bin"]),
    ("err-in:3", ["--print", "--to_bin", "out.bin"]),
    ("dup-label", ["--to_bin", "out.bin", "--print"]),
    ("inc-ok", ["--print", "--symbols", "--to_bin", "out.bin"]),
    ("inc-cycle", ["--to_bin", "out.bin"]),
    ("inc-self", ["--to_bin", "out.bin"]),
    ("inc-missing", ["--to_bin", "out.bin", "--to_cas", "out.cas", "--name", "X"]),
    ("inc-bad", ["--to_bin", "out.bin"]),
    ("brf:BRA:128", ["--to_bin", "out.bin"]),
    ("brb:BNE:127", ["--to_bin", "out.bin", "--print"]),
    ("pcrf:LDA:2:125", ["--print", "--symbols", "--to_bin", "out.bin"]),
    ("pcrb:LEAX:3:124", ["--print", "--to_bin", "out.bin"]),
    ("pcrx:124", ["--print", "--symbols", "--to_bin", "out.bin"]),
    ("empty", ["--print", "--symbols", "--to_bin", "out.bin"]),
    ("valid:hello", ["--to_cas", "out.cas", "--append"]),
    ("valid:mixed", ["--to_cas", "out.cas", "--append", "--name", "MIXED"]),
    ("err:0", ["--to_cas", "out.cas", "--append", "--name", "X"]),
    ("no-such-source", []),
]


# --------------------------------------------------------------------------
# Driver: runs inside one tree
# --------------------------------------------------------------------------

def describe_value(value):
    if value is None:
        return None
    try:
        hexed = value.hex()
    except Exception as error:  # noqa
        hexed = "!{}:{}".format(type(error).__name__, error)
    return [type(value).__name__, str(getattr(value, "type", None)), hexed,
            repr(getattr(value, "original_string", None)), str(getattr(value, "mode", None)),
            repr(getattr(value, "size_hint", None))]


def describe_operand(operand):
    if operand is None:
        return None
    return {
        "class": type(operand).__name__,
        "type": str(operand.type),
        "string": operand.operand_string,
        "value": describe_value(operand.value),
        "left": describe_value(operand.left),
        "right": describe_value(operand.right),
        "operation": operand.operation,
        "requires_resolution": operand.requires_resolution,
    }


def describe_statement(statement):
    if statement is None or isinstance(statement, str):
        return statement
    out = {
        "label": statement.label, "mnemonic": statement.mnemonic, "comment": statement.comment,
        "is_empty": statement.is_empty, "is_comment_only": statement.is_comment_only,
        "fixed_size": statement.fixed_size, "pcr_size_hint": statement.pcr_size_hint,
        "operand": describe_operand(statement.operand),
        "original_operand": describe_operand(statement.original_operand),
        "size": statement.code_pkg.size, "max_size": statement.code_pkg.max_size,
    }
    try:
        out["str"] = str(statement)
    except Exception as error:  # noqa
        out["str"] = "!{}:{}".format(type(error).__name__, error)
    return out


def describe_error(error):
    out = {"type": type(error).__name__, "str": str(error), "args": repr(error.args)}
    if hasattr(error, "value"):
        out["value"] = repr(error.value)
    if hasattr(error, "statement"):
        out["statement"] = describe_statement(error.statement)
    return out


class Timeout(BaseException):
    pass


def driver(tree):
    import signal
    sys.path.insert(0, tree)
    sys.setrecursionlimit(400)
    from cocoasm.program import Program
    from cocoasm.statement import Statement
    from cocoasm.operands import Operand
    from cocoasm.values import Value
    from cocoasm.instruction import INSTRUCTIONS

    for name, lines in INCLUDE_FILES.items():
        with open(name, "w") as handle:
            handle.write("".join(line + "\n" for line in pad(lines)))

    def on_alarm(signum, frame):
        raise Timeout()
    signal.signal(signal.SIGALRM, on_alarm)

    results = {}

    # whole programs
    for name, lines in build_programs():
        record = {}
        program = Program()
        signal.alarm(10)
        try:
            program.process(list(lines))
            record["outcome"] = "ok"
            record["binary"] = program.get_binary_array()
            record["listing"] = program.get_statements()
            record["symbols"] = program.get_symbol_table()
            record["origin"] = describe_value(program.origin)
            record["name"] = program.name
            record["statements"] = [describe_statement(s) for s in program.statements]
        except Timeout:
            record["outcome"] = "timeout"
        except BaseException as error:  # noqa
            record["outcome"] = "raised"
            record["error"] = describe_error(error)
            record["partial_symbols"] = sorted(program.symbol_table.keys())
            record["partial_count"] = len(program.statements)
        finally:
            signal.alarm(0)
        results["program/" + name] = record

    # single statements
    lines = list(ERROR_LINES)
    for program_lines in VALID_PROGRAMS.values():
        lines.extend(pad(program_lines))
    for index, line in enumerate(lines):
        try:
            record = {"outcome": "ok", "statement": describe_statement(Statement(line))}
        except BaseException as error:  # noqa
            record = {"outcome": "raised", "error": describe_error(error)}
        results["statement/{}/{}".format(index, line)] = record

    # operand and value factories
    by_mnemonic = dict((i.mnemonic, i) for i in INSTRUCTIONS)
    for mnemonic in OPERAND_MNEMONICS:
        instruction = by_mnemonic[mnemonic]
        for text in OPERAND_STRINGS:
            try:
                record = {"outcome": "ok", "operand": describe_operand(Operand.create_from_str(text, instruction))}
            except BaseException as error:  # noqa
                record = {"outcome": "raised", "error": describe_error(error)}
            results["operand/{}/{}".format(mnemonic, text)] = record
    for text in OPERAND_STRINGS:
        for label, instruction in (("none", None), ("LDA", by_mnemonic["LDA"]), ("LDX", by_mnemonic["LDX"]),
                                   ("FCC", by_mnemonic["FCC"]), ("CMPD", by_mnemonic["CMPD"])):
            for extended in (True, False):
                try:
                    value = Value.create_from_str(text, instruction, default_mode_extended=extended)
                    record = {"outcome": "ok", "value": describe_value(value)}
                except BaseException as error:  # noqa
                    record = {"outcome": "raised", "error": describe_error(error)}
                results["value/{}/{}/{}".format(label, extended, text)] = record
        try:
            record = {"outcome": "ok", "value": describe_value(Value.create_from_str(text))}
        except BaseException as error:  # noqa
            record = {"outcome": "raised", "error": describe_error(error)}
        results["value/default/{}".format(text)] = record

    # command line
    programs = dict(build_programs())
    for index, (source, extra) in enumerate(CLI_RUNS):
        workdir = "cli{}".format(index)
        os.mkdir(workdir)
        for name, inc_lines in INCLUDE_FILES.items():
            with open(os.path.join(workdir, name), "w") as handle:
                handle.write("".join(line + "\n" for line in pad(inc_lines)))
        if source in programs:
            with open(os.path.join(workdir, "prog.asm"), "w") as handle:
                handle.write("".join(line + "\n" for line in programs[source]))
        # a pre-existing output file must stay untouched when a diagnostic is given
        if not source.startswith("valid:") or "--append" in extra:
            with open(os.path.join(workdir, "out.cas"), "wb") as handle:
                handle.write(b"")
        before = snapshot(workdir)
        try:
            done = subprocess.run(
                [sys.executable, os.path.join(tree, "assembler.py"), "prog.asm"] + extra,
                cwd=workdir, stdout=subprocess.PIPE, stderr=subprocess.PIPE, timeout=60,
                env=dict(os.environ, PYTHONPATH=tree, PYTHONDONTWRITEBYTECODE="1"),
            )
            record = {
                "status": done.returncode,
                "stdout": done.stdout.decode("latin-1"),
                "stderr": scrub(done.stderr.decode("latin-1"), tree),
            }
        except subprocess.TimeoutExpired:
            record = {"status": "timeout"}
        record["before"] = before
        record["after"] = snapshot(workdir)
        results["cli/{}/{}/{}".format(index, source, " ".join(extra))] = record

    return results


def scrub(text, tree):
    """Tracebacks mention the tree path and line numbers; keep only the final line of a traceback."""
    text = text.replace(tree, "<tree>")
    if "Traceback (most recent call last)" in text:
        kept = [line for line in text.splitlines() if line and not line.startswith(" ")]
        return "\n".join(kept)
    return text


def snapshot(directory):
    out = {}
    for name in sorted(os.listdir(directory)):
        path = os.path.join(directory, name)
        with open(path, "rb") as handle:
            data = handle.read()
        out[name] = [len(data), hashlib.sha256(data).hexdigest()]
    return out


# --------------------------------------------------------------------------
# Comparison
# --------------------------------------------------------------------------

def run_tree(tree):
    tree = os.path.abspath(tree)
    scratch = tempfile.mkdtemp(prefix="c13equiv")
    try:
        done = subprocess.run(
            [sys.executable, os.path.abspath(__file__), "--driver", tree],
            cwd=scratch, stdout=subprocess.PIPE, timeout=1800,
            env=dict(os.environ, PYTHONDONTWRITEBYTECODE="1"),
        )
        if done.returncode != 0:
            print("driver failed for", tree)
            sys.exit(1)
        return json.loads(done.stdout.decode("utf-8"))
    finally:
        shutil.rmtree(scratch, ignore_errors=True)


def main():
    if len(sys.argv) == 3 and sys.argv[1] == "--driver":
        results = driver(sys.argv[2])
        sys.stdout.write(json.dumps(results, sort_keys=True))
        return 0
    if len(sys.argv) != 3:
        print(__doc__)
        return 2
    result_a = run_tree(sys.argv[1])
    result_b = run_tree(sys.argv[2])
    differences = 0
    for key in sorted(set(result_a) | set(result_b)):
        if result_a.get(key) != result_b.get(key):
            differences += 1
            if differences <= 20:
                print("DIFF", key)
                print("   A:", json.dumps(result_a.get(key), sort_keys=True)[:600])
                print("   B:", json.dumps(result_b.get(key), sort_keys=True)[:600])
    outcomes = {}
    for key, record in result_a.items():
        kind = key.split("/")[0]
        tag = record.get("outcome", record.get("status"))
        if tag == "raised":
            tag = record["error"]["type"]
        outcomes.setdefault(kind, {}).setdefault(str(tag), 0)
        outcomes[kind][str(tag)] += 1
    print("focus:", FOCUS)
    print("cases compared:", len(result_a), "/", len(result_b))
    for kind in sorted(outcomes):
        print("  {:10} {}".format(kind, outcomes[kind]))
    print("differences:", differences)
    return 1 if differences or len(result_a) != len(result_b) else 0


if __name__ == "__main__":
    sys.exit(main())
