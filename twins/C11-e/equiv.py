#!/usr/bin/env python
"""
Differential demonstration: runs the same set of cases against two source trees
(one subprocess per tree, tree first on sys.path) and compares every observable
result.  Usage: equiv.py <treeA> <treeB>; exit status 0 when everything agrees.
"""
import json
import os
import shutil
import subprocess
import sys
import tempfile

HERE = os.path.abspath(__file__)


# ----------------------------------------------------------------- driver side

def norm(obj, depth=0):
    """Turns library objects into plain JSON-able data, without memory addresses."""
    if obj is None or isinstance(obj, (bool, int, float, str)):
        return obj
    if isinstance(obj, (bytes, bytearray)):
        return {"__bytes__": obj.hex()}
    if isinstance(obj, (list, tuple)):
        if len(obj) > 64 and all(isinstance(x, int) and not isinstance(x, bool) for x in obj):
            import hashlib
            return {"__ints__": len(obj), "sha": hashlib.sha256(repr(list(obj)).encode()).hexdigest(),
                    "head": list(obj[:16]), "tail": list(obj[-16:])}
        return [norm(x, depth + 1) for x in obj]
    if isinstance(obj, dict):
        return {str(k): norm(v, depth + 1) for k, v in obj.items()}
    if hasattr(obj, "_asdict") and depth < 6:
        return {"__nt__": type(obj).__name__, "fields": norm(obj._asdict(), depth + 1)}
    import enum
    if isinstance(obj, enum.Enum):
        return "enum:" + str(obj)
    if hasattr(obj, "__dict__") and depth < 6:
        return {"__obj__": type(obj).__name__,
                "attrs": {k: norm(v, depth + 1) for k, v in sorted(vars(obj).items())}}
    return "repr:" + type(obj).__name__


def attempt(fn, *args, **kwargs):
    """Calls fn and records either its normalised result or the exception type and message."""
    try:
        return ["ok", norm(fn(*args, **kwargs))]
    except SystemExit as error:
        return ["exit", repr(error.code)]
    except BaseException as error:  # noqa - we want to see everything
        return ["raised", type(error).__name__, str(error)]


def file_state(path):
    """The observable state of a file: absent, or its bytes."""
    if not os.path.exists(path):
        return None
    with open(path, "rb") as handle:
        data = handle.read()
    import hashlib
    return {"len": len(data), "sha": hashlib.sha256(data).hexdigest(), "head": data[:48].hex()}


def run_cli(tree, script, arguments, cwd):
    """Runs one of the command-line tools of the tree; tracebacks are reduced to their last line."""
    env = dict(os.environ, PYTHONDONTWRITEBYTECODE="1", PYTHONPATH=tree)
    done = subprocess.run([sys.executable, "-B", os.path.join(tree, script)] + list(arguments),
                          cwd=cwd, env=env, stdout=subprocess.PIPE, stderr=subprocess.PIPE, timeout=120)
    err = done.stderr.decode("utf-8", "replace").replace(tree, "<TREE>")
    if "Traceback (most recent call last)" in err:
        err = "TRACEBACK ... " + err.strip().splitlines()[-1]
    out = done.stdout.decode("utf-8", "replace").replace(tree, "<TREE>")
    return {"status": done.returncode, "stdout": out, "stderr": err}


def write_text(path, text):
    with open(path, "w") as handle:
        handle.write(text)


def write_bytes(path, data):
    with open(path, "wb") as handle:
        handle.write(bytes(data))


# ------------------------------------------------------------ shared CLI cases

PROGRAMS = {
    "hello": """        NAM     hello
        ORG     $0E00
START   LDA     #$01
        LDX     #MSG
LOOP    LDA     ,X+
        BEQ     DONE
        JSR     [$A002]
        BRA     LOOP
DONE    RTS
MSG     FCC     "HELLO WORLD"
        FCB     0
        END     START
""",
    "noname": """        ORG     $3F00
BEGIN   LDD     #$1234
        STD     $0400
        LEAX    TABLE,PCR
        RTS
TABLE   FDB     $0102,$0304,$FFFE
""",
    "longname": """        NAM     LongProgName
        ORG     $7000
        LDA     <$10
        STA     >$0010
        PSHS    A,B,X
        PULS    A,B,X,PC
""",
    "noorg": """        NAM     FLAT
        CLRA
        CLRB
LOOP    INCA
        BNE     LOOP
        RTS
""",
    "high": """        NAM     TOPMEM
        ORG     $FF00
        LDX     #$FFFE
        LDA     ,X
        RTS
""",
    "block255": """        NAM     B255
        ORG     $1000
        RMB     250
        FCB     1,2,3,4,5
""",
    "block256": """        NAM     B256
        ORG     $1000
        RMB     250
        FCB     1,2,3,4,5,6
""",
    "multi": """        NAM     BIGGER
        ORG     $2000
HEAD    LDA     #$55
        RMB     2296
        FCB     $AA,$BB
        RMB     2400
TAIL    RTS
""",
    "twoorg": """        NAM     TWICE
        ORG     $1000
        NOP
        ORG     $2000
        RTS
        NAM     AGAIN
""",
    "badmnemonic": """        NAM     BROKEN
        ORG     $1000
        FROB    #1
""",
    "badoperand": """        ORG     $1000
        LDA     #$12345
""",
}


def cli_suite(tree, work, wanted=None):
    """Assembles the programs through assembler.py with every output switch and lists what was written."""
    results = []
    for name, text in PROGRAMS.items():
        if wanted is not None and name not in wanted:
            continue
        folder = os.path.join(work, "cli_" + name)
        os.makedirs(folder)
        write_text(os.path.join(folder, "src.asm"), text)

        def step(label, script, arguments, watch):
            outcome = run_cli(tree, script, arguments, folder)
            outcome["files"] = {target: file_state(os.path.join(folder, target)) for target in watch}
            results.append(("cli/{}/{}".format(name, label), outcome))

        step("listing", "assembler.py", ["src.asm", "--print", "--symbols"], [])
        step("bin", "assembler.py", ["src.asm", "--to_bin", "a.bin"], ["a.bin"])
        step("cas", "assembler.py", ["src.asm", "--to_cas", "a.cas"], ["a.cas"])
        step("dsk", "assembler.py", ["src.asm", "--to_dsk", "a.dsk"], ["a.dsk"])
        step("named-all", "assembler.py",
             ["src.asm", "--name", "cliname", "--to_bin", "b.bin", "--to_cas", "b.cas", "--to_dsk", "b.dsk"],
             ["b.bin", "b.cas", "b.dsk"])
        step("again-no-append", "assembler.py",
             ["src.asm", "--name", "cliname", "--to_bin", "b.bin", "--to_cas", "b.cas", "--to_dsk", "b.dsk"],
             ["b.bin", "b.cas", "b.dsk"])
        step("again-append", "assembler.py",
             ["src.asm", "--name", "second", "--append", "--to_bin", "b.bin", "--to_cas", "b.cas",
              "--to_dsk", "b.dsk"],
             ["b.bin", "b.cas", "b.dsk"])
        step("cross-type", "assembler.py", ["src.asm", "--name", "x", "--append", "--to_cas", "b.dsk"], ["b.dsk"])
        for image in ("a.cas", "a.dsk", "b.cas", "b.dsk", "b.bin"):
            step("list-" + image, "file_util.py", [image, "--list"], [])
    return results

MINIMUM_CASES = 30


def cases(tree, work):
    from cocoasm.virtualfiles.source_file import SourceFile, SourceFileType
    from cocoasm.virtualfiles.virtual_file import VirtualFile, VirtualFileType
    from cocoasm.virtualfiles.binary import BinaryFile
    from cocoasm.virtualfiles.cassette import CassetteFile
    from cocoasm.virtualfiles.disk import DiskFile
    from cocoasm.virtualfiles.coco_file import CoCoFile
    from cocoasm.values import NumericValue

    results = []

    def record(name, value):
        results.append((name, value))

    # --- SourceFile: reading
    contents = {
        "empty": b"",
        "one": b"\x00",
        "ff": b"\xff",
        "all": bytes(range(256)),
        "text": b"        NAM X\n        ORG $1000\n",
        "crlf": b"LABEL   LDA #1\r\n\r\n; comment\r\n",
        "nonl": b"        RTS",
        "large": bytes((n * 7 + n // 256) & 0xFF for n in range(70000)),
    }
    for name, data in contents.items():
        path = os.path.join(work, "in_" + name)
        write_bytes(path, data)
        for kind in (SourceFileType.BINARY, SourceFileType.ASSEMBLY, None, "BINARY"):
            def read_it():
                source = SourceFile(path, file_type=kind) if kind != "default" else SourceFile(path)
                outcome = source.read_file()
                buffer = source.get_buffer()
                return outcome, type(buffer).__name__, buffer, [type(x).__name__ for x in buffer[:3]]
            record("source/read/{}/{}".format(name, kind), attempt(read_it))
        record("source/static-binary/" + name, attempt(SourceFile.read_binary_contents, path))
    write_bytes(os.path.join(work, "in_latin"), b"        FCC \"\xe9\"\n")
    record("source/read/latin/asm", attempt(lambda: SourceFile(os.path.join(work, "in_latin")).read_file()))

    os.makedirs(os.path.join(work, "a_directory"))
    for kind in (SourceFileType.BINARY, SourceFileType.ASSEMBLY, None):
        for target in ("missing_file", "a_directory", os.path.join("no_such_dir", "x"), "", None):
            def read_bad():
                source = SourceFile(target, file_type=kind)
                try:
                    return source.read_file(), source.get_buffer()
                except Exception as error:
                    return type(error).__name__, str(error), source.get_buffer()
            record("source/read-bad/{}/{}".format(kind, target), attempt(read_bad))

    # --- SourceFile: writing
    buffers = {
        "empty": [], "bytes": [0xDE, 0xAD, 0xBE, 0xEF], "all": list(range(256)), "tuple": (1, 2, 3),
        "bytearray": bytearray(b"abc"), "bytesobj": b"xyz", "toolarge": [1, 2, 256], "negative": [1, -1],
        "strings": ["a"], "none": None, "number": 5, "text": "abc", "floats": [1.0],
    }
    for name, buffer in buffers.items():
        for kind in (SourceFileType.BINARY, SourceFileType.ASSEMBLY, None):
            for existing in (False, True):
                def write_it():
                    path = os.path.join(work, "out_{}_{}_{}".format(name, kind, existing))
                    if existing:
                        write_bytes(path, b"previous contents")
                    source = SourceFile(path, file_type=kind)
                    source.set_buffer(buffer)
                    try:
                        outcome = ["returned", source.write_file()]
                    except Exception as error:
                        outcome = [type(error).__name__, str(error)]
                    return outcome, file_state(path)
                record("source/write/{}/{}/{}".format(name, kind, existing), attempt(write_it))
    record("source/write-bad/dir", attempt(SourceFile.write_binary_contents, os.path.join(work, "a_directory"), [1]))
    record("source/write-bad/nodir", attempt(SourceFile.write_binary_contents,
                                             os.path.join(work, "no_such_dir", "x"), [1]))

    # --- VirtualFileContainer construction
    for kind in (BinaryFile, CassetteFile, DiskFile):
        for name, given in (("none", None), ("emptylist", []), ("list", [1, 2, 3]), ("bytes", b"\x01\x02"),
                            ("emptybytes", b""), ("bytearray", bytearray(b"\x05\x06")), ("tuple", (4, 5)),
                            ("nested", [[1], [2]])):
            def construct():
                container = kind(buffer=given)
                same = container.buffer is given
                original = container.original_buffer
                shares = original is given or (given is not None and original is container.buffer)
                size = len(container.get_buffer())
                sample = list(container.get_buffer()[:8])
                if isinstance(given, list) and given:
                    given[0] = 99
                return (same, shares, size, sample, type(container.buffer).__name__, type(original).__name__,
                        list(original), container.buffer is original, list(container.get_buffer()[:8]))
            record("container/init/{}/{}".format(kind.__name__, name), attempt(construct))

    # --- read_word
    word_buffers = {
        "empty": [], "one": [0x12], "two": [0x12, 0x34], "five": [0x01, 0x02, 0xFF, 0x00, 0x80],
        "bytes": bytes([0xAA, 0xBB, 0xCC]), "strings": ["1", "2", "x"], "big": [300, 2, 1], "floats": [1.9, 2.9],
        "bools": [True, False, True],
    }
    for name, buffer in word_buffers.items():
        for pointer in (0, 1, 2, 3, 4, 5, -1, -2, -3, -6, 100, None, "1", 1.0):
            def word():
                container = CassetteFile(buffer=buffer)
                value = container.read_word(pointer)
                return type(value).__name__, value.int, value.hex(), value.hex_len(), value.size_hint
            record("container/read_word/{}/{}".format(name, pointer), attempt(word))

    # --- VirtualFile.get_coco_files / list_files on different kinds of host files
    def coco(name, data):
        return CoCoFile(name=name, extension="BIN", type=NumericValue(2), data_type=NumericValue(0),
                        load_addr=NumericValue(0x1000), exec_addr=NumericValue(0x1002), data=data)
    disk = DiskFile()
    disk.add_files([coco("FIRST", [1, 2, 3]), coco("SECOND", [4] * 3000)])
    tape = CassetteFile()
    tape.add_files([coco("TAPEONE", [9] * 10), coco("TAPETWO", [8] * 600)])
    images = {
        "disk": list(disk.get_buffer()),
        "disk-short": list(disk.get_buffer())[:161279],
        "disk-long": list(disk.get_buffer()) + [0] * 10,
        "tape": list(tape.get_buffer()),
        "tape-cut-header": list(tape.get_buffer())[:270],
        "tape-cut-data": list(tape.get_buffer())[:430],
        "tape-no-eof": list(tape.get_buffer())[:-6],
        "junk": [0x10, 0x20, 0x30],
        "nothing": [],
        "sync-only": [0x55, 0x3C, 0x00],
    }
    for name, image in images.items():
        path = os.path.join(work, "img_" + name)
        write_bytes(path, image)
        for declared in (None, VirtualFileType.DISK, VirtualFileType.CASSETTE, VirtualFileType.BINARY):
            def open_it():
                virtual = VirtualFile(SourceFile(path, file_type=SourceFileType.BINARY), declared)
                try:
                    virtual.open_virtual_file()
                    outcome = "opened"
                except Exception as error:
                    outcome = [type(error).__name__, str(error)]
                every = virtual.list_files()
                return (outcome, virtual.virtual_file_type, virtual.file_exists, [str(item) for item in every],
                        every is virtual.coco_file_list,
                        [item.name for item in virtual.list_files(["FIRST", "TAPETWO "])],
                        [item.name for item in virtual.list_files(("SECOND",))],
                        [item.name for item in virtual.list_files([])],
                        [item.name for item in virtual.list_files("TAPEONE FIRST")])
            record("virtual/open/{}/{}".format(name, declared), attempt(open_it))

        def detect():
            source = SourceFile(path, file_type=SourceFileType.BINARY)
            source.read_file()
            files, kind = VirtualFile(source).get_coco_files()
            return kind, [str(item) for item in files]
        record("virtual/detect/" + name, attempt(detect))

    results.extend(cli_suite(tree, work))
    return results


# ------------------------------------------------------------- comparison side

def driver(tree):
    tree = os.path.abspath(tree)
    sys.path.insert(0, tree)
    sys.dont_write_bytecode = True
    work = tempfile.mkdtemp(prefix="equiv_")
    previous = os.getcwd()
    os.chdir(work)
    try:
        results = cases(tree, work)
    finally:
        os.chdir(previous)
        shutil.rmtree(work, ignore_errors=True)
    text = json.dumps(results, sort_keys=True)
    sys.stdout.write(text.replace(work, "<WORK>").replace(tree, "<TREE>"))


def run_tree(tree):
    env = dict(os.environ, PYTHONDONTWRITEBYTECODE="1")
    env.pop("PYTHONPATH", None)
    done = subprocess.run([sys.executable, "-B", HERE, "--driver", os.path.abspath(tree)],
                          cwd=os.path.abspath(tree), env=env, stdout=subprocess.PIPE, stderr=subprocess.PIPE)
    if done.returncode != 0:
        sys.stderr.write(done.stderr.decode("utf-8", "replace"))
        raise SystemExit("driver failed for {}".format(tree))
    return json.loads(done.stdout.decode("utf-8"))


def main():
    if len(sys.argv) == 3 and sys.argv[1] == "--driver":
        driver(sys.argv[2])
        return 0
    if len(sys.argv) != 3:
        print("usage: equiv.py <treeA> <treeB>")
        return 2
    first, second = run_tree(sys.argv[1]), run_tree(sys.argv[2])
    names = [name for name, _ in first]
    if names != [name for name, _ in second]:
        print("DIFFERENT case lists")
        return 1
    if len(names) < MINIMUM_CASES:
        print("too few cases: {}".format(len(names)))
        return 1
    failures = 0
    for (name, left), (_, right) in zip(first, second):
        if left != right:
            failures += 1
            print("DIFFER {}\n  A: {}\n  B: {}".format(name, json.dumps(left)[:600], json.dumps(right)[:600]))
    print("{} cases compared, {} differ".format(len(names), failures))
    return 1 if failures else 0


if __name__ == "__main__":
    sys.exit(main())
