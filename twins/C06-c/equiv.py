#!/venv/bin/python
"""
Differential check for a refactoring of the CoCoAssembler cassette code.

usage: equiv.py <treeA> <treeB>

Runs the same driver (below) once per tree in a subprocess, with the tree as
cwd and at the front of sys.path, and compares every recorded observation.
Exits 0 when all observations agree, 1 otherwise.
"""
import json
import os
import subprocess
import sys
import tempfile

DRIVER = r'''
import io, json, os, sys, contextlib, itertools, random
tree, workdir = sys.argv[1], sys.argv[2]
sys.path.insert(0, tree)
os.chdir(tree)

from cocoasm.virtualfiles.cassette import CassetteFile
from cocoasm.virtualfiles.coco_file import CoCoFile
from cocoasm.virtualfiles.virtual_file_container import VirtualFileContainer
from cocoasm.values import NumericValue, NoneValue, AddressValue, StringValue
import file_util

RESULTS = []


def describe(coco_file):
    if coco_file is None:
        return None
    def hx(value):
        try:
            return value.hex()
        except Exception as error:
            return "!" + type(error).__name__
    try:
        text = str(coco_file)
    except Exception as error:
        text = "!{}:{}".format(type(error).__name__, error)
    return {
        "name": coco_file.name, "ext": coco_file.extension, "type": hx(coco_file.type),
        "data_type": hx(coco_file.data_type), "gaps": hx(coco_file.gaps),
        "load": hx(coco_file.load_addr), "exec": hx(coco_file.exec_addr),
        "ascii": coco_file.ascii, "data": list(coco_file.data), "ignore_gaps": coco_file.ignore_gaps,
        "str": text,
    }


def record(label, function):
    try:
        outcome = ["ok", function()]
    except BaseException as error:
        outcome = ["exc", type(error).__name__, str(error)]
    RESULTS.append([label, outcome])


def make_file(name, data, file_type=2, data_type=0, load=0x0E00, entry=0x0E00, **extra):
    return CoCoFile(name=name, extension="BIN", type=NumericValue(file_type), data_type=NumericValue(data_type),
                    gaps=NumericValue(0), load_addr=NumericValue(load), exec_addr=NumericValue(entry),
                    data=data, **extra)


def write_and_list(files, filenames=None):
    cassette = CassetteFile()
    cassette.add_files(files)
    image = list(cassette.get_buffer())
    listed = CassetteFile(buffer=list(image)).list_files(filenames)
    return {"image": image, "files": [describe(x) for x in listed]}


rng = random.Random(6809)
MARKERS = [0x55, 0x3C, 0x00, 0x55, 0x3C, 0x01, 0x55, 0x3C, 0xFF, 0x00, 0xFF, 0x55]

# 1. writer + reader round trips over lengths at the block boundaries
for length in [0, 1, 2, 127, 253, 254, 255, 256, 257, 509, 510, 511, 512, 764, 765, 766, 1020, 1275, 3000]:
    data = [rng.randrange(256) for _ in range(length)]
    record("roundtrip-random-%d" % length, lambda: write_and_list([make_file("F%d" % length, data)]))
    marker_data = (MARKERS * (length // len(MARKERS) + 1))[:length]
    record("roundtrip-markers-%d" % length, lambda: write_and_list([make_file("M%d" % length, marker_data)]))
    record("roundtrip-bytes-%d" % length, lambda: write_and_list([make_file("B%d" % length, bytes(data))]))

# 2. names of every length, odd characters, case
for name in ["", "A", "AB", "ABCDEFG", "ABCDEFGH", "ABCDEFGHI", "ABCDEFGHIJKL", "lower", "MiXeD.x", "~!@#$%^&", "\x00\x00AB",
             "café", "ĀBIG", "ÿþ"]:
    record("name-%r" % name, lambda: write_and_list([make_file(name, [1, 2, 3])]))

# 3. types, data types and addresses
for file_type, data_type in itertools.product([0, 1, 2, 3, 4, 0xFF], [0x00, 0xFF, 0x01]):
    record("types-%d-%d" % (file_type, data_type),
           lambda: write_and_list([make_file("T", [9, 8, 7], file_type=file_type, data_type=data_type)]))
for load, entry in [(0, 0), (1, 0xFF), (0xFF, 0x100), (0x100, 0xFFFF), (0xFFFF, 0x7FFF), (0x553C, 0x3C55), (0x10000, 5)]:
    record("addr-%X-%X" % (load, entry), lambda: write_and_list([make_file("ADDR", [0x55], load=load, entry=entry)]))
record("addr-addressvalue", lambda: write_and_list([CoCoFile(
    name="AV", extension="BIN", type=NumericValue(2), data_type=NumericValue(0), gaps=NumericValue(0),
    load_addr=AddressValue(0x1234), exec_addr=AddressValue(0x12), data=[1])]))

# 4. several files, name filters, empty list
many = [make_file("ONE", [1] * 10), make_file("TWO", [2] * 300, file_type=0, data_type=0xFF),
        make_file("THREE", [], file_type=1), make_file("FOUR", [4] * 255, file_type=3), make_file("ONE", [5])]
record("many", lambda: write_and_list(many))
record("many-empty-list", lambda: write_and_list([]))
for names in [[], ["ONE"], ["ONE     "], ["TWO     ", "FOUR    "], ["NOPE"], "ONE     ", ("THREE   ",)]:
    record("many-filter-%r" % (names,), lambda: write_and_list(many, names))

# 5. writer error cases: state of the buffer after the failure is part of the observation
def failing_write(coco_file):
    cassette = CassetteFile()
    try:
        cassette.add_file(coco_file)
        status = "ok"
    except Exception as error:
        status = "{}:{}".format(type(error).__name__, error)
    return {"status": status, "buffer": [x if isinstance(x, int) else repr(x) for x in cassette.get_buffer()]}

record("bad-defaults", lambda: failing_write(CoCoFile()))
record("bad-type-none", lambda: failing_write(CoCoFile(name="X", data=[1])))
record("bad-data-str", lambda: failing_write(make_file("X", [1, 2, "3", 4])))
record("bad-data-none", lambda: failing_write(make_file("X", None)))
record("bad-name-none", lambda: failing_write(make_file(None, [1])))
record("bad-name-int", lambda: failing_write(make_file(12, [1])))
record("bad-load-none", lambda: failing_write(CoCoFile(name="X", type=NumericValue(2), data_type=NumericValue(0),
                                                      exec_addr=NumericValue(1), data=[1])))
record("bad-data-big-int", lambda: failing_write(make_file("X", [1, 300, -1])))

def blocks(data, **kwargs):
    cassette = CassetteFile()
    try:
        result = cassette.append_data_blocks(data, **kwargs)
        status = "ok:%r" % (result,)
    except Exception as error:
        status = "{}:{}".format(type(error).__name__, error)
    return {"status": status, "buffer": [x if isinstance(x, int) else repr(x) for x in cassette.get_buffer()]}

for length in [0, 1, 254, 255, 256, 510, 511]:
    record("blocks-gaps-%d" % length, lambda: blocks([(x * 7) & 0xFF for x in range(length)], gaps=True))
    record("blocks-nogaps-%d" % length, lambda: blocks([(x * 7) & 0xFF for x in range(length)], gaps=False))
record("blocks-bad-element", lambda: blocks([1, 2, None, 4]))
record("blocks-bad-element-late", lambda: blocks([1] * 255 + ["x"], gaps=True))
record("blocks-str", lambda: blocks("AB"))

def single(method, *args):
    cassette = CassetteFile()
    result = getattr(cassette, method)(*args)
    return {"result": result, "buffer": list(cassette.get_buffer())}

for method in ["append_eof", "append_leader", "append_blank"]:
    record("single-" + method, lambda: single(method))
for name in ["", "AB", "ABCDEFGH", "ABCDEFGHIJ"]:
    record("single-append_name-%r" % name, lambda: single("append_name", name))
record("single-append_header", lambda: single("append_header", make_file("HDR", [1], load=0x1234, entry=0xABCD)))

# 6. reader on hand-built and damaged streams
def header_block(name=b"HELLO   ", file_type=2, data_type=0, gaps=0, load=0x0E00, entry=0x0E01):
    body = [0x00, 0x0F] + list(name) + [file_type, data_type, gaps, load >> 8, load & 0xFF, entry >> 8, entry & 0xFF]
    return [0x55, 0x3C] + body + [sum(body) & 0xFF, 0x55]

def data_block(payload):
    body = [0x01, len(payload)] + list(payload)
    return [0x55, 0x3C] + body + [sum(body) & 0xFF, 0x55]

EOF_BLOCK = [0x55, 0x3C, 0xFF, 0x00, 0xFF, 0x55]

def listing(stream, filenames=None):
    cassette = CassetteFile(buffer=stream)
    return [describe(x) for x in cassette.list_files(filenames)]

for leader in [0, 1, 2, 3, 128, 300]:
    stream = [0x55] * leader + header_block() + [0x55] * leader + data_block([1, 2, 3]) + EOF_BLOCK
    record("stream-leader-%d" % leader, lambda: listing(stream))
    record("stream-leader-bytes-%d" % leader, lambda: listing(bytes(stream)))
    record("stream-leader-bytearray-%d" % leader, lambda: listing(bytearray(stream)))
gapped = ([0x00] * 128 + [0x55] * 128 + header_block(gaps=0xFF) + [0x00] * 128 + [0x55] * 128
          + data_block([0x55, 0x3C, 0x00] * 85) + [0x00] * 5 + [0x55] * 128 + data_block([0x55, 0x3C, 0xFF]) + [0x55] * 9 + EOF_BLOCK)
record("stream-gapped", lambda: listing(gapped))
record("stream-gapped-twice", lambda: listing(gapped + [0, 0, 0] + gapped))
record("stream-empty", lambda: listing([]))
record("stream-none", lambda: listing(None))
record("stream-junk", lambda: listing([rng.randrange(256) for _ in range(500)]))
record("stream-no-data-block", lambda: listing(header_block() + EOF_BLOCK))
record("stream-empty-then-real", lambda: listing(header_block(name=b"EMPTY   ") + EOF_BLOCK + header_block() + data_block([9]) + EOF_BLOCK))
record("stream-header-only", lambda: listing(header_block()))
record("stream-missing-eof", lambda: listing(header_block() + data_block([1, 2])))
record("stream-unknown-block", lambda: listing(header_block() + [0x55, 0x3C, 0x02, 0x01, 0x00, 0x03, 0x55] + EOF_BLOCK))
record("stream-unknown-block-7F", lambda: listing(header_block() + data_block([1]) + [0x55, 0x3C, 0x7F]))
record("stream-zero-length-block", lambda: listing(header_block() + data_block([]) + data_block([5]) + EOF_BLOCK))
record("stream-name-not-utf8", lambda: listing(header_block(name=bytes([0xFF, 0xFE, 65, 66, 67, 68, 69, 70])) + data_block([1]) + EOF_BLOCK))
record("stream-name-nul", lambda: listing(header_block(name=b"AB\0\0\0\0\0\0") + data_block([1]) + EOF_BLOCK))
for file_type in [0, 1, 2, 3, 0x7F, 0xFF]:
    record("stream-type-%d" % file_type, lambda: listing(header_block(file_type=file_type, data_type=0xFF, gaps=0xFF) + data_block([1]) + EOF_BLOCK))
full = [0x55] * 4 + header_block() + [0x55] * 4 + data_block(list(range(255))) + data_block([3, 2, 1]) + EOF_BLOCK \
    + [0x55] * 4 + header_block(name=b"SECOND  ", file_type=0) + data_block([0x3C] * 20) + EOF_BLOCK
record("stream-full", lambda: listing(full))
for cut in list(range(0, 40)) + list(range(280, 300)) + list(range(len(full) - 60, len(full) + 1, 3)):
    record("stream-truncated-%d" % cut, lambda: listing(full[:cut]))
for names in [["HELLO   "], ["SECOND  "], ["hello   "], ["HELLO"], []]:
    record("stream-filter-%r" % names, lambda: listing(list(full), names))

# 7. the scanning primitives
scan = CassetteFile(buffer=[1, 0x55, 0x3C, 0x00, 0x55, 0x3C, 0x55, 0x3C, 0x01, 9])
for sequence in [[0x55, 0x3C], [0x55, 0x3C, 0x00], [0x55, 0x3C, 0x01], [9], [1], [], [7], [0x3C, 0x55, 0x3C, 0x01, 9, 9]]:
    for start in [0, 1, 2, 4, 5, 8, 9, 10, 11, 50, -1, -3]:
        record("skip-%r-%d" % (sequence, start), lambda: scan.skip_to_sequence(sequence, start=start))
    record("skip-%r-default" % (sequence,), lambda: scan.skip_to_sequence(sequence))
record("skip-empty-buffer", lambda: CassetteFile().skip_to_sequence([0x55]))
for start in [0, 1, 2, 3]:
    record("read_name-%d" % start, lambda: CassetteFile(buffer=list(b"xxABCDEFGHyy")).read_coco_file_name(start)[0:2])
record("read_name-short", lambda: CassetteFile(buffer=list(b"ABC")).read_coco_file_name(0))
for buffer in [[], [1], [1, 2], [1, 2, 3], [0xFF, 0xFF, 0x12, 0x34]]:
    for pointer in [0, 1, 2, 3, 4, -1, -2]:
        record("read_word-%r-%d" % (buffer, pointer), lambda: VirtualFileContainer(buffer=list(buffer)).read_word(pointer).hex())
def container_state(buffer):
    container = VirtualFileContainer(buffer=buffer)
    return [container.buffer, container.original_buffer, container.get_buffer() is buffer]
for buffer in [None, [], [1, 2], b"", b"ab", bytearray(b"ab")]:
    record("container-init-%r" % (buffer,), lambda: [repr(x) for x in container_state(buffer)])
def read_at(method, stream, pointer):
    cassette = CassetteFile(buffer=stream)
    result = getattr(cassette, method)(pointer)
    return [describe(result[0]) if method == "read_file" else result[0], result[1]]
for pointer in [0, 1, 10, 30, 284, 285, 299, len(full) - 7, len(full), len(full) + 5]:
    record("read_file-at-%d" % pointer, lambda: read_at("read_file", list(full), pointer))
    record("read_blocks-at-%d" % pointer, lambda: read_at("read_blocks", list(full), pointer))

# 8. presentation of CoCoFile
values = [NoneValue(), NumericValue(0), NumericValue(1), NumericValue(2), NumericValue(3), NumericValue(0xFF),
          NumericValue(2, size_hint=4), NumericValue(0x1234), AddressValue(2), StringValue('"A"'), None]
for index, (file_type, flag) in enumerate(itertools.product(values, values)):
    for ignore_gaps in [False, True]:
        record("str-%d-%s" % (index, ignore_gaps), lambda: str(CoCoFile(
            name="NAME", extension="EXT", type=file_type, data_type=flag, gaps=flag if index % 2 else values[index % 7],
            load_addr=values[(index + 3) % 10], exec_addr=values[(index + 5) % 11], data=[0] * index,
            ignore_gaps=ignore_gaps)))
record("str-defaults", lambda: str(CoCoFile()))
record("str-data-none", lambda: str(CoCoFile(type=NumericValue(2), data=None)))
record("str-name-objects", lambda: str(CoCoFile(name=None, extension=5, type=NumericValue(1))))
record("repr-defaults", lambda: repr(CoCoFile(name="Q", data=[1]))[:40])

# 9. the command-line front end
def cli(*argv, files=()):
    out = io.StringIO()
    code = None
    old_argv = sys.argv
    sys.argv = ["file_util.py"] + list(argv)
    try:
        with contextlib.redirect_stdout(out), contextlib.redirect_stderr(out):
            try:
                file_util.main(file_util.parse_arguments())
            except SystemExit as error:
                code = error.code
    finally:
        sys.argv = old_argv
    produced = {}
    for name in files:
        produced[name] = list(open(name, "rb").read()) if os.path.exists(name) else None
    return {"stdout": out.getvalue().replace(workdir, "<W>"), "exit": code, "files": {k.replace(workdir, "<W>"): v for k, v in produced.items()}}

def path(name):
    return os.path.join(workdir, name)

cassette = CassetteFile()
cassette.add_files(many)
open(path("many.cas"), "wb").write(bytearray(cassette.get_buffer()))
open(path("full.cas"), "wb").write(bytearray(full))
open(path("gapped.cas"), "wb").write(bytearray(gapped))
open(path("cut.cas"), "wb").write(bytearray(full[:290]))
open(path("junk.cas"), "wb").write(bytearray([1, 2, 3]))
open(path("empty.cas"), "wb").write(b"")
for name in ["many.cas", "full.cas", "gapped.cas", "cut.cas", "junk.cas", "empty.cas", "missing.cas"]:
    record("cli-list-" + name, lambda: cli(path(name), "--list"))
record("cli-to_cas", lambda: cli(path("full.cas"), "--to_cas", path("out1.cas"), files=[path("out1.cas")]))
record("cli-to_cas-exists", lambda: cli(path("full.cas"), "--to_cas", path("out1.cas"), files=[path("out1.cas")]))
record("cli-to_cas-append", lambda: cli(path("many.cas"), "--to_cas", path("out1.cas"), "--append", files=[path("out1.cas")]))
record("cli-to_cas-files", lambda: cli(path("many.cas"), "--to_cas", path("out2.cas"), "--files", "two", "FOUR", files=[path("out2.cas")]))
record("cli-to_bin-many", lambda: cli(path("many.cas"), "--to_bin", path("out3.bin"), files=[path("out3.bin")]))
record("cli-to_bin-gapped", lambda: cli(path("gapped.cas"), "--to_bin", path("out4.bin"), files=[path("out4.bin")]))
record("cli-to_dsk", lambda: cli(path("full.cas"), "--to_dsk", path("out5.dsk"), files=[path("out5.dsk")]))
record("cli-list-out1", lambda: cli(path("out1.cas"), "--list"))
record("cli-list-out5", lambda: cli(path("out5.dsk"), "--list"))

json.dump(RESULTS, sys.stdout)
'''


def run_tree(tree):
    tree = os.path.abspath(tree)
    with tempfile.TemporaryDirectory() as workdir:
        driver = os.path.join(workdir, "driver.py")
        with open(driver, "w") as handle:
            handle.write(DRIVER)
        scratch = os.path.join(workdir, "w")
        os.mkdir(scratch)
        env = dict(os.environ, PYTHONDONTWRITEBYTECODE="1", PYTHONHASHSEED="0")
        env.pop("PYTHONPATH", None)
        process = subprocess.run(
            [sys.executable, driver, tree, scratch], cwd=tree, env=env,
            stdout=subprocess.PIPE, stderr=subprocess.PIPE, text=True
        )
    if process.returncode != 0:
        print("driver failed in {}:\n{}".format(tree, process.stderr))
        sys.exit(1)
    return json.loads(process.stdout)


def main():
    if len(sys.argv) != 3:
        print(__doc__)
        sys.exit(2)
    results_a, results_b = run_tree(sys.argv[1]), run_tree(sys.argv[2])
    mismatches = 0
    if [x[0] for x in results_a] != [x[0] for x in results_b]:
        print("case lists differ")
        mismatches += 1
    for (label_a, outcome_a), (label_b, outcome_b) in zip(results_a, results_b):
        if outcome_a != outcome_b:
            mismatches += 1
            print("MISMATCH {}:\n  A: {}\n  B: {}".format(label_a, str(outcome_a)[:400], str(outcome_b)[:400]))
    errors = sum(1 for _, outcome in results_a if outcome[0] == "exc")
    print("{} cases compared ({} of them error cases), {} mismatches".format(len(results_a), errors, mismatches))
    sys.exit(1 if mismatches else 0)


if __name__ == "__main__":
    main()
