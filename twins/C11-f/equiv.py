#!/usr/bin/env python
"""
Differential demonstration: runs the same set of cases against two source trees
(one subprocess per tree, tree first on sys.path) and compares every observable
result.  Usage: equiv.py <treeA> <treeB>; exit status 0 when everything agrees.
"""
import json
import os
import shutil
import subprocess
import sys
import tempfile

HERE = os.path.abspath(__file__)


# ----------------------------------------------------------------- driver side

def norm(obj, depth=0):
    """Turns library objects into plain JSON-able data, without memory addresses."""
    if obj is None or isinstance(obj, (bool, int, float, str)):
        return obj
    if isinstance(obj, (bytes, bytearray)):
        return {"__bytes__": obj.hex()}
    if isinstance(obj, (list, tuple)):
        if len(obj) > 64 and all(isinstance(x, int) and not isinstance(x, bool) for x in obj):
            import hashlib
            return {"__ints__": len(obj), "sha": hashlib.sha256(repr(list(obj)).encode()).hexdigest(),
                    "head": list(obj[:16]), "tail": list(obj[-16:])}
        return [norm(x, depth + 1) for x in obj]
    if isinstance(obj, dict):
        return {str(k): norm(v, depth + 1) for k, v in obj.items()}
    if hasattr(obj, "_asdict") and depth < 6:
        return {"__nt__": type(obj).__name__, "fields": norm(obj._asdict(), depth + 1)}
    import enum
    if isinstance(obj, enum.Enum):
        return "enum:" + str(obj)
    if hasattr(obj, "__dict__") and depth < 6:
        return {"__obj__": type(obj).__name__,
                "attrs": {k: norm(v, depth + 1) for k, v in sorted(vars(obj).items())}}
    return "repr:" + type(obj).__name__


def attempt(fn, *args, **kwargs):
    """Calls fn and records either its normalised result or the exception type and message."""
    try:
        return ["ok", norm(fn(*args, **kwargs))]
    except SystemExit as error:
        return ["exit", repr(error.code)]
    except BaseException as error:  # noqa - we want to see everything
        return ["raised", type(error).__name__, str(error)]


def file_state(path):
    """The observable state of a file: absent, or its bytes."""
    if not os.path.exists(path):
        return None
    with open(path, "rb") as handle:
        data = handle.read()
    import hashlib
    return {"len": len(data), "sha": hashlib.sha256(data).hexdigest(), "head": data[:48].hex()}


def run_cli(tree, script, arguments, cwd):
    """Runs one of the command-line tools of the tree; tracebacks are reduced to their last line."""
    env = dict(os.environ, PYTHONDONTWRITEBYTECODE="1", PYTHONPATH=tree)
    done = subprocess.run([sys.executable, "-B", os.path.join(tree, script)] + list(arguments),
                          cwd=cwd, env=env, stdout=subprocess.PIPE, stderr=subprocess.PIPE, timeout=120)
    err = done.stderr.decode("utf-8", "replace").replace(tree, "<TREE>")
    if "Traceback (most recent call last)" in err:
        err = "TRACEBACK ... " + err.strip().splitlines()[-1]
    out = done.stdout.decode("utf-8", "replace").replace(tree, "<TREE>")
    return {"status": done.returncode, "stdout": out, "stderr": err}


def write_text(path, text):
    with open(path, "w") as handle:
        handle.write(text)


def write_bytes(path, data):
    with open(path, "wb") as handle:
        handle.write(bytes(data))


# ------------------------------------------------------------ shared CLI cases

PROGRAMS = {
    "hello": """        NAM     hello
        ORG     $0E00
START   LDA     #$01
        LDX     #MSG
LOOP    LDA     ,X+
        BEQ     DONE
        JSR     [$A002]
        BRA     LOOP
DONE    RTS
MSG     FCC     "HELLO WORLD"
        FCB     0
        END     START
""",
    "noname": """        ORG     $3F00
BEGIN   LDD     #$1234
        STD     $0400
        LEAX    TABLE,PCR
        RTS
TABLE   FDB     $0102,$0304,$FFFE
""",
    "longname": """        NAM     LongProgName
        ORG     $7000
        LDA     <$10
        STA     >$0010
        PSHS    A,B,X
        PULS    A,B,X,PC
""",
    "noorg": """        NAM     FLAT
        CLRA
        CLRB
LOOP    INCA
        BNE     LOOP
        RTS
""",
    "high": """        NAM     TOPMEM
        ORG     $FF00
        LDX     #$FFFE
        LDA     ,X
        RTS
""",
    "block255": """        NAM     B255
        ORG     $1000
        RMB     250
        FCB     1,2,3,4,5
""",
    "block256": """        NAM     B256
        ORG     $1000
        RMB     250
        FCB     1,2,3,4,5,6
""",
    "multi": """        NAM     BIGGER
        ORG     $2000
HEAD    LDA     #$55
        RMB     2296
        FCB     $AA,$BB
        RMB     2400
TAIL    RTS
""",
    "twoorg": """        NAM     TWICE
        ORG     $1000
        NOP
        ORG     $2000
        RTS
        NAM     AGAIN
""",
    "badmnemonic": """        NAM     BROKEN
        ORG     $1000
        FROB    #1
""",
    "badoperand": """        ORG     $1000
        LDA     #$12345
""",
}


def cli_suite(tree, work, wanted=None):
    """Assembles the programs through assembler.py with every output switch and lists what was written."""
    results = []
    for name, text in PROGRAMS.items():
        if wanted is not None and name not in wanted:
            continue
        folder = os.path.join(work, "cli_" + name)
        os.makedirs(folder)
        write_text(os.path.join(folder, "src.asm"), text)

        def step(label, script, arguments, watch):
            outcome = run_cli(tree, script, arguments, folder)
            outcome["files"] = {target: file_state(os.path.join(folder, target)) for target in watch}
            results.append(("cli/{}/{}".format(name, label), outcome))

        step("listing", "assembler.py", ["src.asm", "--print", "--symbols"], [])
        step("bin", "assembler.py", ["src.asm", "--to_bin", "a.bin"], ["a.bin"])
        step("cas", "assembler.py", ["src.asm", "--to_cas", "a.cas"], ["a.cas"])
        step("dsk", "assembler.py", ["src.asm", "--to_dsk", "a.dsk"], ["a.dsk"])
        step("named-all", "assembler.py",
             ["src.asm", "--name", "cliname", "--to_bin", "b.bin", "--to_cas", "b.cas", "--to_dsk", "b.dsk"],
             ["b.bin", "b.cas", "b.dsk"])
        step("again-no-append", "assembler.py",
             ["src.asm", "--name", "cliname", "--to_bin", "b.bin", "--to_cas", "b.cas", "--to_dsk", "b.dsk"],
             ["b.bin", "b.cas", "b.dsk"])
        step("again-append", "assembler.py",
             ["src.asm", "--name", "second", "--append", "--to_bin", "b.bin", "--to_cas", "b.cas",
              "--to_dsk", "b.dsk"],
             ["b.bin", "b.cas", "b.dsk"])
        step("cross-type", "assembler.py", ["src.asm", "--name", "x", "--append", "--to_cas", "b.dsk"], ["b.dsk"])
        for image in ("a.cas", "a.dsk", "b.cas", "b.dsk", "b.bin"):
            step("list-" + image, "file_util.py", [image, "--list"], [])
    return results

MINIMUM_CASES = 30


def cases(tree, work):
    import argparse
    import contextlib
    import importlib
    import io
    import itertools

    results = cli_suite(tree, work)

    # --- every combination of the output switches, with and without a name, in a fresh folder each time
    sources = {"named": PROGRAMS["hello"], "anonymous": PROGRAMS["noname"]}
    switches = (("--to_bin", "o.bin"), ("--to_cas", "o.cas"), ("--to_dsk", "o.dsk"))
    number = 0
    for source_name, text in sources.items():
        for count in range(0, 4):
            for chosen in itertools.permutations(switches, count):
                for extra in ([], ["--name", "Given"], ["--symbols", "--print"]):
                    number += 1
                    folder = os.path.join(work, "combo{}".format(number))
                    os.makedirs(folder)
                    write_text(os.path.join(folder, "s.asm"), text)
                    arguments = ["s.asm"] + [part for pair in chosen for part in pair] + extra
                    outcome = run_cli(tree, "assembler.py", arguments, folder)
                    outcome["files"] = {name: file_state(os.path.join(folder, name)) for _, name in switches}
                    results.append(("combo/{}/{}".format(source_name, " ".join(arguments[1:])), outcome))

    # --- targets that cannot be written or are of the wrong kind, and odd argument values
    folder = os.path.join(work, "trouble")
    os.makedirs(os.path.join(folder, "adir"))
    write_text(os.path.join(folder, "s.asm"), PROGRAMS["hello"])
    write_text(os.path.join(folder, "n.asm"), PROGRAMS["noname"])
    write_bytes(os.path.join(folder, "junk.bin"), b"\x01\x02\x03")
    trouble = [
        ["s.asm", "--to_bin", "adir"], ["s.asm", "--to_cas", "adir"], ["s.asm", "--to_dsk", "adir"],
        ["s.asm", "--to_bin", "nodir/x.bin", "--to_cas", "nodir/x.cas", "--to_dsk", "nodir/x.dsk"],
        ["s.asm", "--to_cas", "junk.bin"], ["s.asm", "--to_dsk", "junk.bin", "--append"],
        ["s.asm", "--to_bin", "junk.bin"], ["s.asm", "--to_bin", "junk.bin", "--append"],
        ["s.asm", "--to_bin", "", "--to_cas", "", "--to_dsk", ""],
        ["n.asm", "--to_cas", "", "--to_dsk", "e.dsk"], ["n.asm", "--name", "", "--to_dsk", "e2.dsk"],
        ["n.asm", "--to_bin", "adir", "--to_cas", "never.cas"],
        ["s.asm", "--width", "40", "--print"], ["s.asm", "--symbols"], ["s.asm"], ["missing.asm", "--to_bin", "m.bin"],
        ["s.asm", "--to_dsk", "t.dsk", "--name", "IGNORED"], ["s.asm", "--to_dsk", "t.dsk", "--append"],
        ["n.asm", "--to_dsk", "t.dsk", "--append", "--name", "abcdefghijkl"], ["s.asm", "--to_cas", "t.dsk"],
        ["--help"], ["s.asm", "--to_tape", "x"],
    ]
    watched = ["adir", "junk.bin", "e.dsk", "e2.dsk", "never.cas", "m.bin", "t.dsk"]
    for arguments in trouble:
        outcome = run_cli(tree, "assembler.py", arguments, folder)
        outcome["files"] = {name: (file_state(os.path.join(folder, name))
                                   if not os.path.isdir(os.path.join(folder, name)) else "directory")
                            for name in watched}
        results.append(("trouble/" + " ".join(arguments), outcome))
    results.append(("trouble/list t.dsk", run_cli(tree, "file_util.py", ["t.dsk", "--list"], folder)))

    # --- main() called in process with hand made namespaces
    assembler = importlib.import_module("assembler")
    folder = os.path.join(work, "inproc")
    os.makedirs(folder)
    os.chdir(folder)
    write_text("s.asm", PROGRAMS["longname"])
    write_text("n.asm", PROGRAMS["noname"])
    write_text("bad.asm", PROGRAMS["badmnemonic"])
    base = dict(filename="s.asm", symbols=False, print=False, to_bin=None, to_cas=None, to_dsk=None, name=None,
                append=False, width=100)
    variations = [
        {}, {"symbols": True}, {"print": True}, {"to_bin": "i.bin"}, {"to_cas": "i.cas"}, {"to_dsk": "i.dsk"},
        {"to_bin": "i.bin"}, {"to_bin": "i.bin", "append": True}, {"to_cas": "i.cas", "append": 1},
        {"filename": "n.asm", "to_cas": "j.cas"}, {"filename": "n.asm", "to_bin": "j.bin", "to_dsk": "j.dsk"},
        {"filename": "n.asm", "name": "viaarg", "to_cas": "j.cas", "to_dsk": "j.dsk", "symbols": True},
        {"filename": "n.asm", "name": 0, "to_cas": "k.cas"}, {"filename": "bad.asm", "to_bin": "bad.bin"},
        {"to_bin": 0, "to_cas": [], "to_dsk": ()}, {"to_bin": 5.5}, {"to_dsk": ["x"]},
    ]
    for index, variation in enumerate(variations):
        def call_main():
            arguments = argparse.Namespace(**dict(base, **variation))
            stream = io.StringIO()
            with contextlib.redirect_stdout(stream):
                try:
                    returned = ["returned", assembler.main(arguments)]
                except SystemExit as error:
                    returned = ["exit", repr(error.code)]
                except Exception as error:
                    returned = [type(error).__name__, str(error)]
            return returned, stream.getvalue(), {name: file_state(name) for name in sorted(os.listdir("."))}
        results.append(("inproc/{}/{}".format(index, sorted(variation.items())), attempt(call_main)))
    results.append(("inproc/table", attempt(lambda: sorted(name for name in vars(assembler)
                                                           if name in ("main", "parse_arguments", "throw_error")))))
    os.chdir(work)
    return results


# ------------------------------------------------------------- comparison side

def driver(tree):
    tree = os.path.abspath(tree)
    sys.path.insert(0, tree)
    sys.dont_write_bytecode = True
    work = tempfile.mkdtemp(prefix="equiv_")
    previous = os.getcwd()
    os.chdir(work)
    try:
        results = cases(tree, work)
    finally:
        os.chdir(previous)
        shutil.rmtree(work, ignore_errors=True)
    text = json.dumps(results, sort_keys=True)
    sys.stdout.write(text.replace(work, "<WORK>").replace(tree, "<TREE>"))


def run_tree(tree):
    env = dict(os.environ, PYTHONDONTWRITEBYTECODE="1")
    env.pop("PYTHONPATH", None)
    done = subprocess.run([sys.executable, "-B", HERE, "--driver", os.path.abspath(tree)],
                          cwd=os.path.abspath(tree), env=env, stdout=subprocess.PIPE, stderr=subprocess.PIPE)
    if done.returncode != 0:
        sys.stderr.write(done.stderr.decode("utf-8", "replace"))
        raise SystemExit("driver failed for {}".format(tree))
    return json.loads(done.stdout.decode("utf-8"))


def main():
    if len(sys.argv) == 3 and sys.argv[1] == "--driver":
        driver(sys.argv[2])
        return 0
    if len(sys.argv) != 3:
        print("usage: equiv.py <treeA> <treeB>")
        return 2
    first, second = run_tree(sys.argv[1]), run_tree(sys.argv[2])
    names = [name for name, _ in first]
    if names != [name for name, _ in second]:
        print("DIFFERENT case lists")
        return 1
    if len(names) < MINIMUM_CASES:
        print("too few cases: {}".format(len(names)))
        return 1
    failures = 0
    for (name, left), (_, right) in zip(first, second):
        if left != right:
            failures += 1
            print("DIFFER {}\n  A: {}\n  B: {}".format(name, json.dumps(left)[:600], json.dumps(right)[:600]))
    print("{} cases compared, {} differ".format(len(names), failures))
    return 1 if failures else 0


if __name__ == "__main__":
    sys.exit(main())
