#!/usr/bin/env python
"""
Differential demonstration: runs the same inputs through the code of two source
trees (one subprocess per tree, the tree first on sys.path and as cwd) and
compares every observable result.

usage: equiv.py <treeA> <treeB>      exit 0 = all cases agree, 1 = a difference
"""
import json
import os
import subprocess
import sys
import tempfile

WORKER = r'''
import contextlib, io, json, os, subprocess, sys, tempfile

tree = os.path.abspath(sys.argv[1])
sys.path.insert(0, tree)
os.chdir(tree)
cases = json.load(sys.stdin)

from cocoasm.program import Program


def describe_exc(error):
    info = {"type": type(error).__name__, "str": str(error)}
    if hasattr(error, "value"):
        info["value"] = str(error.value)
    statement = getattr(error, "statement", None)
    if statement is not None:
        try:
            info["statement"] = str(statement)
        except Exception as inner:
            info["statement"] = "unprintable " + type(inner).__name__
    return info


def guarded(function):
    try:
        return function()
    except Exception as error:
        return {"error": describe_exc(error)}


def observe_program(lines):
    program = Program()
    try:
        program.process(lines)
    except Exception as error:
        return {"error": describe_exc(error)}
    return {
        "binary": guarded(program.get_binary_array),
        "listing": guarded(program.get_statements),
        "symbols": guarded(program.get_symbol_table),
        "origin": guarded(lambda: program.origin.hex()),
        "name": program.name,
        "detail": guarded(lambda: [
            [s.code_pkg.size, s.code_pkg.max_size, s.fixed_size, s.pcr_size_hint,
             type(s.operand).__name__, list(s.code_pkg.post_byte_choices),
             s.code_pkg.additional_needs_resolution, s.code_pkg.op_code.hex(),
             s.code_pkg.post_byte.hex(), s.code_pkg.additional.hex(), s.code_pkg.address.hex()]
            for s in program.statements]),
    }


def observe_call(code):
    namespace = {}
    try:
        exec(code, namespace)
        return {"result": namespace.get("result")}
    except Exception as error:
        return {"error": describe_exc(error)}


def observe_cli(lines, args, tool="assembler.py", extra_files=None):
    with tempfile.TemporaryDirectory() as work:
        with open(os.path.join(work, "prog.asm"), "w") as handle:
            handle.writelines(lines)
        for name, text in (extra_files or {}).items():
            with open(os.path.join(work, name), "w") as handle:
                handle.write(text)
        before = set(os.listdir(work))
        done = subprocess.run(
            [sys.executable, os.path.join(tree, tool)] + args,
            cwd=work, capture_output=True, text=True,
            env=dict(os.environ, PYTHONPATH=tree, PYTHONDONTWRITEBYTECODE="1"),
        )
        files = {}
        for name in sorted(set(os.listdir(work)) - before):
            with open(os.path.join(work, name), "rb") as handle:
                files[name] = handle.read().hex()
        stderr_tail = done.stderr.strip().splitlines()[-1:] if done.stderr.strip() else []
        return {"code": done.returncode, "stdout": done.stdout, "stderr_tail": stderr_tail, "files": files}


results = []
for case in cases:
    kind = case["kind"]
    if kind == "program":
        results.append(observe_program(case["lines"]))
    elif kind == "call":
        results.append(observe_call(case["code"]))
    elif kind == "cli":
        results.append(observe_cli(case["lines"], case["args"], case.get("tool", "assembler.py"),
                                   case.get("extra_files")))
    else:
        raise SystemExit("unknown case kind " + kind)
json.dump(results, sys.stdout)
'''


def prog(*lines):
    """A program case; every line gets its newline like a line read from a file."""
    return {"kind": "program", "lines": [line + "\n" for line in lines]}


def call(code):
    """A direct library call; the snippet leaves a JSON-friendly value in `result`."""
    return {"kind": "call", "code": code}


def cli(lines, args=("prog.asm", "--print", "--symbols", "--to_bin", "out.bin"), extra_files=None):
    return {"kind": "cli", "lines": [line + "\n" for line in lines], "args": list(args),
            "extra_files": extra_files}


def run_tree(tree, cases):
    with tempfile.TemporaryDirectory() as work:
        worker = os.path.join(work, "worker.py")
        with open(worker, "w") as handle:
            handle.write(WORKER)
        done = subprocess.run(
            [sys.executable, worker, tree], input=json.dumps(cases), capture_output=True, text=True,
            cwd=tree, env=dict(os.environ, PYTHONDONTWRITEBYTECODE="1"),
        )
    if done.returncode != 0:
        print("worker failed for", tree)
        print(done.stderr)
        sys.exit(1)
    return json.loads(done.stdout)


def main(cases):
    if len(sys.argv) != 3:
        print(__doc__)
        sys.exit(2)
    tree_a, tree_b = (os.path.abspath(p) for p in sys.argv[1:3])
    results_a = run_tree(tree_a, cases)
    results_b = run_tree(tree_b, cases)
    differences = 0
    accepted = 0
    for number, (case, a, b) in enumerate(zip(cases, results_a, results_b)):
        if "error" not in a:
            accepted += 1
        if a != b:
            differences += 1
            print("DIFFERENCE in case", number, json.dumps(case)[:300])
            print("   A:", json.dumps(a)[:600])
            print("   B:", json.dumps(b)[:600])
    print("{} cases, {} without error in tree A, {} differences".format(len(cases), accepted, differences))
    sys.exit(1 if differences or len(results_a) != len(cases) or len(results_b) != len(cases) else 0)


# ---------------------------------------------------------------------------
# cases
# ---------------------------------------------------------------------------
CASES = []

EXPRESSIONS = ["NEAR+1", "NEAR-1", "1+NEAR", "1-NEAR", "NEAR*2", "2*NEAR", "NEAR/2", "2/NEAR", "NEAR/0", "0/NEAR", "NEAR+0",
               "NEAR-0", "FAR+1", "FAR-1", "FAR+$10", "FAR-$100", "FAR*3", "FAR/3", "FAR/7", "$FFFF/FAR", "FAR-NEAR", "NEAR-FAR",
               "NEAR+FAR", "FAR/NEAR", "FAR+FIVE", "FIVE+FAR", "FAR-FIVE", "FAR*FIVE", "FAR/FIVE", "FAR+65535", "FAR*40",
               "NEAR+NOWHERE", "HERE+2", "HERE-2"]
FORMS = ["{},PCR", "[{},PCR]", "{}", "#{}"]

for origin in ("$0", "$4000"):
    for expression in EXPRESSIONS:
        lines = ["FIVE  EQU 5", "      ORG " + origin, "NEAR  NOP "]
        for position, form in enumerate(FORMS):
            label = "HERE  " if position == 0 else "      "
            lines.append(label + "LDX " + form.format(expression))
        lines += ["      RMB 120", "FAR   RTS "]
        CASES.append(prog(*lines))
        CASES.append(prog("FIVE  EQU 5", "      ORG " + origin, "NEAR  NOP ", "HERE  LEAY {},PCR".format(expression), "      RMB 120",
                          "FAR   RTS "))

# label+constant right at the 8/16 bit limits of the PCR forms, both directions
for gap in (118, 119, 120, 121, 122, 123, 124, 125, 126, 127, 128, 129):
    CASES.append(prog("BACK  NOP ", "      LDA AHEAD+1,PCR", "      LDA AHEAD-1,PCR", "      RMB {}".format(gap), "AHEAD LDB BACK+2,PCR",
                      "      LDB [BACK-1,PCR]", "      LDB [AHEAD+3,PCR]"))

for expression in EXPRESSIONS[:12]:
    CASES.append(prog("      ORG $10", "NEAR  NOP ", "      LDA [{}]".format(expression)))

CASES.append(cli(["      NAM EXPR", "      ORG $1000", "START LEAX TABLE+2,PCR", "      LDD [TABLE+4,PCR]", "      LDU #TABLE-1",
                  "      JMP START+3", "TABLE FDB 1,2,3", "      END START"]))

CASES.append(call('''
from cocoasm.values import ExpressionValue, AddressValue, NumericValue
result = []

class Package(object):
    def __init__(self, address):
        self.address = NumericValue(address)

class Placed(object):
    def __init__(self, address):
        self.code_pkg = Package(address)

statements = [Placed(a) for a in (0, 7, 300, 4096, 65535)]
for text in ("1+2", "9-4", "3*3", "9/2", "9/0", "$10+1", "300-1"):
    for left_is_label in (True, False):
        for index in range(6):
            expression = ExpressionValue(text)
            try:
                if left_is_label:
                    expression.left = AddressValue(index)
                else:
                    expression.right = AddressValue(index)
                result.append([text, left_is_label, index, expression.extract_address_index_from_expression()])
                value = expression.calculate_address_offset(statements)
                result.append([value.int, value.hex(), value.hex_len(), value.size_hint, value.is_negative(),
                               value.explict_addressing_mode.name, type(value).__name__])
            except Exception as error:
                result.append([type(error).__name__, str(error)])
for operation in ("+", "-", "*", "/", "%", ""):
    expression = ExpressionValue("5+6")
    expression.left = AddressValue(2)
    expression.operation = operation
    value = expression.calculate_address_offset(statements)
    result.append([operation, value.int, value.hex()])
'''))
CASES.append(call('''
from cocoasm.program import Program
result = []
program = Program()
program.statements = Program.parse(["HERE  LDA THERE+1,PCR\\n", "      LDX HERE,PCR\\n", "      LDY [THERE-1,PCR]\\n", "      LDA 5,PCR\\n",
                                    "      LDA ,X\\n", "THERE RTS \\n"])
program.statements = program.process_mnemonics(program.statements)
for index, statement in enumerate(program.statements):
    program.save_symbol(index, statement)
for statement in program.statements:
    statement.resolve_symbols(program.symbol_table)
    statement.translate()
for statement in program.statements:
    if statement.fixed_size:
        result.append([statement.fixed_size, statement.code_pkg.size])
        continue
    if hasattr(statement, "pcr_target_index"):
        target = statement.pcr_target_index()
    else:
        target = statement.code_pkg.additional.int
        if statement.operand.left.is_address_expression():
            target = statement.operand.left.extract_address_index_from_expression()
    result.append([statement.fixed_size, target])
'''))

main(CASES)
