#!/venv/bin/python
"""Differential check of DiskFile.add_file (allocation loop, refusals) between two trees.
usage: equiv.py <treeA> <treeB>; exit 0 if every observable result agrees."""
import json
import subprocess
import sys

DRIVER = r'''
import sys, os, json, hashlib, random, tempfile, subprocess, shutil
tree = sys.argv[1]
sys.path.insert(0, tree)
os.chdir(tree)
from cocoasm.virtualfiles.disk import DiskFile, DiskConstants
from cocoasm.virtualfiles.coco_file import CoCoFile
from cocoasm.virtualfiles.cassette import CassetteFile
from cocoasm.virtualfiles.virtual_file import VirtualFile, VirtualFileType
from cocoasm.virtualfiles.source_file import SourceFile, SourceFileType
from cocoasm.values import NumericValue

results = []

def digest(buf):
    return hashlib.sha256(bytes(buf)).hexdigest()

def fat_and_dir(buf):
    fat = list(buf[DiskConstants.FAT_OFFSET:DiskConstants.FAT_OFFSET + 256])
    used_slots = [n for n in range(72) if buf[DiskConstants.DIR_OFFSET + 32 * n] not in (0x00, 0xFF)]
    return [fat, used_slots]

def listing(buf):
    try:
        files = DiskFile(buffer=list(buf)).list_files()
        return [[f.name, f.extension, f.type.hex(), f.data_type.hex(), f.load_addr.hex(), f.exec_addr.hex(),
                 len(f.data), hashlib.md5(bytes(f.data)).hexdigest()] for f in files]
    except BaseException as e:
        return ["EXC", type(e).__name__, str(e)]

def record(label, fn):
    try:
        results.append([label, "ok", fn()])
    except BaseException as e:
        results.append([label, "exc", type(e).__name__, str(e)])

def make_file(kind, length, n=0, seed=0):
    rnd = random.Random(length * 31 + seed + n)
    data = [rnd.randrange(256) for _ in range(length)]
    name = "F%d" % n
    if kind == "ml":
        return CoCoFile(name=name, extension="BIN", type=NumericValue(2), data_type=NumericValue(0),
                        load_addr=NumericValue(0x0E00 + n), exec_addr=NumericValue(0x0E10 + n), data=data)
    if kind == "bas":
        return CoCoFile(name=name, extension="BAS", type=NumericValue(0), data_type=NumericValue(0), data=data)
    return CoCoFile(name=name, extension="TXT", type=NumericValue(1), data_type=NumericValue(0xFF), data=data)

def add_all(disk, files):
    """adds one by one, recording outcome and FAT/directory state after every step (also after a refusal)"""
    out = []
    for f in files:
        try:
            ret = disk.add_file(f)
            out.append(["added", repr(ret)])
        except BaseException as e:
            out.append(["refused", type(e).__name__, str(e)])
        out.append(hashlib.md5(json.dumps(fat_and_dir(disk.get_buffer())).encode()).hexdigest())
    buf = disk.get_buffer()
    return [out, len(buf), digest(buf), fat_and_dir(buf), listing(buf)]

def perm(seed):
    order = list(range(68))
    random.Random(seed).shuffle(order)
    return order

# 1. one file on an empty image: exact granule counts at the boundaries
for kind in ("ml", "bas", "asc"):
    for length in (0, 1, 2293, 2294, 2295, 2299, 2300, 2301, 2303, 2304, 2305, 4598, 4599, 4603, 4604, 4608, 65535):
        record("single/%s/%d" % (kind, length),
               lambda kind=kind, length=length: add_all(DiskFile(), [make_file(kind, length)]))

# 2. files too large for an empty disk / exactly the whole disk
for length in (68 * 2304 - 11, 68 * 2304 - 10, 68 * 2304 - 9, 68 * 2304, 67 * 2304 - 10, 67 * 2304 - 11):
    record("huge/ml/%d" % length, lambda length=length: add_all(DiskFile(), [make_file("ml", length)]))
    record("huge/asc/%d" % length, lambda length=length: add_all(DiskFile(granule_fill_order=perm(3)), [make_file("asc", length)]))

# 3. slot exhaustion: many small files, keep going after the first refusal
for kind, length, order in (("ml", 10, None), ("bas", 0, None), ("asc", 300, perm(1)), ("ml", 2294, perm(2))):
    record("slots/%s/%d" % (kind, length),
           lambda kind=kind, length=length, order=order:
           add_all(DiskFile(granule_fill_order=order), [make_file(kind, length, n) for n in range(76)]))

# 4. granule exhaustion: few large files, then small ones that still fit or not
for seed, (kind, length) in enumerate((("ml", 9000), ("bas", 2304 * 17 - 3), ("asc", 2304 * 34), ("ml", 2304 * 33), ("bas", 30000))):
    def case(seed=seed, kind=kind, length=length):
        order = perm(seed) if seed % 2 else None
        files = [make_file(kind, length, n) for n in range(6)] + [make_file("ml", 100, 10 + n) for n in range(4)]
        return add_all(DiskFile(granule_fill_order=order), files)
    record("granules/%s/%d" % (kind, length), case)

# 5. random mixtures from empty to full
for seed in range(10):
    def case(seed=seed):
        rnd = random.Random(1000 + seed)
        order = perm(seed) if seed % 2 else None
        files = [make_file(rnd.choice(["ml", "bas", "asc"]), rnd.choice([0, 50, 2294, 2304, 5000, 12000, 23040]), n, seed)
                 for n in range(40)]
        return add_all(DiskFile(granule_fill_order=order), files)
    record("mixture/%d" % seed, case)

# 6. odd fill orders and pre-used images
record("fillorder/short", lambda: add_all(DiskFile(granule_fill_order=[1, 2, 3]), [make_file("ml", 10)]))
record("fillorder/67", lambda: add_all(DiskFile(granule_fill_order=list(range(67))), [make_file("ml", 10)]))
record("fillorder/bad-number", lambda: add_all(DiskFile(granule_fill_order=[68] + list(range(67))), [make_file("ml", 10)]))
record("fillorder/dups", lambda: add_all(DiskFile(granule_fill_order=[5] * 68), [make_file("ml", 3000), make_file("ml", 1, 1)]))
record("fillorder/long", lambda: add_all(DiskFile(granule_fill_order=list(range(68)) + list(range(68))), [make_file("bas", 5000)]))
def preused(free, slots_used):
    buf = [0xFF] * DiskConstants.IMAGE_SIZE
    for g in range(68):
        if g not in free:
            buf[DiskConstants.FAT_OFFSET + g] = 0xC1
    for n in range(slots_used):
        buf[DiskConstants.DIR_OFFSET + 32 * n] = 0x41
    return buf
record("preused/one-free", lambda: add_all(DiskFile(buffer=preused({40}, 0)), [make_file("ml", 2294), make_file("ml", 1, 1)]))
record("preused/one-free-needs-two", lambda: add_all(DiskFile(buffer=preused({40}, 0)), [make_file("ml", 2295)]))
record("preused/none-free", lambda: add_all(DiskFile(buffer=preused(set(), 0)), [make_file("asc", 0)]))
record("preused/slots-70", lambda: add_all(DiskFile(buffer=preused(set(range(68)), 70)), [make_file("ml", 5, n) for n in range(3)]))
record("preused/slots-71", lambda: add_all(DiskFile(buffer=preused(set(range(68)), 71)), [make_file("ml", 5, n) for n in range(3)]))
record("preused/slots-72", lambda: add_all(DiskFile(buffer=preused(set(range(68)), 72)), [make_file("ml", 5000)]))
record("preused/both-out", lambda: add_all(DiskFile(buffer=preused({3}, 72)), [make_file("ml", 5000), make_file("ml", 5, 1)]))
record("preused/free-67", lambda: add_all(DiskFile(buffer=preused({67}, 0)), [make_file("ml", 2298)]))
record("add_files", lambda: (lambda d: [repr(d.add_files([make_file("ml", 100, n) for n in range(5)])), digest(d.get_buffer())])(DiskFile()))

# 7. host file handling through VirtualFile and file_util.py
tmp = tempfile.mkdtemp()
def save(name, files, append, preexisting):
    path = os.path.join(tmp, name)
    if preexisting is not None:
        with open(path, "wb") as fh:
            fh.write(preexisting)
    vf = VirtualFile(SourceFile(path, file_type=SourceFileType.BINARY), virtual_file_type=VirtualFileType.DISK)
    out = []
    try:
        vf.open_virtual_file()
        for f in files:
            vf.add_coco_file(f)
        out.append(repr(vf.save_virtual_file(append_mode=append)))
    except BaseException as e:
        out.append([type(e).__name__, str(e).replace(tmp, "<tmp>")])
    if os.path.exists(path):
        data = open(path, "rb").read()
        out.append([len(data), digest(data), listing(data) if len(data) == DiskConstants.IMAGE_SIZE else None])
    else:
        out.append("no file")
    return out
small = DiskFile(); small.add_file(make_file("ml", 700, 99)); small_image = bytes(small.get_buffer())
record("host/new-fits", lambda: save("a.dsk", [make_file("ml", 3000, n) for n in range(3)], False, None))
record("host/new-too-many-slots", lambda: save("b.dsk", [make_file("ml", 3, n) for n in range(73)], False, None))
record("host/new-too-big", lambda: save("c.dsk", [make_file("bas", 60000, n) for n in range(3)], False, None))
record("host/append-fits", lambda: save("d.dsk", [make_file("ml", 3000, 1)], True, small_image))
record("host/append-too-big", lambda: save("e.dsk", [make_file("asc", 50000, n) for n in range(4)], True, small_image))
record("host/append-slots", lambda: save("f.dsk", [make_file("asc", 1, n) for n in range(71)], True, small_image))
record("host/exists-no-append", lambda: save("g.dsk", [make_file("ml", 3000, 1)], False, small_image))
record("host/exists-no-append-too-big", lambda: save("h.dsk", [make_file("ml", 65000, n) for n in range(3)], False, small_image))

def cli(label, args, watch):
    def case():
        proc = subprocess.run([sys.executable, os.path.join(tree, "file_util.py")] + args, cwd=tmp,
                              capture_output=True, text=True)
        out = [proc.returncode, proc.stdout.replace(tmp, "<tmp>"), proc.stderr.replace(tmp, "<tmp>").replace(tree, "<tree>")]
        for name in watch:
            path = os.path.join(tmp, name)
            out.append([name, digest(open(path, "rb").read()) if os.path.exists(path) else "no file"])
        return out
    record("cli/" + label, case)
cas = CassetteFile(); cas.add_files([make_file("ml", 40000, n) for n in range(5)])
open(os.path.join(tmp, "big.cas"), "wb").write(bytes(cas.get_buffer()))
cas = CassetteFile(); cas.add_files([make_file("ml", 20, n) for n in range(75)])
open(os.path.join(tmp, "many.cas"), "wb").write(bytes(cas.get_buffer()))
cli("list-a", ["a.dsk", "--list"], ["a.dsk"])
cli("list-d", ["d.dsk", "--list"], ["d.dsk"])
cli("big-to-new", ["big.cas", "--to_dsk", "big.dsk"], ["big.dsk"])
cli("big-two-files", ["big.cas", "--to_dsk", "two.dsk", "--files", "f0", "F3"], ["two.dsk"])
cli("big-append", ["big.cas", "--to_dsk", "d.dsk", "--append"], ["d.dsk"])
cli("many-to-new", ["many.cas", "--to_dsk", "many.dsk"], ["many.dsk"])
cli("many-append", ["many.cas", "--to_dsk", "a.dsk", "--append"], ["a.dsk"])
cli("many-some", ["many.cas", "--to_dsk", "some.dsk", "--files"] + ["F%d" % n for n in range(60)], ["some.dsk"])
cli("list-some", ["some.dsk", "--list"], ["some.dsk"])
cli("no-append", ["big.cas", "--to_dsk", "a.dsk", "--files", "F1"], ["a.dsk"])
shutil.rmtree(tmp)

print(json.dumps(results))
'''


def run(tree):
    proc = subprocess.run([sys.executable, "-c", DRIVER, tree], cwd=tree, capture_output=True, text=True)
    if proc.returncode != 0:
        print("driver failed in", tree, proc.stderr[-2000:])
        sys.exit(1)
    return json.loads(proc.stdout.strip().splitlines()[-1])


def main():
    tree_a, tree_b = sys.argv[1], sys.argv[2]
    res_a, res_b = run(tree_a), run(tree_b)
    bad = 0
    if len(res_a) != len(res_b):
        print("different number of results", len(res_a), len(res_b))
        bad += 1
    for a, b in zip(res_a, res_b):
        if a != b:
            bad += 1
            print("DIFF", a[0], "\n  A:", str(a)[:400], "\n  B:", str(b)[:400])
    excs = sum(1 for r in res_a if r[1] == "exc" or "refused" in json.dumps(r))
    print("%d cases compared (%d with an error/refusal), %d differences" % (len(res_a), excs, bad))
    sys.exit(1 if bad else 0)


if __name__ == "__main__":
    main()
