#!/venv/bin/python
"""
Differential demonstration for the add / save / re-open / append histories
of cassette and disk images (property C09).

Usage: equiv.py <treeA> <treeB>

Runs the DRIVER below once per tree (subprocess, cwd = tree, tree first on
sys.path), collects a JSON record per case and compares the two records.
Exit status 0 when every case agrees, 1 otherwise.
"""
import json
import os
import subprocess
import sys
import tempfile

DRIVER = r'''
import json, os, random, subprocess, sys, tempfile, hashlib, shutil
tree = os.getcwd()
sys.path.insert(0, tree)
from cocoasm.virtualfiles.virtual_file import VirtualFile, VirtualFileType
from cocoasm.virtualfiles.source_file import SourceFile, SourceFileType
from cocoasm.virtualfiles.cassette import CassetteFile
from cocoasm.virtualfiles.disk import DiskFile, DiskConstants
from cocoasm.virtualfiles.binary import BinaryFile
from cocoasm.virtualfiles.coco_file import CoCoFile
from cocoasm.values import NumericValue, NoneValue

results = {}
FAT = 78592
DIR = 78848
WD = tempfile.mkdtemp(prefix="c09_")

def sha(seq):
    return hashlib.sha256(bytes((b & 0xFF) for b in seq)).hexdigest()

def clean(text):
    return str(text).replace(WD, "<wd>").replace(tree, "<tree>")

def show_value(v):
    try:
        return [type(v).__name__, v.int, v.hex(), v.hex(size=4)]
    except Exception as e:
        return [type(v).__name__, repr(e)]

def show_file(f):
    data = list(f.data)
    return {"name": f.name, "extension": f.extension, "type": show_value(f.type), "data_type": show_value(f.data_type),
            "gaps": show_value(f.gaps), "load": show_value(f.load_addr), "exec": show_value(f.exec_addr),
            "ignore_gaps": f.ignore_gaps, "len": len(data), "sha": sha(data), "head": data[:8], "str": str(f)}

def run(label, fn):
    try:
        results[label] = ["ok", fn()]
    except BaseException as e:
        results[label] = ["exc", type(e).__name__, clean(e)]

rnd = random.Random(9009)

def pattern(n):
    return [rnd.randrange(256) for _ in range(n)]

def mk(name, data, ext="BIN", ftype=2, dtype=0, load=0x0E00, exe=0x0E10):
    return CoCoFile(name=name, extension=ext, type=NumericValue(ftype), data_type=NumericValue(dtype), gaps=NumericValue(0),
                    load_addr=NumericValue(load), exec_addr=NumericValue(exe), data=data)

def disk_state(path):
    if not os.path.exists(path):
        return None
    with open(path, "rb") as fh:
        raw = fh.read()
    return {"size": len(raw), "sha": hashlib.sha256(raw).hexdigest()}

KINDS = {"cas": VirtualFileType.CASSETTE, "dsk": VirtualFileType.DISK, "bin": VirtualFileType.BINARY, "none": None, "unknown": VirtualFileType.UNKNOWN}

def history(name, steps):
    """steps: list of ('open', kind) / ('add', file) / ('save', append) / ('list', filenames) / ('state',)"""
    def go():
        path = os.path.join(WD, name)
        if os.path.exists(path):
            os.unlink(path)
        log = []
        vf = None
        for step in steps:
            try:
                if step[0] == "open":
                    vf = VirtualFile(SourceFile(path, file_type=SourceFileType.BINARY), virtual_file_type=KINDS[step[1]])
                    vf.open_virtual_file()
                    log.append(["open", str(vf.virtual_file_type), vf.file_exists, [show_file(f) for f in vf.coco_file_list]])
                elif step[0] == "add":
                    log.append(["add", vf.add_coco_file(step[1]), len(vf.coco_file_list)])
                elif step[0] == "save":
                    log.append(["save", vf.save_virtual_file(append_mode=step[1]) if len(step) > 1 else vf.save_virtual_file(), disk_state(path)])
                elif step[0] == "list":
                    listed = vf.list_files(step[1]) if len(step) > 1 else vf.list_files()
                    log.append(["list", [show_file(f) for f in listed], listed is vf.coco_file_list])
                elif step[0] == "raw":
                    with open(path, "wb") as fh:
                        fh.write(bytearray(step[1]))
                    log.append(["raw", len(step[1])])
                elif step[0] == "delete":
                    log.append(["delete", vf.delete_coco_file(step[1])])
            except Exception as e:
                log.append(["exc", step[0], type(e).__name__, clean(e), disk_state(path)])
        return log
    return go

A = mk("ALPHA", pattern(10))
B = mk("BETA", pattern(255), ext="BAS", ftype=0, load=0, exe=0)
C = mk("GAMMA", pattern(2290), load=0x1000, exe=0x1FFF)
CS = mk("STRADDLE", pattern(2299), load=0x1000, exe=0x1FFF)
D = mk("DELTA", pattern(2304 * 2 - 10), ftype=1, dtype=0xFF, ext="TXT")
E = mk("EPSILON", pattern(510))
Z = mk("ZERO", [])
BIG = mk("BIG", pattern(65535), load=0x0001, exe=0xFFFE)

for kind in ("cas", "dsk", "bin"):
    ext = kind
    run("hist/%s/new-one" % kind, history("n1." + ext, [("open", kind), ("list",), ("add", A), ("list",), ("save", False), ("open", "none"), ("list",)]))
    run("hist/%s/new-default-save" % kind, history("n2." + ext, [("open", kind), ("add", A), ("add", B), ("save",), ("open", kind), ("list",)]))
    run("hist/%s/append-chain" % kind, history("n3." + ext, [
        ("open", kind), ("add", A), ("save", True), ("open", kind), ("add", B), ("save", True), ("open", kind), ("list",),
        ("add", C), ("add", D), ("save", True), ("open", "none"), ("list",), ("add", E), ("save", True), ("open", kind), ("list",), ("list", ["ALPHA", "ALPHA   "]), ("list", [])]))
    run("hist/%s/overwrite-refused" % kind, history("n4." + ext, [
        ("open", kind), ("add", A), ("save", False), ("open", kind), ("add", B), ("save", False), ("open", kind), ("list",), ("save",), ("save", True), ("open", kind), ("list",)]))
    run("hist/%s/save-twice-same-object" % kind, history("n5." + ext, [("open", kind), ("add", A), ("save", False), ("save", False), ("add", B), ("save", False), ("open", kind), ("list",)]))
    run("hist/%s/empty-save" % kind, history("n6." + ext, [("open", kind), ("save", False), ("open", kind), ("list",), ("open", "none"), ("list",)]))
    run("hist/%s/zero-length-file" % kind, history("n7." + ext, [("open", kind), ("add", A), ("add", Z), ("add", B), ("save", False), ("open", kind), ("list",), ("add", E), ("save", True), ("open", kind), ("list",)]))
    run("hist/%s/duplicate-names" % kind, history("n8." + ext, [("open", kind), ("add", A), ("add", A), ("save", False), ("open", kind), ("add", A), ("save", True), ("open", kind), ("list",), ("list", ["ALPHA"])]))
    run("hist/%s/delete-noop" % kind, history("n9." + ext, [("open", kind), ("add", A), ("delete", "ALPHA"), ("list",), ("save", False)]))
    for other in ("cas", "dsk", "bin", "unknown"):
        if other != kind:
            run("hist/%s/reopen-as-%s" % (kind, other), history("m_%s.%s" % (other, ext), [
                ("open", kind), ("add", A), ("add", C), ("save", False), ("open", other), ("list",), ("add", B), ("save", True), ("open", "none"), ("list",)]))

run("hist/dsk/straddling-trailer", history("straddle.dsk", [("open", "dsk"), ("add", A), ("add", CS), ("add", B), ("save", False), ("open", "dsk"), ("list",), ("open", "none"), ("list",), ("add", E), ("save", True)]))
run("hist/none/new", history("none.x", [("open", "none"), ("add", A), ("save", False), ("list",), ("open", "none"), ("list",)]))
run("hist/unknown/new", history("unknown.x", [("open", "unknown"), ("add", A), ("save", True), ("open", "none"), ("list",)]))

# big cassette images (>= the size of a disk image) and their re-opening
many_big = [("open", "cas"), ("add", BIG), ("add", mk("BIG2", pattern(65535))), ("add", mk("BIG3", pattern(40000))), ("save", False),
            ("open", "none"), ("list",), ("add", A), ("save", True), ("open", "cas"), ("list",), ("open", "dsk"), ("list",)]
run("hist/cas/bigger-than-disk", history("huge.cas", many_big))
exact = [("open", "cas"), ("add", mk("PAD", pattern(161280 - 2 * 256 - 21 - 6 - (161280 // 260) * 6))), ("save", False), ("open", "none"), ("list",), ("state",)]
run("hist/cas/about-disk-size", history("exact.cas", exact))

# disk capacity histories
run("hist/dsk/fill-up", history("fill.dsk", [("open", "dsk"), ("add", BIG), ("save", False), ("open", "dsk"), ("add", mk("BIG2", pattern(65535))), ("save", True),
                                             ("open", "dsk"), ("add", mk("REST", pattern(2304 * 10))), ("save", True), ("open", "dsk"), ("list",),
                                             ("add", mk("OVER", pattern(2304 * 3))), ("save", True), ("open", "dsk"), ("list",)]))
run("hist/dsk/many-small", history("small.dsk", [("open", "dsk")] + [("add", mk("S%d" % n, [n] * (n + 1), ftype=n % 3)) for n in range(60)] + [("save", False), ("open", "dsk"), ("list",)]
                                   + [("add", mk("T%d" % n, [n])) for n in range(12)] + [("save", True), ("open", "dsk"), ("list",)]))
boundary = [0, 1, 245, 246, 251, 252, 2293, 2294, 2295, 2298, 2299, 2300, 2303, 2304, 4597, 4598, 4599, 4603, 4604]
steps = []
for n, length in enumerate(boundary):
    steps += [("open", "dsk"), ("add", mk("L%d" % length, pattern(length), ftype=(2, 0, 1)[n % 3], dtype=0xFF if n % 3 == 2 else 0)), ("save", True)]
steps += [("open", "none"), ("list",)]
run("hist/dsk/boundary-lengths-appended", history("bound.dsk", steps))
steps = []
for n, length in enumerate([0, 1, 254, 255, 256, 509, 510, 511, 765]):
    steps += [("open", "cas"), ("add", mk("L%d" % length, [0x55, 0x3C, 0x00, 0xFF, 0x01][n % 5:] * (length // 5 + 1))), ("save", True)]
steps += [("open", "none"), ("list",)]
run("hist/cas/boundary-lengths-appended", history("bound.cas", steps))

# sniffing of foreign content
def blank():
    return [0xFF] * DiskConstants.IMAGE_SIZE
raws = {"empty": [], "junk": [1, 2, 3] * 100, "zeros-disk-size": [0] * 161280, "blank-disk": blank(), "short-disk": [0xFF] * 161279,
        "long-blank-disk": blank() + [0] * 100, "leader-only": [0x55] * 400}
bad = blank(); bad[DIR:DIR + 16] = [65] * 8 + [66] * 3 + [2, 0, 5, 0, 9]; bad[FAT + 5] = 0xC1; bad[2304 * 5:2304 * 5 + 5] = [9, 0, 1, 0, 0]
raws["disk-with-bad-preamble"] = bad
good = blank(); good[DIR:DIR + 32] = [65] * 8 + [66] * 3 + [2, 0, 5, 0, 11] + [0] * 16; good[FAT + 5] = 0xC1
good[2304 * 5:2304 * 5 + 11] = [0, 0, 1, 0x12, 0x34, 0x77, 0xFF, 0, 0, 0x56, 0x78]
raws["hand-made-disk"] = good
c = CassetteFile(); c.add_files([A, B])
raws["cassette-then-junk"] = list(c.get_buffer()) + [7] * 10
raws["cassette-truncated"] = list(c.get_buffer())[:-8]
raws["disk-sized-cassette"] = list(c.get_buffer()) + [0x55] * (161280 - len(c.get_buffer()))
mix = blank(); mix[0:len(c.get_buffer())] = list(c.get_buffer())
raws["cassette-inside-blank-disk"] = mix
for label, raw in sorted(raws.items()):
    for kind in ("none", "cas", "dsk", "bin"):
        run("sniff/%s/%s" % (label, kind), history("sniff.img", [("raw", raw), ("open", kind), ("list",), ("add", E), ("save", True), ("open", "none"), ("list",)]))

def direct_sniff(raw):
    def go():
        path = os.path.join(WD, "direct.img")
        with open(path, "wb") as fh:
            fh.write(bytearray(raw))
        source = SourceFile(path, file_type=SourceFileType.BINARY)
        source.read_file()
        files, kind = VirtualFile(source).get_coco_files()
        return [str(kind), [show_file(f) for f in files]]
    return go
for label, raw in sorted(raws.items()):
    run("get_coco_files/%s" % label, direct_sniff(raw))
run("virtualfile/defaults", lambda: [VirtualFile().source_file, VirtualFile().virtual_file_type, VirtualFile().coco_file_list, VirtualFile().file_exists, VirtualFile().list_files(), VirtualFile().list_files(["X"])])
run("virtualfile/no-source-open", lambda: VirtualFile().open_virtual_file())
run("virtualfile/no-source-save", lambda: VirtualFile(virtual_file_type=VirtualFileType.CASSETTE).save_virtual_file())
run("virtualfile/types", lambda: [[m.name, m.value] for m in VirtualFileType])

# ---- container primitives that decide where an appended file may go
for g in (-1, 0, 33, 34, 67, 68, 100):
    run("granule_in_use/%d" % g, lambda g=g: [DiskFile().granule_in_use(g), DiskFile(buffer=[0x00] * 161280).granule_in_use(g)])
for n in (-1, 0, 1, 70, 71, 72, 1000):
    def go(n=n):
        d = DiskFile()
        before = d.directory_entry_in_use(n)
        d.buffer[DIR + 32 * n] = 0x00
        zero = d.directory_entry_in_use(n)
        d.buffer[DIR + 32 * n] = 0x41
        return [before, zero, d.directory_entry_in_use(n)]
    run("directory_entry_in_use/%d" % n, go)
def find_dir(used):
    def go():
        d = DiskFile()
        for n in used:
            d.buffer[DIR + 32 * n] = 0x42
        return d.find_empty_directory_entry()
    return go
for label, used in (("none", []), ("first", [0]), ("first3", [0, 1, 2]), ("gap", [0, 2]), ("all-but-70", [n for n in range(72) if n != 70]),
                    ("all-but-71", range(71)), ("all", range(72))):
    run("find_empty_directory_entry/%s" % label, find_dir(used))
def find_gran(used, order=None):
    def go():
        d = DiskFile(granule_fill_order=order)
        for g in used:
            d.buffer[FAT + g] = 0x10
        return d.find_empty_granule()
    return go
for label, used, order in (("none", [], None), ("first", [32], None), ("first4", [32, 33, 34, 35], None), ("all", range(68), None), ("all-but-67", range(67), None),
                           ("order", [0, 1], list(range(68))), ("short-order", [], list(range(67))), ("empty-order", [], []), ("bad-order", [], [99] * 68),
                           ("tuple-order", [67], tuple(range(67, -1, -1)))):
    run("find_empty_granule/%s" % label, find_gran(used, order))

def seq(buf, sequence, *a, **kw):
    return lambda: CassetteFile(buffer=list(buf)).skip_to_sequence(sequence, *a, **kw)
digits = list(range(1, 11))
for label, sequence, a, kw in (
    ("all", digits, (), {}), ("tail", [9, 10], (), {}), ("last", [10], (), {}), ("start9", [10], (), {"start": 9}), ("pos-start", [10], (9,), {}),
    ("miss", [11, 12], (), {}), ("start-beyond", [1], (), {"start": 5}), ("start-end", [10], (), {"start": 10}), ("start-far", [10], (), {"start": 50}),
    ("empty-seq", [], (), {}), ("empty-seq-start", [], (), {"start": 4}), ("longer", digits + [11], (), {}), ("neg-start", [10], (), {"start": -1}),
    ("neg-start3", [8, 9], (), {"start": -3}), ("tuple-seq", (1, 2), (), {}), ("mid", [4, 5, 6], (), {"start": 2})):
    run("skip/%s" % label, seq(digits, sequence, *a, **kw))
run("skip/empty-buffer", seq([], [1]))

def cas_list(buf, filenames=None):
    def go():
        c = CassetteFile(buffer=list(buf))
        return [show_file(f) for f in (c.list_files(filenames) if filenames is not None else c.list_files())]
    return go
tape = CassetteFile(); tape.add_files([A, B, Z, E, A])
tb = list(tape.get_buffer())
run("cas_list/all", cas_list(tb))
run("cas_list/filter", cas_list(tb, ["ALPHA   "]))
run("cas_list/filter-miss", cas_list(tb, ["ALPHA"]))
run("cas_list/filter-empty", cas_list(tb, []))
run("cas_list/truncated", cas_list(tb[:-3]))
run("cas_list/cut-in-header", cas_list(tb[:270]))
run("cas_list/empty", cas_list([]))
def cas_files(files):
    def go():
        c = CassetteFile()
        c.add_files(files)
        return {"len": len(c.get_buffer()), "sha": sha(c.get_buffer()), "head": list(c.get_buffer())[250:300]}
    return go
run("cas_add/many", cas_files([A, B, Z, E, BIG]))
run("cas_add/none", cas_files([]))
def dsk_list(mut=None, filenames=None):
    def go():
        d = DiskFile(); d.add_files([A, B, C, D, E])
        buf = list(d.get_buffer())
        if mut:
            buf = mut(buf)
        r = DiskFile(buffer=buf)
        return [show_file(f) for f in (r.list_files(filenames) if filenames is not None else r.list_files())]
    return go
run("dsk_list/all", dsk_list())
run("dsk_list/filter", dsk_list(filenames=["ALPHA"]))
run("dsk_list/short", dsk_list(mut=lambda b: b[:-1]))
run("dsk_list/long", dsk_list(mut=lambda b: b + [0]))
run("dsk_list/empty", dsk_list(mut=lambda b: []))

# ---- command line front ends
def cli(script, argv):
    proc = subprocess.run([sys.executable, os.path.join(tree, script)] + argv, cwd=WD,
                          stdout=subprocess.PIPE, stderr=subprocess.PIPE, universal_newlines=True)
    produced = {}
    for fn in sorted(os.listdir(WD)):
        if fn.startswith("cli_"):
            with open(os.path.join(WD, fn), "rb") as fh:
                raw = fh.read()
            produced[fn] = [len(raw), hashlib.sha256(raw).hexdigest()]
    return {"rc": proc.returncode, "out": clean(proc.stdout), "err_tail": clean(proc.stderr).strip().splitlines()[-1:], "files": produced}

sources = {
    "cli_one.asm": "        NAM ONE\n        ORG $0E00\nSTART   LDA #$01\n        STA $0400\n        RTS\n        END START\n",
    "cli_two.asm": "        NAM SECOND\n        ORG $2000\nBEGIN   LDX #$1234\nLOOP    LEAX -1,X\n        BNE LOOP\n        RTS\n" + "        FCB $55,$3C,$00,$FF\n" * 200 + "        END BEGIN\n",
    "cli_noname.asm": "        ORG $3000\n        NOP\n        RTS\n",
    "cli_bad.asm": "        NAM BAD\n        FOO #$01\n",
    "cli_undef.asm": "        NAM UNDEF\n        LDA MISSING\n",
}
for fn, text in sources.items():
    with open(os.path.join(WD, fn), "w") as fh:
        fh.write(text)
commands = [
    ("asm", ["cli_one.asm", "--to_cas", "cli_t.cas"]), ("list", ["cli_t.cas", "--list"]),
    ("asm", ["cli_two.asm", "--to_cas", "cli_t.cas"]), ("asm", ["cli_two.asm", "--to_cas", "cli_t.cas", "--append"]), ("list", ["cli_t.cas", "--list"]),
    ("asm", ["cli_noname.asm", "--to_cas", "cli_t.cas", "--append"]), ("asm", ["cli_noname.asm", "--to_cas", "cli_t.cas", "--append", "--name", "GIVEN"]),
    ("list", ["cli_t.cas", "--list"]), ("asm", ["cli_noname.asm", "--to_cas", "cli_t.cas", "--append", "--name", "mixedCas"]),
    ("list", ["cli_t.cas", "--to_cas", "cli_mixed.cas", "--files", "MIXEDCAS", "one"]), ("list", ["cli_mixed.cas", "--list"]),
    ("list", ["cli_t.cas", "--to_dsk", "cli_mixed.dsk", "--files", "mixedcas"]), ("list", ["cli_mixed.dsk", "--list"]),
    ("asm", ["cli_one.asm", "--to_dsk", "cli_d.dsk"]), ("asm", ["cli_two.asm", "--to_dsk", "cli_d.dsk"]), ("asm", ["cli_two.asm", "--to_dsk", "cli_d.dsk", "--append"]),
    ("asm", ["cli_noname.asm", "--to_dsk", "cli_d.dsk", "--append"]), ("asm", ["cli_noname.asm", "--to_dsk", "cli_d.dsk", "--append", "--name", "lower"]),
    ("list", ["cli_d.dsk", "--list"]),
    ("asm", ["cli_one.asm", "--to_bin", "cli_b.bin"]), ("asm", ["cli_two.asm", "--to_bin", "cli_b.bin"]), ("asm", ["cli_two.asm", "--to_bin", "cli_b.bin", "--append"]),
    ("asm", ["cli_noname.asm", "--to_bin", "cli_n.bin"]),
    ("asm", ["cli_one.asm", "--to_dsk", "cli_t.cas", "--append"]), ("asm", ["cli_one.asm", "--to_cas", "cli_d.dsk", "--append"]), ("asm", ["cli_one.asm", "--to_bin", "cli_d.dsk", "--append"]),
    ("asm", ["cli_one.asm", "--to_bin", "cli_all.bin", "--to_cas", "cli_all.cas", "--to_dsk", "cli_all.dsk", "--symbols", "--print"]),
    ("asm", ["cli_one.asm", "--to_bin", "cli_all.bin", "--to_cas", "cli_all.cas", "--to_dsk", "cli_all.dsk"]),
    ("asm", ["cli_noname.asm", "--to_bin", "cli_nn.bin", "--to_cas", "cli_nn.cas", "--to_dsk", "cli_nn.dsk"]),
    ("asm", ["cli_bad.asm", "--to_cas", "cli_bad.cas"]), ("asm", ["cli_undef.asm", "--to_cas", "cli_undef.cas"]), ("asm", ["cli_one.asm", "--symbols"]), ("asm", ["cli_one.asm", "--print"]),
    ("asm", ["cli_missing.asm"]), ("asm", []),
    ("list", ["cli_t.cas", "--to_dsk", "cli_d.dsk", "--append"]), ("list", ["cli_d.dsk", "--list"]),
    ("list", ["cli_d.dsk", "--to_cas", "cli_t.cas", "--append", "--files", "one", "GIVEN"]), ("list", ["cli_t.cas", "--list"]),
    ("list", ["cli_d.dsk", "--to_cas", "cli_d.dsk", "--append"]), ("list", ["cli_t.cas", "--to_cas", "cli_t.cas", "--append"]), ("list", ["cli_t.cas", "--list"]),
    ("list", ["cli_all.cas", "--to_bin", "cli_z.bin", "--files", "nomatch"]), ("list", ["cli_d.dsk", "--to_dsk", "cli_e.dsk", "--files", "second", "Lower"]),
    ("list", ["cli_e.dsk", "--list"]), ("list", ["cli_e.dsk", "--list", "--files", "second"]), ("list", ["cli_d.dsk", "--to_dsk", "cli_e.dsk", "--files", "one"]),
    ("list", ["cli_missing.dsk", "--to_cas", "cli_frommissing.cas"]), ("list", ["cli_missing.dsk", "--to_bin", "cli_frommissing.bin"]),
    ("list", ["cli_all.cas", "--to_bin", "cli_x.bin"]), ("list", ["cli_t.cas", "--to_bin", "cli_y.bin"]), ("list", ["cli_b.bin", "--list"]), ("list", ["cli_b.bin", "--to_cas", "cli_fromb.cas"]),
]
for number, (which, argv) in enumerate(commands):
    script = "assembler.py" if which == "asm" else "file_util.py"
    run("cli/%02d/%s/%s" % (number, which, " ".join(argv)), lambda script=script, argv=argv: cli(script, argv))

shutil.rmtree(WD, ignore_errors=True)
print(json.dumps(results, sort_keys=True, default=repr))
'''


def run_tree(tree):
    tree = os.path.abspath(tree)
    with tempfile.NamedTemporaryFile("w", suffix="_driver.py", delete=False) as handle:
        handle.write(DRIVER)
        driver_path = handle.name
    try:
        env = dict(os.environ, PYTHONPATH=tree, PYTHONDONTWRITEBYTECODE="1", PYTHONHASHSEED="0")
        proc = subprocess.run([sys.executable, driver_path], cwd=tree, env=env,
                              stdout=subprocess.PIPE, stderr=subprocess.PIPE, universal_newlines=True)
    finally:
        os.unlink(driver_path)
    if proc.returncode != 0:
        print("driver failed in %s:\n%s" % (tree, proc.stderr))
        sys.exit(1)
    return json.loads(proc.stdout)


def main():
    if len(sys.argv) != 3:
        print("usage: equiv.py <treeA> <treeB>")
        return 1
    first = run_tree(sys.argv[1])
    second = run_tree(sys.argv[2])
    differing = 0
    for label in sorted(set(first) | set(second)):
        if first.get(label) != second.get(label):
            differing += 1
            print("DIFFERENT %s\n  A: %s\n  B: %s" % (label, str(first.get(label))[:400], str(second.get(label))[:400]))
    raising = sum(1 for value in first.values() if value[0] == "exc")
    print("%d cases compared (%d raise in tree A), %d differ" % (len(first), raising, differing))
    return 1 if differing else 0


if __name__ == "__main__":
    sys.exit(main())
