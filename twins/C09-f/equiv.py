"""
Differential check for a behaviour preserving refactoring of the disk image
container code (DiskFile writer, reader, arithmetic helpers, ambles, and the
file_util.py front end on .dsk files).

usage: equiv.py <treeA> <treeB>

Each tree is exercised in its own subprocess (tree at the front of sys.path and
as cwd). Every observable result is collected into a JSON document and the two
documents are compared. Exit status 0 = identical, 1 = different.
"""
import hashlib
import json
import os
import subprocess
import sys
import tempfile


# --------------------------------------------------------------------- worker

def strip_traceback(text):
    """an uncaught exception prints source line numbers, which any edit moves: keep the final 'Type: message' line only"""
    if "Traceback (most recent call last)" not in text:
        return text
    head = text[:text.index("Traceback (most recent call last)")]
    lines = [line for line in text.splitlines() if line.strip()]
    return head + "<traceback> " + lines[-1]


def digest(buffer):
    try:
        return [len(buffer), hashlib.sha256(bytes(bytearray(buffer))).hexdigest()]
    except Exception:  # noqa
        return [len(buffer), hashlib.sha256(repr(list(buffer)).encode()).hexdigest()]


def image_summary(buffer):
    """hash of the whole image + FAT + used directory entries, readable on a mismatch"""
    fat = list(buffer[78592:78592 + 68])
    tail = digest(buffer[78660:78848])
    entries = []
    for number in range(72):
        entry = list(buffer[78848 + 32 * number:78848 + 32 * number + 32])
        if entry and entry[0] not in (0x00, 0xFF):
            entries.append([number, entry])
    return {"digest": digest(buffer), "fat": fat, "fat_tail": tail, "dir": entries}


def describe_file(coco_file):
    def val(v):
        return None if v is None else [type(v).__name__, getattr(v, "int", None), v.hex() if hasattr(v, "hex") else None]
    data = list(coco_file.data)
    return {
        "name": coco_file.name, "extension": coco_file.extension,
        "type": val(coco_file.type), "data_type": val(coco_file.data_type), "gaps": val(coco_file.gaps),
        "load": val(coco_file.load_addr), "exec": val(coco_file.exec_addr),
        "data": data if len(data) <= 64 else [len(data), hashlib.sha256(repr(data).encode()).hexdigest(), data[:8], data[-8:]],
        "ignore_gaps": coco_file.ignore_gaps, "str": str(coco_file),
    }


def outcome(function):
    try:
        return {"ok": function()}
    except BaseException as error:  # noqa
        return {"error": [type(error).__name__, str(error)]}


def pattern(length, seed):
    out = []
    state = seed * 7919 + 17
    for index in range(length):
        state = (state * 1103515245 + 12345) & 0x7FFFFFFF
        out.append((state >> 16) & 0xFF if seed % 2 else (index * 7 + seed) & 0xFF)
    return out


def worker(tree):
    sys.path.insert(0, tree)
    os.chdir(tree)
    from cocoasm.virtualfiles.disk import DiskFile, DiskConstants, MLPreamble, BasicPreamble, ASCIIPreamble, Postamble
    from cocoasm.virtualfiles.coco_file import CoCoFile
    from cocoasm.values import NumericValue, NoneValue

    results = {}
    ML, BASIC, ASCII = (2, 0), (0, 0), (0, 0xFF)

    def make(name, ext, kind, load, exe, data):
        return CoCoFile(name=name, extension=ext, type=NumericValue(kind[0]), data_type=NumericValue(kind[1]),
                        load_addr=NumericValue(load), exec_addr=NumericValue(exe), data=data)

    def round_trip(files, order=None, names=None, base=None):
        disk = DiskFile(buffer=base, granule_fill_order=order) if base is not None else DiskFile(granule_fill_order=order)
        status = "written"
        try:
            disk.add_files(files)
        except BaseException as error:  # noqa
            status = [type(error).__name__, str(error)]
        image = list(disk.get_buffer())
        reader = DiskFile(buffer=list(image))
        listed = outcome(lambda: [describe_file(f) for f in (reader.list_files(names) if names is not None else reader.list_files())])
        return {"status": status, "image": image_summary(image), "listed": listed}

    # ---- single files of every kind at the interesting lengths
    lengths = [0, 1, 2, 245, 246, 250, 251, 252, 253, 255, 256, 257, 500, 2293, 2294, 2295, 2298, 2299, 2300, 2301, 2302, 2303, 2304,
               2305, 2310, 4597, 4598, 4599, 4603, 4604, 4608, 4609, 6912, 9216, 11520, 23040, 39158, 39168, 39178, 65535]
    for number, length in enumerate(lengths):
        for label, kind in (("ml", ML), ("basic", BASIC), ("ascii", ASCII)):
            results["single-%s-%d" % (label, length)] = outcome(lambda: round_trip(
                [make("F%d" % length, "BIN", kind, (number * 4099) & 0xFFFF, (0xFFFF - number * 257) & 0xFFFF, pattern(length, number))]))

    # ---- names, extensions, other type codes
    for number, (name, ext) in enumerate([("A", ""), ("hello", "bas"), ("EIGHTCHR", "BIN"), ("NINECHARS", "TEXT"), ("TWELVECHARS1", "b"),
                                          ("MiXeD", "dAt"), ("a\0b", "x\0y"), ("", ""), (" LEAD", " A "), ("\xe9t\xe9", "BIN")]):
        results["name-%d" % number] = outcome(lambda: round_trip([make(name, ext, ML, 0x0E00, 0x0E00, pattern(20, number))]))
    for number, kind in enumerate([(1, 0), (1, 0xFF), (3, 0), (3, 0xFF), (2, 0xFF), (0, 1), (0x99, 0x10)]):
        results["kind-%d" % number] = outcome(lambda: round_trip([make("KIND", "DAT", kind, 0x1234, 0x5678, pattern(300, number))]))

    # ---- lists of files, default and custom fill orders
    def mixed(count, scale):
        kinds = (ML, BASIC, ASCII)
        return [make("FILE%d" % n, ("BIN", "BAS", "TXT")[n % 3], kinds[n % 3], 0x1000 + n, 0x2000 + n, pattern(n * scale + 1, n)) for n in range(count)]
    orders = {
        "default": None,
        "ascending": list(range(68)),
        "descending": list(range(67, -1, -1)),
        "interleaved": [g for pair in zip(range(0, 34), range(67, 33, -1)) for g in pair],
        "stride7": [(g * 7) % 68 for g in range(68)],
        "longer": list(range(68)) + [0, 1, 2],
    }
    for label, order in orders.items():
        results["multi-5-" + label] = outcome(lambda: round_trip(mixed(5, 1700), order=order))
        results["multi-12-" + label] = outcome(lambda: round_trip(mixed(12, 900), order=order))
    results["multi-0"] = outcome(lambda: round_trip([]))
    results["multi-filter"] = outcome(lambda: round_trip(mixed(6, 500), names=["FILE1", "FILE4", "file2"]))
    results["multi-filter-empty"] = outcome(lambda: round_trip(mixed(3, 500), names=[]))
    results["order-short"] = outcome(lambda: round_trip(mixed(2, 10), order=[1, 2, 3]))
    results["order-bad-granule"] = outcome(lambda: round_trip(mixed(2, 10), order=[68] + list(range(67))))
    results["order-negative"] = outcome(lambda: round_trip(mixed(2, 10), order=[-1] + list(range(67))))
    results["order-repeats"] = outcome(lambda: round_trip(mixed(3, 3000), order=[5] * 68))

    # ---- filling the disk and the directory
    results["full-68-granules"] = outcome(lambda: round_trip([make("G%d" % n, "BIN", ML, n, n, pattern(2294, n)) for n in range(68)]))
    results["full-69-granules"] = outcome(lambda: round_trip([make("G%d" % n, "BIN", ML, n, n, pattern(10, n)) for n in range(69)]))
    results["full-one-big-too-many"] = outcome(lambda: round_trip(
        [make("BIG%d" % n, "BIN", ML, n, n, pattern(60000, n)) for n in range(3)]))
    results["full-exact"] = outcome(lambda: round_trip(
        [make("BIG0", "BIN", ML, 0, 0, pattern(65535, 1)), make("BIG1", "BIN", BASIC, 0, 0, pattern(65535, 2)),
         make("REST", "BIN", ASCII, 0, 0, pattern(2304 * 10 - 1, 3))]))

    # ---- fragmentation: write, then write more on top of an existing image
    def fragmented():
        first = DiskFile(granule_fill_order=orders["stride7"])
        first.add_files(mixed(7, 1500))
        image = list(first.get_buffer())
        # delete every other file: free its directory entry and its granule chain
        for entry in (0, 2, 4):
            start = 78848 + 32 * entry
            granule = image[start + 13]
            image[start] = 0x00
            while True:
                link = image[78592 + granule]
                image[78592 + granule] = 0xFF
                if link >= 0xC0:
                    break
                granule = link
        return image
    results["fragmented-base"] = outcome(lambda: round_trip([], base=fragmented()))
    results["fragmented-add"] = outcome(lambda: round_trip(mixed(4, 4000), base=fragmented()))
    results["fragmented-add-ascending"] = outcome(lambda: round_trip(mixed(4, 4000), base=fragmented(), order=orders["ascending"]))
    results["fragmented-big"] = outcome(lambda: round_trip([make("HUGE", "BIN", ML, 0x100, 0x200, pattern(65535, 5))], base=fragmented()))

    # ---- hand made images with scattered, out of order chains
    def hand_image(chain, payload, kind=ML, last_sector_bytes=None, name="HAND", sectors=None, mangle=None):
        image = [0xFF] * 161280
        if kind == ML:
            stream = [0x00, len(payload) >> 8, len(payload) & 255, 0x12, 0x34] + list(payload) + [0xFF, 0, 0, 0x56, 0x78]
        elif kind == BASIC:
            stream = [0xFF, len(payload) >> 8, len(payload) & 255] + list(payload)
        else:
            stream = list(payload)
        if mangle:
            stream = mangle(stream)
        for index, granule in enumerate(chain):
            part = stream[index * 2304:(index + 1) * 2304]
            offset = 2304 * granule + (4608 if granule > 33 else 0)
            image[offset:offset + len(part)] = part
            if index + 1 < len(chain):
                image[78592 + granule] = chain[index + 1]
            else:
                used = len(stream) - index * 2304
                image[78592 + granule] = 0xC0 + (sectors if sectors is not None else used // 256 + 1)
        entry = [ord(c) for c in name.ljust(8)] + [ord(c) for c in "BIN"] + [kind[0], kind[1], chain[0]]
        last = last_sector_bytes if last_sector_bytes is not None else len(stream) % 256
        entry += [last >> 8, last & 255] + [0] * 16
        image[78848 + 32 * 3:78848 + 32 * 4] = entry
        return image

    def listing(image, names=None):
        reader = DiskFile(buffer=image)
        files = reader.list_files(names) if names is not None else reader.list_files()
        return [describe_file(f) for f in files]

    hand = {
        "one-granule": hand_image([40], pattern(100, 1)),
        "two-backwards": hand_image([50, 10], pattern(3000, 2)),
        "three-scattered": hand_image([67, 0, 33], pattern(5000, 3)),
        "across-directory": hand_image([33, 34], pattern(4000, 4)),
        "zigzag": hand_image([34, 33, 35, 32, 36], pattern(11000, 5)),
        "exact-granule-ml": hand_image([5, 60], pattern(2304 - 10, 6)),
        "exact-two-ml": hand_image([5, 60, 7], pattern(4608 - 10, 7)),
        "trailer-straddles": hand_image([20, 45], pattern(2304 - 7, 8)),
        "basic-two": hand_image([9, 8], pattern(2600, 9), kind=BASIC),
        "basic-zero-length-preamble": hand_image([9, 8], pattern(2600, 9), kind=BASIC, mangle=lambda s: [0xFF, 0, 0] + s[3:]),
        "ascii-three": hand_image([66, 1, 30], pattern(5000, 10), kind=ASCII),
        "ascii-exact-sector": hand_image([12], pattern(512, 11), kind=ASCII),
        "ascii-exact-granule": hand_image([12, 13], pattern(2304, 12), kind=ASCII),
        "ml-zero-length": hand_image([12], [], kind=ML),
        "ml-zero-length-field": hand_image([12, 50], pattern(2500, 13), mangle=lambda s: [0, 0, 0] + s[3:]),
        "bad-ml-flag": hand_image([12], pattern(50, 1), mangle=lambda s: [1] + s[1:]),
        "bad-basic-flag": hand_image([12], pattern(50, 1), kind=BASIC, mangle=lambda s: [0xFE] + s[1:]),
        "bad-postamble-0": hand_image([12], pattern(50, 1), mangle=lambda s: s[:-5] + [0xFE] + s[-4:]),
        "bad-postamble-1": hand_image([12], pattern(50, 1), mangle=lambda s: s[:-4] + [0x01] + s[-3:]),
        "bad-postamble-2": hand_image([12], pattern(50, 1), mangle=lambda s: s[:-3] + [0x02] + s[-2:]),
        "last-granule-67-overrun": hand_image([67], pattern(2290, 1), mangle=lambda s: [0, 0xFF, 0xFF] + s[3:]),
        "chain-to-free": hand_image([12, 13], pattern(2304, 12), kind=ASCII, sectors=None, mangle=None)[:78592 + 13] + [0xFF] + hand_image([12, 13], pattern(2304, 12), kind=ASCII)[78592 + 14:],
        "name-not-utf8": hand_image([3], pattern(9, 1), name="AB\xff"),
    }
    short = hand_image([3], pattern(9, 1))
    hand["short-image"] = short[:161279]
    hand["tiny-image"] = [0xFF] * 100
    hand["empty-image"] = []
    hand["long-image"] = hand_image([3], pattern(9, 1)) + [0] * 500
    hand["blank-image"] = [0xFF] * 161280
    hand["zero-image"] = [0x00] * 161280
    hand["bytes-image"] = bytes(bytearray(hand_image([34, 2], pattern(3000, 1))))
    def relocate(image, entry_from, entry_to):
        image = list(image)
        a, b = 78848 + 32 * entry_from, 78848 + 32 * entry_to
        image[b:b + 32] = image[a:a + 32]
        image[a:a + 32] = [0xFF] * 32
        return image

    def poke(image, offset, value):
        image = list(image)
        image[offset] = value
        return image

    def merged(first, second, entry):
        image = list(first)
        for granule in range(68):
            if second[78592 + granule] != 0xFF:
                image[78592 + granule] = second[78592 + granule]
                offset = 2304 * granule + (4608 if granule > 33 else 0)
                image[offset:offset + 2304] = second[offset:offset + 2304]
        image[78848 + 32 * entry:78848 + 32 * entry + 32] = second[78848 + 96:78848 + 128]
        return image
    base = hand["two-backwards"]
    hand["entry-0"] = relocate(base, 3, 0)
    hand["entry-71"] = relocate(base, 3, 71)
    hand["entry-after-deleted"] = poke(relocate(base, 3, 9), 78848 + 32 * 2, 0x00)
    hand["two-entries"] = merged(base, hand_image([40, 41], pattern(2500, 3), kind=BASIC, name="SECOND"), 60)
    hand["three-entries"] = merged(hand["two-entries"], hand_image([1], pattern(30, 4), kind=ASCII, name="third"), 1)
    hand["second-entry-broken"] = merged(base, hand["bad-postamble-2"], 4)
    hand["first-byte-negative"] = poke(base, 78848 + 96, -1)
    hand["first-byte-wide"] = poke(base, 78848 + 96, 0x1FF)
    hand["first-byte-huge"] = poke(base, 78848 + 96, 70000)
    hand["first-byte-string"] = poke(base, 78848 + 96, "$00")
    hand["first-byte-char"] = poke(base, 78848 + 96, "H")
    hand["type-wide"] = poke(base, 78848 + 96 + 11, 0x102)
    hand["type-negative"] = poke(base, 78848 + 96 + 11, -2)
    hand["flag-negative"] = poke(poke(base, 78848 + 96 + 11, 0), 78848 + 96 + 12, -255)
    hand["granule-wide"] = poke(base, 78848 + 96 + 13, 300)
    hand["granule-68"] = poke(base, 78848 + 96 + 13, 68)
    hand["granule-string"] = poke(base, 78848 + 96 + 13, "$32")
    hand["last-sector-string"] = poke(base, 78848 + 96 + 14, "1")
    hand["extension-not-utf8"] = poke(base, 78848 + 96 + 9, 0xC0)
    hand["name-with-spaces"] = poke(poke(base, 78848 + 96, 0x20), 78848 + 96 + 2, 0x20)
    for label, image in hand.items():
        results["hand-" + label] = outcome(lambda: listing(image))
    results["hand-filter-hit"] = outcome(lambda: listing(list(hand["zigzag"]), names=["HAND"]))
    results["hand-filter-miss"] = outcome(lambda: listing(list(hand["zigzag"]), names=["OTHER"]))

    # ---- arithmetic helpers
    def ambles(kind):
        if kind == "ml":
            return MLPreamble(), Postamble()
        if kind == "basic":
            return BasicPreamble(), None
        return ASCIIPreamble(), None
    for kind in ("ml", "basic", "ascii"):
        table = []
        for length in list(range(0, 40)) + list(range(230, 270)) + list(range(2280, 2320)) + list(range(4590, 4620)) + [65535, 156672]:
            preamble, postamble = ambles(kind)
            data = [0] * length
            table.append([length,
                          DiskFile.calculate_granules_needed(data, preamble, postamble),
                          DiskFile.calculate_last_sector_bytes_used(data, preamble, postamble),
                          DiskFile.calculate_last_granules_sectors_used(data, preamble, postamble)])
        results["arith-" + kind] = table
        sweep = []
        for length in list(range(0, 7200)) + list(range(65000, 65536, 5)):
            preamble, postamble = ambles(kind)
            data = bytes(length)
            sweep.append([length,
                          DiskFile.calculate_granules_needed(data, preamble, postamble),
                          DiskFile.calculate_last_sector_bytes_used(data, preamble, postamble),
                          DiskFile.calculate_last_granules_sectors_used(data, preamble, postamble)])
        results["arith-sweep-" + kind] = [len(sweep), hashlib.sha256(repr(sweep).encode()).hexdigest(), sweep[2290:2310]]
    results["arith-sectors"] = [[n, DiskFile.calculate_sectors_needed(n)] for n in list(range(0, 600, 7)) + [255, 256, 257, 2303, 2304, 65535]]
    results["arith-seek"] = [[g, DiskFile.seek_granule(g)] for g in range(-2, 72)]
    results["arith-errors"] = [
        outcome(lambda: DiskFile.calculate_granules_needed(None, MLPreamble(), None)),
        outcome(lambda: DiskFile.calculate_granules_needed([1], None, None)),
        outcome(lambda: DiskFile.calculate_last_sector_bytes_used(None, MLPreamble(), None)),
        outcome(lambda: DiskFile.calculate_last_sector_bytes_used([1], None, Postamble())),
        outcome(lambda: DiskFile.calculate_last_granules_sectors_used(5, MLPreamble(), None)),
        outcome(lambda: DiskFile.calculate_sectors_needed("x")),
        outcome(lambda: DiskFile.calculate_sectors_needed(256.0)),
        outcome(lambda: DiskFile.calculate_sectors_needed(-1)),
        outcome(lambda: DiskFile.seek_granule(None)),
    ]
    fat = list(hand["zigzag"][78592:78592 + 256])
    results["file-length"] = [outcome(lambda: DiskFile.calculate_file_length(g, fat, b)) for g in (34, 33, 35, 36) for b in (0, 1, 255, 256)]
    results["file-length-errors"] = [outcome(lambda: DiskFile.calculate_file_length(300, fat, 0)),
                                     outcome(lambda: DiskFile.calculate_file_length(0, [], 0)),
                                     outcome(lambda: DiskFile.calculate_file_length(0, [0xC0], 7)),
                                     outcome(lambda: DiskFile.calculate_file_length(0, [0xDF], 7))]

    # ---- low level reader / writer methods on small buffers
    def small(action, size=40, fill=0xAA):
        disk = DiskFile(buffer=[fill] * size)
        try:
            returned = action(disk)
            status = "ok"
        except BaseException as error:  # noqa
            returned, status = None, [type(error).__name__, str(error)]
        return [status, returned if not hasattr(returned, "int") else returned.int, [repr(x) for x in disk.get_buffer()]]
    results["low-read-sequence"] = [small(lambda d: d.read_sequence(p, n, decode=dec)) for p in (0, 5, 38, 40, 41, -2) for n in (0, 1, 3, 40, 41) for dec in (False, True)]
    results["low-validate"] = [small(lambda d: d.validate_sequence(p, s)) for p in (0, 38, 39, 40) for s in ([], [0xAA], [0xAA, 0xAA], [0xAA, 1], [1, 0xAA], [0xAA] * 41)]
    results["low-write-bytes"] = [small(lambda d: d.write_bytes_to_buffer(p, s)) for p in (0, 37, 39, -1) for s in ([], [1], [1, 2, 3], (4, 5), b"\x06\x07", "ab")]
    results["low-read-word"] = [small(lambda d: d.read_word(p)) for p in (0, 38, 39, 40, -1)]
    image = hand["zigzag"]
    big = DiskFile(buffer=list(image))
    fat = image[78592:78592 + 256]
    results["low-read-data"] = [outcome(lambda: (lambda r: [digest(r[0]), r[1]])(big.read_data(g, fat, pre, data_length=n)))
                                for g in (34, 33, 36, 67) for pre in (None, MLPreamble(), BasicPreamble(), ASCIIPreamble())
                                for n in (0, 1, 2299, 2300, 2304, 2305, 4608, 11000, 11005, 13000)]
    results["low-read-data-default"] = outcome(lambda: (lambda r: [digest(r[0]), r[1]])(big.read_data(34, fat, MLPreamble())))
    results["low-read-data-short"] = outcome(lambda: DiskFile(buffer=[1] * 3000).read_data(0, [1, 0xC1], None, data_length=2500))
    results["low-read-data-short-2"] = outcome(lambda: DiskFile(buffer=[1] * 3000).read_data(0, [1, 0xC1], None, data_length=3500))
    results["low-dir-in-use"] = [outcome(lambda: big.directory_entry_in_use(n)) for n in (-1, 0, 3, 4, 71, 72)]
    results["low-granule-in-use"] = [outcome(lambda: big.granule_in_use(n)) for n in (-1, 0, 33, 34, 67, 68)]
    results["low-find"] = [outcome(big.find_empty_directory_entry), outcome(big.find_empty_granule)]

    def fat_write(granules, sectors):
        disk = DiskFile()
        disk.write_to_fat(granules, sectors)
        return image_summary(disk.get_buffer())
    results["low-fat"] = [outcome(lambda: fat_write(g, s)) for g, s in (([], 1), ([2], 1), ([2, 4, 6, 8], 9), ([67, 0], 3), ((5, 4, 3), 2),
                                                                         ([1, 1, 1], 4), ([70], 1), (None, 1), ([3, None], 1), ([200000], 1))]

    def granule_write(data, granules, kind, first=True, explicit=True):
        disk = DiskFile()
        preamble, postamble = ambles(kind)
        preamble.data_length = NumericValue(len(data))
        preamble.load_addr = NumericValue(0x1234)
        if postamble:
            postamble.exec_addr = NumericValue(0x4321)
        status = "ok"
        try:
            if explicit:
                disk.write_to_granules(data, granules, preamble, postamble, first_granule=first)
            else:
                disk.write_to_granules(data, granules, preamble, postamble)
        except BaseException as error:  # noqa
            status = [type(error).__name__, str(error)]
        return [status, image_summary(disk.get_buffer())]
    results["low-granules"] = [outcome(lambda: granule_write(pattern(n, n), g, kind, first))
                               for n in (0, 10, 2293, 2294, 2295, 2299, 2304, 5000)
                               for g in ([], [3], [33, 34], (67, 2, 40), [67])
                               for kind in ("ml", "basic", "ascii") for first in (True, False)]
    results["low-granules-default-arg"] = outcome(lambda: granule_write(pattern(3000, 1), [7, 9], "ml", explicit=False))
    results["low-granules-none-ambles"] = outcome(lambda: (lambda d: (d.write_to_granules(pattern(3000, 1), [7, 9], None, None), image_summary(d.get_buffer()))[1])(DiskFile()))
    results["low-granules-bytes"] = outcome(lambda: (lambda d: (d.write_to_granules(bytes(pattern(3000, 1)), [7, 9], None, None), image_summary(d.get_buffer()))[1])(DiskFile()))

    def dir_write(entry, coco_file, granule, used):
        disk = DiskFile()
        status = "ok"
        try:
            disk.write_dir_entry(entry, coco_file, granule, used)
        except BaseException as error:  # noqa
            status = [type(error).__name__, str(error)]
        return [status, image_summary(disk.get_buffer())]
    results["low-dir"] = [outcome(lambda: dir_write(e, make("Dir", "En", ML, 1, 2, []), g, u)) for e, g, u in ((0, 0, 0), (71, 67, 255), (5, 32, 256), (72, 1, 1), (3, 1, 70000), (3, 1, -4))]

    # ---- ambles
    def amble(factory, method, buffer, pointer, **values):
        instance = factory()
        for key, value in values.items():
            setattr(instance, key, value)
        buffer = list(buffer)
        try:
            returned, status = getattr(instance, method)(buffer, pointer), "ok"
        except BaseException as error:  # noqa
            returned, status = None, [type(error).__name__, str(error)]
        fields = {k: [type(v).__name__, getattr(v, "int", v)] for k, v in sorted(vars(instance).items())}
        return [status, returned, buffer, fields, instance.is_ml() if hasattr(instance, "is_ml") else None,
                outcome(instance.get_data_length) if hasattr(instance, "get_data_length") else None]
    buffers = [[], [0], [0, 1, 2, 3], [0, 1, 2, 3, 4], [0xFF, 1, 2, 3, 4], [9, 0, 0xFF, 0, 0, 0x12, 0x34, 7], [0xFF, 0, 0], [0xFF, 0xAB, 0xCD, 1],
               [0xFF, 1, 0, 5, 6], [0xFF, 0, 2, 5, 6], [1, 0xFF, 0xFF, 0xFF, 0xFF, 0xFF]]
    results["amble-read"] = [amble(f, "read", b, p) for f in (MLPreamble, BasicPreamble, ASCIIPreamble, Postamble) for b in buffers for p in (0, 1, 2, 9)]
    values = {"data_length": NumericValue(0xBEEF), "load_addr": NumericValue(0x12), "exec_addr": NumericValue(0xC0DE)}
    results["amble-write"] = [amble(f, "write", b, p, **values) for f in (MLPreamble, BasicPreamble, ASCIIPreamble, Postamble) for b in buffers for p in (0, 1, 2, 9)]
    results["amble-write-defaults"] = [amble(f, "write", [7] * 6, 0) for f in (MLPreamble, BasicPreamble, ASCIIPreamble, Postamble)]
    results["amble-write-broken"] = [amble(MLPreamble, "write", [7] * 6, 0, data_length=NumericValue(3), load_addr=None),
                                     amble(MLPreamble, "write", [7] * 6, 0, data_length=None),
                                     amble(BasicPreamble, "write", [7] * 6, 1, data_length=None),
                                     amble(Postamble, "write", [7] * 6, 1, exec_addr=None)]

    # ---- writer errors leave the same partial image behind
    def failing(action, **kwargs):
        disk = DiskFile(**kwargs)
        try:
            action(disk)
            status = "no error"
        except BaseException as error:  # noqa
            status = [type(error).__name__, str(error)]
        buffer = disk.get_buffer()
        return [status, image_summary(buffer) if len(buffer) >= 78848 else [repr(x) for x in buffer[:50]]]
    results["err-data-none"] = failing(lambda d: d.add_file(make("D", "X", ML, 0, 0, None)))
    results["err-data-str"] = failing(lambda d: d.add_file(make("D", "X", ML, 0, 0, "text")))
    results["err-name-none"] = failing(lambda d: d.add_file(make(None, "X", ML, 0, 0, [1])))
    results["err-ext-none"] = failing(lambda d: d.add_file(make("N", None, ML, 0, 0, [1])))
    results["err-type-none"] = failing(lambda d: d.add_file(CoCoFile(name="T", type=None, data=[1])))
    results["err-default-values"] = failing(lambda d: d.add_file(CoCoFile(name="T", data=[1, 2, 3])))
    results["err-exec-none"] = failing(lambda d: d.add_file(
        CoCoFile(name="T", type=NumericValue(2), data_type=NumericValue(0), load_addr=NumericValue(0x1234), exec_addr=None, data=[1])))
    results["err-load-none"] = failing(lambda d: d.add_file(
        CoCoFile(name="T", type=NumericValue(2), data_type=NumericValue(0), load_addr=None, exec_addr=NumericValue(1), data=[1])))
    results["err-not-a-file"] = failing(lambda d: d.add_file("nonsense"))
    results["err-short-buffer"] = failing(lambda d: d.add_file(make("S", "X", ML, 0, 0, [1])), buffer=[0xFF] * 1000)
    results["err-medium-buffer"] = failing(lambda d: d.add_file(make("S", "X", ML, 0, 0, [1])), buffer=[0xFF] * 78700)
    results["err-dir-buffer"] = failing(lambda d: d.add_file(make("S", "X", ML, 0, 0, [1])), buffer=[0xFF] * 78850)
    results["err-bytes-buffer"] = failing(lambda d: d.add_file(make("S", "X", ML, 0, 0, [1])), buffer=bytes([0xFF]) * 161280)
    results["ok-bytearray-buffer"] = failing(lambda d: d.add_file(make("S", "X", ML, 0, 0, pattern(3000, 1))), buffer=bytearray([0xFF]) * 161280)
    results["err-dir-full"] = failing(lambda d: d.add_files([make("S%d" % n, "X", ASCII, 0, 0, []) for n in range(5)]),
                                      buffer=[0xFF] * 78848 + ([0x41] + [0] * 31) * 71 + [0xFF] * (161280 - 78848 - 32 * 71))
    results["err-dir-70-used"] = failing(lambda d: d.add_files([make("S%d" % n, "X", ASCII, 0, 0, []) for n in range(5)]),
                                         buffer=[0xFF] * 78848 + ([0x41] + [0] * 31) * 70 + [0xFF] * (161280 - 78848 - 32 * 70))

    # ---- constructor
    def construct(**kwargs):
        disk = DiskFile(**kwargs)
        return [digest(disk.buffer), digest(disk.original_buffer), list(disk.granule_fill_order),
                disk.granule_fill_order is DiskConstants.GRANULE_FILL_ORDER, disk.buffer is kwargs.get("buffer")]
    results["ctor"] = [outcome(lambda: construct(**k)) for k in ({}, {"buffer": None}, {"buffer": []}, {"buffer": [1, 2]}, {"granule_fill_order": []},
                                                               {"granule_fill_order": [1]}, {"buffer": [3], "granule_fill_order": (2, 1)})]

    # ---- histories through VirtualFile / SourceFile on real temporary files
    import hashlib as h_hashlib
    import shutil as h_shutil
    from cocoasm.virtualfiles.virtual_file import VirtualFile, VirtualFileType
    from cocoasm.virtualfiles.source_file import SourceFile, SourceFileType
    from cocoasm.virtualfiles.coco_file import CoCoFile as HCoCoFile
    from cocoasm.values import NumericValue as HNumericValue
    h_work = tempfile.mkdtemp(prefix="equiv-hist-")

    def h_digest(content):
        content = bytes(bytearray(content))
        return [len(content), h_hashlib.sha256(content).hexdigest()]

    def h_pattern(length, seed):
        out = []
        state = seed * 31337 + 5
        for index in range(length):
            state = (state * 1103515245 + 12345) & 0x7FFFFFFF
            out.append((state >> 16) & 0xFF if seed % 2 else (0x55, 0x3C, 0x00, 0xFF, 0x01)[index % 5])
        return out

    def h_file(name, kind, load, exe, length, seed, ext="BIN"):
        return HCoCoFile(name=name, extension=ext, type=HNumericValue(kind[0]), data_type=HNumericValue(kind[1]), gaps=HNumericValue(0),
                         load_addr=HNumericValue(load), exec_addr=HNumericValue(exe), data=h_pattern(length, seed))

    def h_describe(coco_file):
        def val(v):
            return None if v is None else [type(v).__name__, getattr(v, "int", None), v.hex() if hasattr(v, "hex") else None]
        data = list(coco_file.data)
        return [coco_file.name, coco_file.extension, val(coco_file.type), val(coco_file.data_type), val(coco_file.gaps),
                val(coco_file.load_addr), val(coco_file.exec_addr), len(data), h_hashlib.sha256(repr(data).encode()).hexdigest(),
                coco_file.ignore_gaps, str(coco_file)]

    def h_disk_state():
        state = {}
        for entry in sorted(os.listdir(h_work)):
            with open(os.path.join(h_work, entry), "rb") as handle:
                state[entry] = h_digest(handle.read())
        return state

    def h_step(file_name, requested_type, new_files, append, names=None):
        """one open / add / save / re-open / list round, everything observable recorded"""
        record = {}
        path = os.path.join(h_work, file_name)
        try:
            virtual_file = VirtualFile(SourceFile(path, file_type=SourceFileType.BINARY), requested_type)
            virtual_file.open_virtual_file()
            record["opened"] = [virtual_file.file_exists, str(virtual_file.virtual_file_type), [h_describe(f) for f in virtual_file.list_files()]]
            for new_file in new_files:
                virtual_file.add_coco_file(new_file)
            record["after-add"] = [h_describe(f) for f in (virtual_file.list_files(names) if names is not None else virtual_file.list_files())]
            record["saved"] = virtual_file.save_virtual_file(append_mode=append) if append is not None else virtual_file.save_virtual_file()
        except BaseException as error:  # noqa
            record["error"] = [type(error).__name__, str(error).replace(h_work, "<WORK>")]
        try:
            check = VirtualFile(SourceFile(path, file_type=SourceFileType.BINARY))
            check.open_virtual_file()
            record["reopened"] = [check.file_exists, str(check.virtual_file_type), [h_describe(f) for f in check.list_files()]]
        except BaseException as error:  # noqa
            record["reopen-error"] = [type(error).__name__, str(error).replace(h_work, "<WORK>")]
        record["disk"] = h_disk_state()
        return record

    H_ML, H_BASIC, H_ASCII, H_DATA = (2, 0), (0, 0), (0, 0xFF), (1, 0xFF)
    CAS, DSK, BIN = VirtualFileType.CASSETTE, VirtualFileType.DISK, VirtualFileType.BINARY
    h_lengths = [1, 254, 255, 256, 510, 2293, 2294, 2295, 2299, 2304, 4598, 4604, 7000, 0, 30000]
    h_kinds = [H_ML, H_BASIC, H_ASCII, H_DATA]

    # one file at a time, appended to the same image
    for label, requested in (("cas", CAS), ("dsk", DSK)):
        trace = []
        for number, length in enumerate(h_lengths):
            new_file = h_file("H%d" % number, h_kinds[number % 4] if label == "cas" else h_kinds[number % 3], 0x100 * number, 0x101 * number, length, number)
            trace.append(h_step("grow." + label, requested, [new_file], True))
        results["history-grow-" + label] = trace
    # several files per step, some steps without --append, some with nothing to add, filters
    for label, requested in (("cas", CAS), ("dsk", DSK)):
        trace = [
            h_step("multi." + label, requested, [h_file("A1", H_ML, 1, 2, 300, 1), h_file("A2", H_BASIC, 0, 0, 2304, 2)], False),
            h_step("multi." + label, requested, [h_file("B1", H_ML, 3, 4, 5000, 3)], False),
            h_step("multi." + label, requested, [h_file("B1", H_ML, 3, 4, 5000, 3), h_file("b2", H_ASCII, 0, 0, 255, 4, ext="txt")], True),
            h_step("multi." + label, requested, [], True),
            h_step("multi." + label, requested, [], None),
            h_step("multi." + label, None, [h_file("C1", H_ML, 0xFFFF, 0xFFFF, 2294, 5)], True, names=["C1", "A1"]),
            h_step("multi." + label, requested, [h_file("A1", H_ML, 9, 9, 10, 6)], True, names=[]),
        ]
        results["history-multi-" + label] = trace
    # capacity: a cassette that outgrows the size of a disk image, a disk that fills up
    trace = []
    for number in range(6):
        trace.append(h_step("huge.cas", CAS, [h_file("BIG%d" % number, H_ML, number, number, 40000 + number, number)], True))
    trace.append(h_step("huge.cas", DSK, [h_file("WRONG", H_ML, 0, 0, 10, 1)], True))
    trace.append(h_step("huge.cas", None, [h_file("AUTO", H_ML, 0, 0, 10, 1)], True))
    results["history-huge-cas"] = trace
    trace = []
    for number in range(5):
        trace.append(h_step("full.dsk", DSK, [h_file("F%d" % number, H_ML, number, number, 39000, number)], True))
    trace.append(h_step("full.dsk", DSK, [h_file("SMALL", H_ML, 7, 7, 100, 7)], True))
    trace.append(h_step("full.dsk", CAS, [h_file("WRONG", H_ML, 0, 0, 10, 1)], True))
    results["history-full-dsk"] = trace
    trace = []
    for number in range(0, 74, 8):
        trace.append(h_step("slots.dsk", DSK, [h_file("S%d" % n, h_kinds[n % 3], n, n, 1, n) for n in range(number, number + 8)], True))
    results["history-slots-dsk"] = trace
    # cassette content that looks like something else, binary targets, odd requested types
    with open(os.path.join(h_work, "exact.cas"), "wb") as handle:
        from cocoasm.virtualfiles.cassette import CassetteFile as HCassetteFile
        tape = HCassetteFile()
        tape.add_file(h_file("EXACT", H_ML, 1, 1, 500, 1))
        handle.write(bytearray(list(tape.get_buffer()) + [0x55] * (161280 - len(tape.get_buffer()))))
    with open(os.path.join(h_work, "ff.cas"), "wb") as handle:
        handle.write(bytearray(list(tape.get_buffer()) + [0xFF] * 161280))
    with open(os.path.join(h_work, "zeros.bin"), "wb") as handle:
        handle.write(bytes(400))
    with open(os.path.join(h_work, "empty.dat"), "wb") as handle:
        pass
    results["history-sniff"] = [
        h_step("exact.cas", CAS, [h_file("MORE", H_ML, 2, 2, 20, 2)], True),
        h_step("ff.cas", CAS, [h_file("MORE", H_ML, 2, 2, 20, 2)], True),
        h_step("ff.cas", None, [], None),
        h_step("zeros.bin", BIN, [h_file("ONE", H_ML, 2, 2, 20, 2)], True),
        h_step("zeros.bin", BIN, [h_file("ONE", H_ML, 2, 2, 20, 2), h_file("TWO", H_ML, 2, 2, 20, 3)], False),
        h_step("zeros.bin", CAS, [h_file("ONE", H_ML, 2, 2, 20, 2)], True),
        h_step("zeros.bin", DSK, [h_file("ONE", H_ML, 2, 2, 20, 2)], True),
        h_step("empty.dat", CAS, [h_file("ONE", H_ML, 2, 2, 20, 2)], True),
        h_step("empty.dat", DSK, [h_file("ONE", H_ML, 2, 2, 20, 2)], True),
        h_step("new.bin", BIN, [h_file("ONE", H_ML, 2, 2, 20, 2), h_file("TWO", H_ML, 2, 2, 20, 3)], False),
        h_step("new.bin", None, [h_file("ONE", H_ML, 2, 2, 20, 2)], True),
        h_step("fresh.xyz", None, [h_file("ONE", H_ML, 2, 2, 20, 2)], False),
        h_step("fresh.xyz", VirtualFileType.UNKNOWN, [h_file("ONE", H_ML, 2, 2, 20, 2)], False),
        h_step("fresh2.dsk", DSK, [HCoCoFile(name="BAD", data=None)], False),
        h_step("fresh3.cas", CAS, [HCoCoFile(name="BAD", type=None, data=[1])], False),
        h_step(os.path.join("nodir", "x.cas"), CAS, [h_file("ONE", H_ML, 2, 2, 20, 2)], False),
    ]

    # SourceFile on its own
    def h_source(action):
        try:
            return {"ok": action()}
        except BaseException as error:  # noqa
            return {"error": [type(error).__name__, str(error).replace(h_work, "<WORK>")]}
    with open(os.path.join(h_work, "text.asm"), "w") as handle:
        handle.write("START   LDA #1\n; comment\n\n        END START")
    with open(os.path.join(h_work, "all.bytes"), "wb") as handle:
        handle.write(bytes(range(256)) * 3)

    def h_read(name, **kwargs):
        source = SourceFile(os.path.join(h_work, name), **kwargs)
        before = list(source.get_buffer())
        returned = source.read_file()
        return [before, returned, source.get_file_name().replace(h_work, "<WORK>"), str(source.file_type), type(source.get_buffer()).__name__,
                [repr(x) for x in source.get_buffer()][:800]]

    def h_write(name, buffer, **kwargs):
        source = SourceFile(os.path.join(h_work, name), **kwargs)
        source.set_buffer(buffer)
        returned = source.write_file()
        exists = os.path.exists(os.path.join(h_work, name))
        return [returned, exists, h_digest(open(os.path.join(h_work, name), "rb").read()) if exists else None]
    results["source-file"] = [
        h_source(lambda: h_read("text.asm")), h_source(lambda: h_read("text.asm", file_type=SourceFileType.BINARY)),
        h_source(lambda: h_read("all.bytes", file_type=SourceFileType.BINARY)), h_source(lambda: h_read("all.bytes")),
        h_source(lambda: h_read("empty.dat", file_type=SourceFileType.BINARY)), h_source(lambda: h_read("empty.dat")),
        h_source(lambda: h_read("absent.bin", file_type=SourceFileType.BINARY)), h_source(lambda: h_read("absent.asm")),
        h_source(lambda: h_read("text.asm", file_type=None)), h_source(lambda: h_read("text.asm", file_type="BINARY")),
        h_source(lambda: h_write("w1.bin", [1, 2, 3], file_type=SourceFileType.BINARY)),
        h_source(lambda: h_write("w2.bin", [], file_type=SourceFileType.BINARY)),
        h_source(lambda: h_write("w3.bin", b"abc", file_type=SourceFileType.BINARY)),
        h_source(lambda: h_write("w4.bin", [1, 256], file_type=SourceFileType.BINARY)),
        h_source(lambda: h_write("w5.bin", [1, None], file_type=SourceFileType.BINARY)),
        h_source(lambda: h_write("w6.bin", None, file_type=SourceFileType.BINARY)),
        h_source(lambda: h_write("w7.asm", [1, 2, 3])),
        h_source(lambda: h_write("w8.bin", [1, 2, 3], file_type=None)),
        h_source(lambda: h_write(os.path.join("nodir", "w9.bin"), [1], file_type=SourceFileType.BINARY)),
        h_source(lambda: [list(SourceFile.read_binary_contents(os.path.join(h_work, "all.bytes")))[250:262], SourceFile.read_assembly_contents(os.path.join(h_work, "text.asm"))]),
        h_source(lambda: [SourceFile().get_file_name(), SourceFile().get_buffer(), str(SourceFile().file_type)]),
        h_source(lambda: SourceFile().read_file()), h_source(lambda: SourceFile(file_type=SourceFileType.BINARY).read_file()),
        h_source(lambda: SourceFile(file_type=SourceFileType.BINARY).write_file()),
    ]
    results["source-file-disk"] = h_disk_state()

    # VirtualFile without any file
    def h_virtual(action):
        try:
            return {"ok": action()}
        except BaseException as error:  # noqa
            return {"error": [type(error).__name__, str(error).replace(h_work, "<WORK>")]}
    results["virtual-file-misc"] = [
        h_virtual(lambda: (lambda v: [v.source_file, v.virtual_file_type, v.coco_file_list, v.file_exists, v.list_files(), v.list_files(["A"]), v.delete_coco_file("A")])(VirtualFile())),
        h_virtual(lambda: VirtualFile().open_virtual_file()), h_virtual(lambda: VirtualFile().save_virtual_file()),
        h_virtual(lambda: VirtualFile(virtual_file_type=CAS).save_virtual_file()), h_virtual(lambda: VirtualFile(virtual_file_type=DSK).save_virtual_file(True)),
        h_virtual(lambda: VirtualFile().get_coco_files()),
        h_virtual(lambda: (lambda r: [[h_describe(f) for f in r[0]], str(r[1])])(VirtualFile(SourceFile()).get_coco_files())),
        h_virtual(lambda: (lambda v: (v.add_coco_file(1), v.add_coco_file(None), v.coco_file_list)[2])(VirtualFile())),
        h_virtual(lambda: (lambda v: (v.add_coco_file(h_file("N1", H_ML, 1, 1, 1, 1)), v.add_coco_file(h_file("N2", H_ML, 1, 1, 1, 1)),
                                      [[f.name for f in v.list_files(n)] for n in (None, [], ["N2"], ["N2", "N1"], "N1", ("n1",))])[2])(VirtualFile())),
    ]
    h_shutil.rmtree(h_work, ignore_errors=True)

    # ---- the command line front end
    work = tempfile.mkdtemp(prefix="equiv-c09d-")

    def run_tool(arguments):
        done = subprocess.run([sys.executable, os.path.join(tree, "file_util.py")] + arguments, cwd=work, capture_output=True, text=True)
        produced = {}
        for entry in sorted(os.listdir(work)):
            with open(os.path.join(work, entry), "rb") as handle:
                produced[entry] = digest(handle.read())
        return {"rc": done.returncode, "out": done.stdout.replace(tree, "<TREE>"), "err": strip_traceback(done.stderr.replace(tree, "<TREE>")), "files": produced}

    def write_image(name, content):
        with open(os.path.join(work, name), "wb") as handle:
            handle.write(bytearray(content))

    disk = DiskFile()
    disk.add_files(mixed(6, 2100))
    write_image("six.dsk", disk.get_buffer())
    write_image("zigzag.dsk", hand["zigzag"])
    write_image("ascii.dsk", hand["ascii-three"])
    write_image("badpost.dsk", hand["bad-postamble-1"])
    write_image("blank.dsk", hand["blank-image"])
    write_image("short.dsk", hand["short-image"])
    write_image("frag.dsk", fragmented())
    cli = [
        ["six.dsk", "--list"], ["zigzag.dsk", "--list"], ["ascii.dsk", "--list"], ["badpost.dsk", "--list"], ["blank.dsk", "--list"],
        ["short.dsk", "--list"], ["frag.dsk", "--list"], ["missing.dsk", "--list"],
        ["six.dsk", "--to_dsk", "copy.dsk"], ["copy.dsk", "--list"], ["six.dsk", "--to_dsk", "copy.dsk"],
        ["zigzag.dsk", "--to_dsk", "copy.dsk", "--append"], ["copy.dsk", "--list"],
        ["six.dsk", "--to_dsk", "frag.dsk", "--append", "--files", "file1", "FILE5"], ["frag.dsk", "--list"],
        ["six.dsk", "--to_cas", "six.cas"], ["six.cas", "--list"], ["six.cas", "--to_dsk", "back.dsk"], ["back.dsk", "--list"],
        ["zigzag.dsk", "--to_bin", "zigzag.bin"], ["six.dsk", "--to_bin", "six.bin"], ["blank.dsk", "--to_dsk", "blank2.dsk"],
        ["blank2.dsk", "--list"], ["six.dsk", "--to_dsk", "six.cas", "--append"],
    ]
    for number, arguments in enumerate(cli):
        results["cli-%02d" % number] = run_tool(arguments)


    def run_assembler(arguments):
        done = subprocess.run([sys.executable, os.path.join(tree, "assembler.py")] + arguments, cwd=work, capture_output=True, text=True)
        produced = {}
        for entry in sorted(os.listdir(work)):
            with open(os.path.join(work, entry), "rb") as handle:
                content = handle.read()
                produced[entry] = [len(content), __import__("hashlib").sha256(content).hexdigest()]
        return {"rc": done.returncode, "out": done.stdout.replace(tree, "<TREE>"), "err": strip_traceback(done.stderr.replace(tree, "<TREE>")), "files": produced}
    with open(os.path.join(work, "prog.asm"), "w") as handle:
        handle.write("        NAM HELLO\n        ORG $0E00\nSTART   LDA #$01\n        STA $0400\nDATA    FCB 1,2,3,4\n        RMB 3000\n        FDB START\n        END START\n")
    with open(os.path.join(work, "other.asm"), "w") as handle:
        handle.write("        NAM OTHER\n        ORG $2000\nBEGIN   LDX #$1234\n        FCB $55,$3C,$00,$FF,$01\n        RMB 600\n        RTS\n        END BEGIN\n")
    with open(os.path.join(work, "noname.asm"), "w") as handle:
        handle.write("        ORG $3F00\n        LDX #$1234\n        RTS\n")
    asm = [
        ["prog.asm", "--to_dsk", "asm.dsk"], ["prog.asm", "--to_dsk", "asm.dsk"], ["other.asm", "--to_dsk", "asm.dsk", "--append"],
        ["noname.asm", "--to_dsk", "asm.dsk", "--append"], ["noname.asm", "--to_dsk", "asm.dsk", "--append", "--name", "second"],
        ["prog.asm", "--to_cas", "asm.cas"], ["prog.asm", "--to_cas", "asm.cas"], ["other.asm", "--to_cas", "asm.cas", "--append"],
        ["noname.asm", "--to_cas", "asm.cas", "--append"], ["noname.asm", "--to_cas", "asm.cas", "--append", "--name", "third"],
        ["prog.asm", "--to_bin", "asm.bin"], ["prog.asm", "--to_bin", "asm.bin"], ["other.asm", "--to_bin", "asm.bin", "--append"],
        ["prog.asm", "--to_cas", "asm.dsk", "--append"], ["prog.asm", "--to_dsk", "asm.cas", "--append"], ["prog.asm", "--to_dsk", "asm.bin", "--append"],
        ["other.asm", "--to_bin", "all.bin", "--to_cas", "all.cas", "--to_dsk", "all.dsk"],
        ["prog.asm", "--to_bin", "all.bin", "--to_cas", "all.cas", "--to_dsk", "all.dsk", "--append", "--symbols", "--print"],
        ["missing.asm", "--to_cas", "never.cas"],
    ]
    for number, arguments in enumerate(asm):
        results["asm-%02d" % number] = run_assembler(arguments)
    for number, name in enumerate(["asm.dsk", "asm.cas", "asm.bin", "all.dsk", "all.cas", "all.bin"]):
        results["asm-list-%d" % number] = run_tool([name, "--list"])

    import shutil
    shutil.rmtree(work, ignore_errors=True)
    json.dump(results, sys.stdout, default=repr)


# --------------------------------------------------------------------- driver

def count_cases(value):
    if isinstance(value, list) and value and all(isinstance(item, (list, dict)) for item in value):
        return len(value)
    return 1


def main():
    if len(sys.argv) == 3 and sys.argv[1] == "--worker":
        worker(sys.argv[2])
        return 0
    if len(sys.argv) != 3:
        print(__doc__)
        return 2
    documents = []
    for tree in sys.argv[1:3]:
        tree = os.path.abspath(tree)
        environment = dict(os.environ, PYTHONDONTWRITEBYTECODE="1", PYTHONHASHSEED="0")
        done = subprocess.run([sys.executable, os.path.abspath(__file__), "--worker", tree],
                              cwd=tree, capture_output=True, text=True, env=environment)
        if done.returncode != 0:
            print("worker failed for", tree)
            print(done.stderr)
            return 1
        documents.append(json.loads(done.stdout))
    first, second = documents
    different = [key for key in sorted(set(first) | set(second)) if first.get(key) != second.get(key)]
    print("%d groups / %d cases compared, %d groups differ" % (len(first), sum(count_cases(v) for v in first.values()), len(different)))
    for key in different:
        print("DIFFERENT:", key)
        a, b = first.get(key), second.get(key)
        if isinstance(a, list) and isinstance(b, list) and len(a) == len(b):
            for index, (x, y) in enumerate(zip(a, b)):
                if x != y:
                    print("   [%d] A: %s" % (index, json.dumps(x)[:300]))
                    print("   [%d] B: %s" % (index, json.dumps(y)[:300]))
                    break
        else:
            print("   A:", json.dumps(a)[:400])
            print("   B:", json.dumps(b)[:400])
    return 1 if different else 0


if __name__ == "__main__":
    sys.exit(main())
