#!/venv/bin/python
"""
Differential check for a refactoring of the CoCoAssembler disk image code.

usage: equiv.py <treeA> <treeB>

Runs the same driver (below) once per tree in a subprocess, with the tree as
cwd and at the front of sys.path, and compares every recorded observation
(image bytes as digests plus the FAT/directory areas, listed files, return
values, exception types and messages, CLI output and files written).
Exits 0 when all observations agree, 1 otherwise.
"""
import json
import os
import subprocess
import sys
import tempfile

DRIVER = r'''
import io, json, os, sys, contextlib, itertools, random, hashlib
tree, workdir = sys.argv[1], sys.argv[2]
sys.path.insert(0, tree)
os.chdir(tree)

from cocoasm.virtualfiles.disk import (
    DiskFile, DiskConstants, MLPreamble, BasicPreamble, ASCIIPreamble, Postamble, Preamble
)
from cocoasm.virtualfiles.coco_file import CoCoFile
from cocoasm.values import NumericValue, NoneValue, AddressValue
import file_util

RESULTS = []
FAT, DIR, SIZE, GRAN = 78592, 78848, 161280, 2304


def digest(buffer):
    try:
        return [len(buffer), hashlib.sha256(bytes(buffer)).hexdigest()]
    except Exception:
        return [len(buffer), hashlib.sha256(repr(list(buffer)).encode()).hexdigest()]


def image_summary(buffer):
    return {"digest": digest(buffer), "fat": [repr(x) for x in buffer[FAT:FAT + 70]],
            "dir": [repr(x) for x in buffer[DIR:DIR + 32 * 6]], "tail": [repr(x) for x in buffer[78660:78670]]}


def describe(coco_file):
    def hx(value):
        try:
            return value.hex()
        except Exception as error:
            return "!" + type(error).__name__
    return {
        "name": coco_file.name, "ext": coco_file.extension, "type": hx(coco_file.type),
        "data_type": hx(coco_file.data_type), "gaps": hx(coco_file.gaps),
        "load": hx(coco_file.load_addr), "exec": hx(coco_file.exec_addr),
        "ascii": coco_file.ascii, "data": digest(coco_file.data), "head": list(coco_file.data[:12]),
        "tail": list(coco_file.data[-12:]), "ignore_gaps": coco_file.ignore_gaps, "str": str(coco_file),
    }


def record(label, function):
    try:
        outcome = ["ok", function()]
    except BaseException as error:
        outcome = ["exc", type(error).__name__, str(error)]
    RESULTS.append([label, outcome])


def make_file(name, data, ext="BIN", file_type=2, data_type=0, load=0x0E00, entry=0x0E10):
    return CoCoFile(name=name, extension=ext, type=NumericValue(file_type), data_type=NumericValue(data_type),
                    gaps=NumericValue(0), load_addr=NumericValue(load), exec_addr=NumericValue(entry), data=data)


def write_and_list(files, order=None, base=None, filenames=None):
    disk = DiskFile(buffer=base, granule_fill_order=order)
    status = "ok"
    try:
        disk.add_files(files)
    except Exception as error:
        status = "{}:{}".format(type(error).__name__, error)
    image = disk.get_buffer()
    result = {"status": status, "image": image_summary(image)}
    try:
        result["files"] = [describe(x) for x in DiskFile(buffer=list(image)).list_files(filenames)]
    except Exception as error:
        result["files"] = "{}:{}".format(type(error).__name__, error)
    return result


rng = random.Random(6809)

def payload(length):
    return [rng.randrange(256) for _ in range(length)]

# 1. round trips around the granule and sector boundaries, for each file kind
KINDS = {"ml": dict(file_type=2, data_type=0, ext="BIN"), "basic": dict(file_type=0, data_type=0, ext="BAS"),
         "ascii": dict(file_type=0, data_type=0xFF, ext="TXT"), "data": dict(file_type=1, data_type=0xFF, ext="DAT"),
         "text": dict(file_type=3, data_type=0, ext="DOC")}
lengths = sorted(set([0, 1, 2, 3, 5, 245, 246, 250, 251, 252, 253, 255, 256, 257, 511, 512]
                     + [GRAN * m + d for m in (1, 2) for d in (-11, -10, -6, -5, -4, -3, -1, 0, 1, 5)]
                     + [GRAN * 17 - 10, GRAN * 17 - 5, GRAN * 17, 65535]))
for kind, options in KINDS.items():
    for length in lengths:
        if kind in ("data", "text") and length % 7:
            continue
        data = payload(length)
        record("roundtrip-%s-%d" % (kind, length), lambda: write_and_list([make_file("F%d" % length, data, **options)]))

# 2. names / extensions
for name, ext in [("A", ""), ("lower", "bin"), ("MiXeD123", "b"), ("TOOLONGNAME1", "LONG"), ("", "BIN"), ("SP ACE", "B N"),
                  ("NUL\0L", "\0\0\0"), ("café", "BIN"), ("ĀB", "BIN"), ("\0HIDDEN", "BIN"), ("\xffKILLED", "BIN")]:
    record("name-%r-%r" % (name, ext), lambda: write_and_list([make_file(name, [1, 2, 3], ext=ext)]))

# 3. several files, fill orders, pre-existing content, filters
several = [make_file("ONE", payload(10)), make_file("TWO", payload(5000), **KINDS["basic"]),
           make_file("THREE", payload(2304 * 3), **KINDS["ascii"]), make_file("FOUR", [], load=0xFFFF, entry=0),
           make_file("FIVE", payload(2294)), make_file("SIX", payload(2295), load=0x553C, entry=0xABCD)]
ORDERS = {"default": None, "ascending": list(range(68)), "descending": list(range(67, -1, -1)),
          "interleaved": list(range(0, 68, 2)) + list(range(1, 68, 2)), "shuffled": rng.sample(range(68), 68),
          "short": list(range(60)), "long": list(range(68)) + [3, 4], "empty": [], "bad": list(range(66)) + [68, 99],
          "tuple": tuple(range(68))}
for order_name, order in ORDERS.items():
    record("several-order-%s" % order_name, lambda: write_and_list(several, order=order))
first = DiskFile()
first.add_files(several[:3])
fragmented = list(first.get_buffer())
for gran in (30, 31, 0, 1, 40):
    fragmented[FAT + gran] = 0xC1
for order_name in ("default", "ascending", "shuffled"):
    record("several-onto-existing-%s" % order_name,
           lambda: write_and_list(several[3:], order=ORDERS[order_name], base=list(fragmented)))
record("several-onto-bytearray", lambda: write_and_list(several[3:], base=bytearray(fragmented)))
for names in [None, [], ["ONE"], ["TWO", "SIX"], ["one"], "ONE", ("NOPE",)]:
    record("several-filter-%r" % (names,), lambda: write_and_list(several, filenames=names))
record("empty-list", lambda: write_and_list([]))

# 4. running out of room
record("full-granules", lambda: write_and_list([make_file("BIG%d" % n, payload(2304 * 20)) for n in range(4)]))
record("full-granules-exact", lambda: write_and_list([make_file("G%d" % n, [n] * 2293) for n in range(69)]))
record("full-directory", lambda: write_and_list([make_file("D%d" % n, [n]) for n in range(73)], order=[5] * 80))  # every later file finds granule 5 taken
def crowded():
    disk = DiskFile()
    for entry in range(72):
        disk.buffer[DIR + 32 * entry] = 0x41
    return list(disk.get_buffer())
record("full-directory-prefilled", lambda: write_and_list([make_file("LATE", [1])], base=crowded()))
def one_slot(entry):
    image = crowded()
    image[DIR + 32 * entry] = 0x00 if entry % 2 else 0xFF
    return image
for entry in (0, 1, 35, 70, 71):
    record("directory-slot-%d" % entry, lambda: write_and_list([make_file("SLOT", [1, 2])], base=one_slot(entry))["status"])

# 5. writer error cases (state of the image after the failure is part of the observation)
record("bad-defaults", lambda: write_and_list([CoCoFile()]))
record("bad-type-none", lambda: write_and_list([CoCoFile(name="X", extension="Y", type=None, data=[1])]))
record("bad-no-addresses", lambda: write_and_list([CoCoFile(name="X", extension="Y", type=NumericValue(2), data=[1])]))
record("bad-data-none", lambda: write_and_list([make_file("X", None)]))
record("bad-data-str-element", lambda: write_and_list([make_file("X", [1, "2", 3])]))
record("bad-name-none", lambda: write_and_list([make_file(None, [1])]))
record("bad-ext-none", lambda: write_and_list([make_file("X", [1], ext=None)]))
record("bad-short-buffer", lambda: write_and_list([make_file("X", [1])], base=[0xFF] * 1000))
record("bad-short-buffer-2", lambda: write_and_list([make_file("X", [1])], base=[0xFF] * 78700))
record("bad-short-buffer-3", lambda: write_and_list([make_file("X", [1])], base=[0xFF] * 78850))
record("bad-too-long", lambda: write_and_list([make_file("X", [1] * 70000)]))
record("bad-bytes-buffer", lambda: write_and_list([make_file("X", [1])], base=bytes([0xFF]) * SIZE))
record("data-bytes", lambda: write_and_list([make_file("X", bytes(payload(3000)))]))
record("addr-addressvalue", lambda: write_and_list([CoCoFile(name="AV", extension="BIN", type=NumericValue(2),
       data_type=NumericValue(0), load_addr=AddressValue(0x1234), exec_addr=AddressValue(0x12), data=[1])]))

# 6. reading hand-built images: scattered chains, odd directory entries, damaged structures
def blank():
    return [0xFF] * SIZE

def put(image, offset, values):
    image[offset:offset + len(values)] = values

def dir_entry(name, ext, file_type, flag, granule, last=(0, 0), fill=0):
    return list(name.ljust(8).encode()) + list(ext.ljust(3).encode()) + [file_type, flag, granule] + list(last) + [fill] * 16

def listing(image, filenames=None):
    return [describe(x) for x in DiskFile(buffer=image).list_files(filenames)]

def scattered(chain, kind, length, use_preamble_length=True):
    image = blank()
    data = [(7 * x + 3) & 0xFF for x in range(length)]
    if kind == "ml":
        stored = [0x00, (length >> 8) & 0xFF if use_preamble_length else 0, length & 0xFF if use_preamble_length else 0, 0x12, 0x34] \
            + data + [0xFF, 0, 0, 0xAB, 0xCD]
        entry = dir_entry("SCAT", "BIN", 2, 0, chain[0])
    elif kind == "basic":
        stored = [0xFF, (length >> 8) & 0xFF if use_preamble_length else 0, length & 0xFF if use_preamble_length else 0] + data
        entry = dir_entry("SCAT", "BAS", 0, 0, chain[0])
    else:
        stored = data
        entry = dir_entry("SCAT", "TXT", 1, 0xFF, chain[0])
    for index, granule in enumerate(chain):
        put(image, DiskFile.seek_granule(granule), stored[index * GRAN:(index + 1) * GRAN])
    for here, there in zip(chain, chain[1:]):
        image[FAT + here] = there
    last_len = len(stored) - GRAN * (len(chain) - 1)
    image[FAT + chain[-1]] = 0xC0 + last_len // 256 + 1
    entry[14], entry[15] = (last_len % 256) >> 8, (last_len % 256) & 0xFF
    put(image, DIR, dir_entry("\0DEAD", "BIN", 2, 0, 1))
    put(image, DIR + 64, entry)
    return image

CHAINS = [[0], [67], [33], [34], [33, 34], [34, 33], [5, 60, 2, 66, 33, 34, 0], [67, 0, 35, 17], [10, 9, 8, 7, 6]]
for chain in CHAINS:
    for kind in ("ml", "basic", "ascii"):
        for slack in (-300, -6, 0):
            length = GRAN * len(chain) + slack - {"ml": 10, "basic": 3, "ascii": 0}[kind] - 1
            record("scattered-%s-%r-%d" % (kind, chain, slack), lambda: listing(scattered(chain, kind, length)))
        record("scattered-nolen-%s-%r" % (kind, chain), lambda: listing(scattered(chain, kind, GRAN * len(chain) - 700, False)))

record("read-blank", lambda: listing(blank()))
record("read-zero", lambda: listing([0] * SIZE))
for size in [0, 1, FAT, DIR + 10, SIZE - 1, SIZE + 1, SIZE + 5000]:
    record("read-size-%d" % size, lambda: listing([0xFF] * size))
record("read-none", lambda: listing(None))
record("read-bytes", lambda: listing(bytes(scattered([5, 6], "ml", 3000))))
record("read-bytearray", lambda: listing(bytearray(scattered([5, 6], "ml", 3000))))
def damaged(change):
    image = scattered([5, 60, 2], "ml", 5000)
    change(image)
    return image
def setbyte(offset, value):
    def change(image):
        image[offset] = value
    return change
record("damaged-preamble-flag", lambda: listing(damaged(setbyte(DiskFile.seek_granule(5), 0x01))))
record("damaged-postamble-0", lambda: listing(damaged(setbyte(DiskFile.seek_granule(2) + 5005 - 2 * GRAN, 0x00))))
record("damaged-postamble-1", lambda: listing(damaged(setbyte(DiskFile.seek_granule(2) + 5006 - 2 * GRAN, 0x07))))
record("damaged-postamble-2", lambda: listing(damaged(setbyte(DiskFile.seek_granule(2) + 5007 - 2 * GRAN, 0x09))))
record("damaged-name-utf8", lambda: listing(damaged(setbyte(DIR + 64 + 2, 0xFE))))
record("damaged-ext-utf8", lambda: listing(damaged(setbyte(DIR + 64 + 9, 0xC3))))
record("damaged-first-granule-68", lambda: listing(damaged(setbyte(DIR + 64 + 13, 68))))
record("damaged-first-granule-200", lambda: listing(damaged(setbyte(DIR + 64 + 13, 200))))
record("damaged-fat-next-255", lambda: listing(damaged(setbyte(FAT + 5, 0xFF))))
record("damaged-fat-next-99", lambda: listing(damaged(setbyte(FAT + 5, 99))))
record("damaged-type-1", lambda: listing(damaged(setbyte(DIR + 64 + 11, 1))))
record("damaged-type-0-flag-ff", lambda: listing(damaged(lambda image: put(image, DIR + 64 + 11, [0, 0xFF]))))
record("damaged-last-entry", lambda: listing(damaged(lambda image: put(image, DIR + 32 * 71, dir_entry("LAST", "BAS", 0, 0xFF, 2, (0, 9))))))
record("damaged-entry-72", lambda: listing(damaged(lambda image: put(image, DIR + 32 * 72, dir_entry("BEYOND", "BAS", 0, 0xFF, 2, (0, 9))))))
record("damaged-big-int", lambda: listing(damaged(setbyte(DIR + 64 + 12, 70000))))
for names in [["SCAT"], ["SCAT    "], ["scat"], []]:
    record("scattered-filter-%r" % names, lambda: listing(scattered([5, 6], "ml", 3000), names))

# 7. helpers one at a time
for granule in [-2, -1, 0, 1, 32, 33, 34, 35, 66, 67, 68, 100]:
    record("seek_granule-%d" % granule, lambda: DiskFile.seek_granule(granule))
    record("granule_in_use-%d" % granule, lambda: DiskFile().granule_in_use(granule))
    record("granule_in_use-used-%d" % granule, lambda: DiskFile(buffer=[0] * SIZE).granule_in_use(granule))
for entry in [-1, 0, 1, 70, 71, 72, 1000]:
    record("directory_entry_in_use-%d" % entry, lambda: DiskFile().directory_entry_in_use(entry))
    record("directory_entry_in_use-zero-%d" % entry, lambda: DiskFile(buffer=[0] * SIZE).directory_entry_in_use(entry))
    record("directory_entry_in_use-used-%d" % entry, lambda: DiskFile(buffer=[0x41] * SIZE).directory_entry_in_use(entry))
record("find_empty_directory_entry-blank", lambda: DiskFile().find_empty_directory_entry())
record("find_empty_directory_entry-full", lambda: DiskFile(buffer=crowded()).find_empty_directory_entry())
for entry in (0, 5, 70, 71):
    record("find_empty_directory_entry-slot-%d" % entry, lambda: DiskFile(buffer=one_slot(entry)).find_empty_directory_entry())
record("find_empty_granule-blank", lambda: DiskFile().find_empty_granule())
record("find_empty_granule-full", lambda: DiskFile(buffer=[0] * SIZE).find_empty_granule())
for order_name, order in ORDERS.items():
    record("find_empty_granule-order-%s" % order_name, lambda: DiskFile(granule_fill_order=order).find_empty_granule())
    record("find_empty_granule-order-used-%s" % order_name,
           lambda: DiskFile(buffer=list(fragmented), granule_fill_order=order).find_empty_granule())
AMBLES = {"ml": (MLPreamble(), Postamble()), "basic": (BasicPreamble(), None), "ascii": (ASCIIPreamble(), None)}
for amble_name, (pre, post) in AMBLES.items():
    for length in [0, 1, 245, 246, 250, 251, 253, 255, 256, 2293, 2294, 2295, 2299, 2301, 2303, 2304, 2305, 4598, 4599, 4608, 65535]:
        data = [0] * length
        record("calc-%s-%d" % (amble_name, length), lambda: [
            DiskFile.calculate_granules_needed(data, pre, post),
            DiskFile.calculate_last_sector_bytes_used(data, pre, post),
            DiskFile.calculate_last_granules_sectors_used(data, pre, post)])
for length in [-257, -256, -1, 0, 1, 255, 256, 257, 2304, 2.5, 511.9]:
    record("calculate_sectors_needed-%r" % length, lambda: DiskFile.calculate_sectors_needed(length))
record("calculate_granules_needed-none", lambda: DiskFile.calculate_granules_needed(None, MLPreamble(), None))
record("calculate_granules_needed-nopre", lambda: DiskFile.calculate_granules_needed([1], None, None))
fat_sample = [1, 2, 0xC3, 0xC1, 5, 0xC9, 0xC0, 0xDF, 0xFF]
for granule in [0, 1, 2, 3, 4, 5, 6, 7, 8, 20]:
    for last in (0, 1, 255, 256):
        record("calculate_file_length-%d-%d" % (granule, last), lambda: DiskFile.calculate_file_length(granule, fat_sample, last))
def poke(method, *args, size=SIZE, base=None):
    disk = DiskFile(buffer=base if base is not None else [0xFF] * size)
    try:
        result = repr(getattr(disk, method)(*args))
    except Exception as error:
        result = "{}:{}".format(type(error).__name__, error)
    return [result, image_summary(disk.get_buffer())]
for granules, sectors in [([], 1), ([3], 1), ([3, 4], 9), ([67, 0, 33, 34], 5), ([5, 5], 2), ([1, 68], 1), ((7, 8, 9), 3), ([2], 0), ([2], 70)]:
    record("write_to_fat-%r-%d" % (granules, sectors), lambda: poke("write_to_fat", granules, sectors))
for entry, gran, used in [(0, 0, 0), (1, 33, 255), (5, 67, 256), (71, 1, 0x1234), (72, 2, 1), (-1, 3, 1), (2, 300, 5), (2, 3, 70000)]:
    record("write_dir_entry-%d-%d-%d" % (entry, gran, used),
           lambda: poke("write_dir_entry", entry, make_file("na\0me", [], ext="e\0"), gran, used))
record("write_dir_entry-bad-file", lambda: poke("write_dir_entry", 1, CoCoFile(name="X", extension="Y", type=None), 1, 1))
for pointer, values in [(0, []), (0, [1, 2, 3]), (SIZE - 2, [1, 2]), (SIZE - 2, [1, 2, 3]), (-3, [9, 9]), (10, b"abc"), (10, "ab")]:
    record("write_bytes_to_buffer-%d-%r" % (pointer, values), lambda: poke("write_bytes_to_buffer", pointer, values))
for data_len in [0, 1, 2298, 2299, 2300, 2304, 4603, 4604, 4609, 7000]:
    for grans in ([4], [4, 40], [33, 34, 2]):
        for first_granule in (True, False):
            def run():
                pre, post = MLPreamble(), Postamble()
                pre.data_length, pre.load_addr, post.exec_addr = NumericValue(data_len), NumericValue(0x1000), NumericValue(0x2000)
                return poke("write_to_granules", [(x * 3) & 0xFF for x in range(data_len)], grans, pre, post, first_granule)
            record("write_to_granules-%d-%r-%s" % (data_len, grans, first_granule), run)
record("write_to_granules-no-ambles", lambda: poke("write_to_granules", [1] * 3000, [1, 2], None, None))
record("write_to_granules-basic", lambda: poke("write_to_granules", [1] * 3000, [66, 67], BasicPreamble(), None))
record("write_to_granules-tuple", lambda: poke("write_to_granules", tuple([1] * 3000), (1, 2), None, None))
seq = DiskFile(buffer=list(b"HELLO WORLD\xff\xfe"))
for pointer, length in [(0, 0), (0, 5), (6, 5), (6, 6), (6, 7), (0, 13), (0, 14), (13, 0), (13, 1), (-2, 2), (-2, 3), (11, 2), (20, 1)]:
    for decode in (False, True):
        record("read_sequence-%d-%d-%s" % (pointer, length, decode), lambda: seq.read_sequence(pointer, length, decode=decode))
for pointer, expected in [(0, [72, 69]), (0, [72, 70]), (0, []), (11, [255, 254]), (11, [255, 254, 1]), (12, [254]), (13, []), (13, [1]), (0, b"HELLO"), (0, "HE")]:
    record("validate_sequence-%d-%r" % (pointer, expected), lambda: seq.validate_sequence(pointer, expected))
record("read_sequence-empty", lambda: DiskFile(buffer=[]).read_sequence(0, 4))
def amble_io(amble, method, buffer, pointer):
    buffer = list(buffer)
    try:
        result = getattr(amble, method)(buffer, pointer)
    except Exception as error:
        result = "{}:{}".format(type(error).__name__, error)
    state = {k: (v.hex() if hasattr(v, "hex") else v) for k, v in sorted(vars(amble).items())}
    return [result, buffer, state, amble.is_ml() if isinstance(amble, Preamble) else None,
            amble.get_data_length() if isinstance(amble, Preamble) else None]
SAMPLES = [[0, 0x12, 0x34, 0x56, 0x78, 9], [0xFF, 0, 0, 0xAB, 0xCD], [0xFF, 1, 0, 1, 2], [0xFF, 0, 2, 1, 2], [1, 2, 3, 4, 5], [0, 1, 2, 3], [0xFF, 1], []]
for factory in (MLPreamble, BasicPreamble, ASCIIPreamble, Postamble):
    for index, sample in enumerate(SAMPLES):
        for pointer in (0, 1, -5):
            record("amble-read-%s-%d-%d" % (factory.__name__, index, pointer), lambda: amble_io(factory(), "read", sample, pointer))
            def written():
                amble = factory()
                if hasattr(amble, "data_length"):
                    amble.data_length, amble.load_addr = NumericValue(0x1234), NumericValue(0x56)
                else:
                    amble.exec_addr = NumericValue(0xABCD)
                return amble_io(amble, "write", sample, pointer)
            record("amble-write-%s-%d-%d" % (factory.__name__, index, pointer), written)
            record("amble-write-unset-%s-%d-%d" % (factory.__name__, index, pointer), lambda: amble_io(factory(), "write", sample, pointer))
def read_data_case(image, granule, preamble, data_length):
    disk = DiskFile(buffer=image)
    fat = image[FAT:FAT + 256]
    data, pointer = disk.read_data(granule, fat, preamble, data_length=data_length) if data_length is not None \
        else disk.read_data(granule, fat, preamble)
    return [digest(data), data[:5], pointer]
walk = scattered([5, 60, 2, 66], "ascii", GRAN * 4 - 100)
for data_length in [None, 0, 1, 2298, 2299, 2300, 2304, 2305, 4608, 4609, 9000, 9216, 9217]:
    for preamble in (None, MLPreamble(), BasicPreamble(), ASCIIPreamble()):
        record("read_data-%r-%s" % (data_length, type(preamble).__name__), lambda: read_data_case(walk, 5, preamble, data_length))
record("read_data-from-67-long", lambda: read_data_case(blank(), 67, None, 2305))
record("read_data-past-end", lambda: read_data_case(blank(), 67, None, 5000))
def fresh(*args, **kwargs):
    disk = DiskFile(*args, **kwargs)
    return [digest(disk.buffer), digest(disk.original_buffer), list(disk.granule_fill_order)[:5], len(disk.granule_fill_order)]
record("init-default", lambda: fresh())
record("init-empty-buffer", lambda: fresh(buffer=[]))
record("init-buffer", lambda: fresh(buffer=[1, 2, 3]))
record("init-order", lambda: fresh(granule_fill_order=[9, 8, 7]))
record("init-order-empty", lambda: fresh(granule_fill_order=[]))
record("constants", lambda: {k: v for k, v in vars(DiskConstants).items() if not k.startswith("_")})

# 8. the command-line front end
def cli(*argv, files=()):
    out = io.StringIO()
    code = None
    old_argv = sys.argv
    sys.argv = ["file_util.py"] + list(argv)
    try:
        with contextlib.redirect_stdout(out), contextlib.redirect_stderr(out):
            try:
                file_util.main(file_util.parse_arguments())
            except SystemExit as error:
                code = error.code
    finally:
        sys.argv = old_argv
    produced = {}
    for name in files:
        produced[name.replace(workdir, "<W>")] = digest(open(name, "rb").read()) if os.path.exists(name) else None
    return {"stdout": out.getvalue().replace(workdir, "<W>"), "exit": code, "files": produced}

def path(name):
    return os.path.join(workdir, name)

disk = DiskFile()
disk.add_files(several)
open(path("several.dsk"), "wb").write(bytearray(disk.get_buffer()))
open(path("scattered.dsk"), "wb").write(bytearray(scattered([5, 60, 2, 66, 33, 34, 0], "ml", GRAN * 7 - 20)))
open(path("scattered2.dsk"), "wb").write(bytearray(scattered([34, 33], "basic", 3000)))
open(path("blank.dsk"), "wb").write(bytearray(blank()))
open(path("short.dsk"), "wb").write(bytearray(blank()[:-1]))
open(path("damaged.dsk"), "wb").write(bytearray(damaged(setbyte(DiskFile.seek_granule(5), 0x01))))
for name in ["several.dsk", "scattered.dsk", "scattered2.dsk", "blank.dsk", "short.dsk", "damaged.dsk", "missing.dsk"]:
    record("cli-list-" + name, lambda: cli(path(name), "--list"))
record("cli-to_dsk", lambda: cli(path("several.dsk"), "--to_dsk", path("out1.dsk"), files=[path("out1.dsk")]))
record("cli-to_dsk-exists", lambda: cli(path("several.dsk"), "--to_dsk", path("out1.dsk"), files=[path("out1.dsk")]))
record("cli-to_dsk-append", lambda: cli(path("scattered.dsk"), "--to_dsk", path("out1.dsk"), "--append", files=[path("out1.dsk")]))
record("cli-to_dsk-files", lambda: cli(path("several.dsk"), "--to_dsk", path("out2.dsk"), "--files", "two", "SIX", files=[path("out2.dsk")]))
record("cli-to_cas", lambda: cli(path("several.dsk"), "--to_cas", path("out3.cas"), files=[path("out3.cas")]))
record("cli-cas-to_dsk", lambda: cli(path("out3.cas"), "--to_dsk", path("out4.dsk"), files=[path("out4.dsk")]))
record("cli-to_bin", lambda: cli(path("scattered2.dsk"), "--to_bin", path("out5.bin"), files=[path("out5.bin")]))
for name in ["out1.dsk", "out2.dsk", "out4.dsk"]:
    record("cli-list-" + name, lambda: cli(path(name), "--list"))

json.dump(RESULTS, sys.stdout)
'''


def run_tree(tree):
    tree = os.path.abspath(tree)
    with tempfile.TemporaryDirectory() as workdir:
        driver = os.path.join(workdir, "driver.py")
        with open(driver, "w") as handle:
            handle.write(DRIVER)
        scratch = os.path.join(workdir, "w")
        os.mkdir(scratch)
        env = dict(os.environ, PYTHONDONTWRITEBYTECODE="1", PYTHONHASHSEED="0")
        env.pop("PYTHONPATH", None)
        process = subprocess.run(
            [sys.executable, driver, tree, scratch], cwd=tree, env=env,
            stdout=subprocess.PIPE, stderr=subprocess.PIPE, text=True
        )
    if process.returncode != 0:
        print("driver failed in {}:\n{}".format(tree, process.stderr))
        sys.exit(1)
    return json.loads(process.stdout)


def main():
    if len(sys.argv) != 3:
        print(__doc__)
        sys.exit(2)
    from concurrent.futures import ThreadPoolExecutor
    with ThreadPoolExecutor(max_workers=2) as pool:
        results_a, results_b = pool.map(run_tree, sys.argv[1:3])
    mismatches = 0
    if [x[0] for x in results_a] != [x[0] for x in results_b]:
        print("case lists differ")
        mismatches += 1
    for (label_a, outcome_a), (label_b, outcome_b) in zip(results_a, results_b):
        if outcome_a != outcome_b:
            mismatches += 1
            print("MISMATCH {}:\n  A: {}\n  B: {}".format(label_a, str(outcome_a)[:400], str(outcome_b)[:400]))
    errors = sum(1 for _, outcome in results_a if outcome[0] == "exc")
    print("{} cases compared ({} of them error cases), {} mismatches".format(len(results_a), errors, mismatches))
    sys.exit(1 if mismatches else 0)


if __name__ == "__main__":
    main()
