#!/usr/bin/env python
"""
Differential check for refactoring C02/c: Program.parse is a generator plus a
comprehension and Program.process_mnemonics delegates the INCLUDE handling to
the new Program.load_include() class method.

usage: equiv.py <treeA> <treeB>   (exit 0 = every observable result agrees)
"""

MAIN = """  NAM INC
  ORG $0E00
START LDA #1
  INCLUDE part1.asm
MID LDX #TABLE
  INCLUDE part2.asm
LAST RTS
  END START
"""
PART1 = """; a comment line in the include

P1 LDB #2
  INCLUDE deep.asm
P1END NOP
"""
PART2 = """TABLE FCB 1,2,3
  FDB $1234,5
  JMP P1
  JMP DEEP
"""
DEEP = """DEEP LEAX TABLE,PCR
  BRA P1
"""


def build_cases():
    cases = []

    def cli(files, args=("--print", "--symbols", "--to_bin", "out.bin")):
        cases.append({"kind": "cli", "args": ["main.asm"] + list(args), "files": files})

    def lib(files, call="process"):
        if call == "process":
            action = "run_prog({'lines': lines, 'deep': True})"
        elif call == "parse":
            action = "Program.parse(lines)"
        else:
            action = "Program.process_mnemonics(Program.parse(lines))"
        # the files live in a scratch directory that is removed again before the case ends
        setup = ("import tempfile, os, shutil\nwork = tempfile.mkdtemp()\nos.chdir(work)\nfiles = {!r}\n"
                 "try:\n"
                 "    for name, text in files.items():\n"
                 "        with open(name, 'w') as handle:\n"
                 "            handle.write(text)\n"
                 "    with open('main.asm') as handle:\n"
                 "        lines = handle.readlines()\n"
                 "    try:\n"
                 "        result = dump({})\n"
                 "    except BaseException as error:\n"
                 "        result = describe_error(error)\n"
                 "finally:\n"
                 "    os.chdir(tree)\n"
                 "    shutil.rmtree(work)\n").format(files, action)
        cases.append({"kind": "eval", "setup": setup, "expr": "result"})

    good = {"main.asm": MAIN, "part1.asm": PART1, "part2.asm": PART2, "deep.asm": DEEP}
    variants = [
        good,
        {"main.asm": MAIN.replace("  INCLUDE part1.asm\n", ""), "part2.asm":
            PART2.replace("  JMP P1\n  JMP DEEP\n", "")},
        {"main.asm": "  INCLUDE part2.asm\n", "part2.asm": "ONLY NOP\n"},
        {"main.asm": "  INCLUDE empty.asm\nA NOP\n", "empty.asm": ""},
        {"main.asm": "  INCLUDE blank.asm\nA NOP\n", "blank.asm": "\n\n; nothing\n   \n"},
        {"main.asm": "  INCLUDE a.asm\n  INCLUDE a.asm\nZ RTS\n", "a.asm": "  NOP\n"},
        {"main.asm": "  INCLUDE a.asm\n  INCLUDE b.asm\nZ RTS\n", "a.asm": "A NOP\n  INCLUDE c.asm\n",
         "b.asm": "B NOP\n  INCLUDE c.asm\n", "c.asm": "  FCB 7\n"},
        {"main.asm": "  ORG $100\n  INCLUDE a.asm\nZ RTS\n", "a.asm": "  ORG $200\nA NOP\n"},
        {"main.asm": "X NOP\n  INCLUDE a.asm\n", "a.asm": "X NOP\n"},
        # failures
        {"main.asm": "  NOP\n  INCLUDE missing.asm\n"},
        {"main.asm": "  INCLUDE main.asm\n"},
        {"main.asm": "  INCLUDE a.asm\n", "a.asm": "  INCLUDE b.asm\n", "b.asm": "  INCLUDE a.asm\n"},
        {"main.asm": "  INCLUDE a.asm\n", "a.asm": "  INCLUDE a.asm\n"},
        {"main.asm": "  INCLUDE a.asm\n", "a.asm": "  NOP\n  INCLUDE main.asm\n"},
        {"main.asm": "  INCLUDE a.asm\n", "a.asm": "  BOGUS 1\n"},
        {"main.asm": "  INCLUDE a.asm\n", "a.asm": "not a line\n"},
        {"main.asm": "  INCLUDE a.asm\n", "a.asm": "  LDA NOWHERE\n"},
        {"main.asm": "  INCLUDE a.asm\n", "a.asm": "  INCLUDE nothere.asm\n"},
        {"main.asm": "  INCLUDE\nA NOP\n"},
        {"main.asm": "  INCLUDE .\nA NOP\n"},
        {"main.asm": "  INCLUDE sub/a.asm\nA NOP\n"},
        {"main.asm": "L INCLUDE a.asm\n  LDA L\n", "a.asm": "M NOP\n"},
        {"main.asm": "  INCLUDE a.asm ; trailing comment\nA NOP\n", "a.asm": "M NOP\n"},
        {"main.asm": "\n\n; just comments\n  \n"},
        {"main.asm": ""},
        {"main.asm": "; c1\n  NOP\n\n; c2\nL LDA #1 ; c3\n   \n  RTS\n"},
    ]
    for files in variants:
        cli(files)
        lib(files, "process")
        lib(files, "parse")
        lib(files, "mnemonics")
    cli(good, args=("--symbols",))
    cli(good, args=("--to_cas", "out.cas"))
    cli(good, args=("--to_dsk", "out.dsk", "--name", "X"))

    # the parse filter on in-memory line lists
    for lines in [[], [""], ["\n"], ["   \n", "\t\n"], ["; c\n"], ["  ; c\n"], ["  NOP\n"], ["L NOP\n", "\n", "; c\n", "  RTS\n"],
                  ["  NOP ; c\n"], ["bad\n"], ["  NOP\n", "bad\n"], ["  FCC \"A B\" ; c\n"]]:
        cases.append({"kind": "eval", "expr": "Program.parse({!r})".format(lines)})
        cases.append({"kind": "prog", "lines": lines, "raw": True, "deep": True})
    return cases


# ---------------------------------------------------------------------------
# Common differential harness: one worker subprocess per tree, same cases.
# ---------------------------------------------------------------------------

WORKER = r'''
import sys, os, json, io, tempfile, subprocess, contextlib
tree = os.path.abspath(sys.argv[1])
sys.path.insert(0, tree)
os.chdir(tree)

from cocoasm.program import Program
from cocoasm.statement import Statement
from cocoasm.instruction import INSTRUCTIONS, CodePackage, Instruction, Mode
from cocoasm.operands import Operand
from cocoasm import operands as operands_module
from cocoasm import values as values_module
from cocoasm.values import Value, NumericValue, AddressValue, NoneValue


def instr(mnemonic):
    if mnemonic is None:
        return None
    return next(op for op in INSTRUCTIONS if op.mnemonic == mnemonic)


def dump(obj, depth=0):
    if depth > 6:
        return "<deep>"
    if obj is None or isinstance(obj, (bool, int, str, float)):
        return obj
    if isinstance(obj, (list, tuple)):
        return [dump(x, depth + 1) for x in obj]
    if isinstance(obj, dict):
        return {str(k): dump(v, depth + 1) for k, v in obj.items()}
    if isinstance(obj, Value):
        out = {"class": type(obj).__name__}
        for name in ("type", "int", "size_hint", "explict_addressing_mode", "negative", "resolved",
                     "original_string", "operation", "hex_array", "original_value"):
            if hasattr(obj, name):
                out[name] = dump(getattr(obj, name), depth + 1)
        for name in ("left", "right", "value"):
            if hasattr(obj, name):
                out[name] = dump(getattr(obj, name), depth + 1)
        for name in ("hex", "hex_len", "byte_len", "is_8_bit", "is_16_bit", "high_byte", "low_byte", "ascii"):
            out[name + "()"] = attempt(getattr(obj, name))
        if hasattr(obj, "is_4_bit"):
            out["is_4_bit()"] = attempt(obj.is_4_bit)
            out["hex(2)"] = attempt(lambda: obj.hex(size=2))
            out["hex(4)"] = attempt(lambda: obj.hex(size=4))
            out["get_negative()"] = attempt(obj.get_negative)
        return out
    if isinstance(obj, CodePackage):
        return {"class": "CodePackage",
                "op_code": dump(obj.op_code, depth + 1), "address": dump(obj.address, depth + 1),
                "post_byte": dump(obj.post_byte, depth + 1), "additional": dump(obj.additional, depth + 1),
                "size": obj.size, "max_size": obj.max_size,
                "additional_needs_resolution": obj.additional_needs_resolution,
                "post_byte_choices": dump(obj.post_byte_choices, depth + 1)}
    if isinstance(obj, Operand):
        return {"class": type(obj).__name__, "type": str(obj.type), "operand_string": obj.operand_string,
                "requires_resolution": obj.requires_resolution, "operation": obj.operation,
                "instruction": obj.instruction.mnemonic if obj.instruction else None,
                "value": dump(obj.value, depth + 1), "left": dump(obj.left, depth + 1),
                "right": dump(obj.right, depth + 1)}
    if isinstance(obj, Statement):
        return {"class": "Statement", "label": obj.label, "mnemonic": obj.mnemonic, "comment": obj.comment,
                "is_empty": obj.is_empty, "is_comment_only": obj.is_comment_only,
                "fixed_size": obj.fixed_size, "pcr_size_hint": obj.pcr_size_hint,
                "instruction": obj.instruction.mnemonic if obj.instruction else None,
                "operand": dump(obj.operand, depth + 1), "original_operand": dump(obj.original_operand, depth + 1),
                "code_pkg": dump(obj.code_pkg, depth + 1),
                "str": attempt(lambda: str(obj))}
    if isinstance(obj, BaseException):
        return describe_error(obj)
    if hasattr(obj, "name") and hasattr(obj, "value") and type(obj).__module__.startswith("cocoasm"):
        return str(obj)
    return repr(obj)


def describe_error(error):
    out = {"exception": type(error).__name__, "str": str(error), "args": dump(list(error.args), 3)}
    if hasattr(error, "value"):
        out["value"] = dump(error.value, 3)
    if hasattr(error, "statement"):
        statement = error.statement
        if isinstance(statement, Statement):
            out["statement"] = attempt(lambda: str(statement))
            out["statement_label"] = statement.label
            out["statement_mnemonic"] = statement.mnemonic
        else:
            out["statement"] = dump(statement, 3)
    return out


def attempt(function):
    try:
        return dump(function(), 3)
    except BaseException as error:
        return {"raised": describe_error(error)}


def run_prog(case):
    program = Program()
    out = {}
    # source lines come from readlines(), so they end in a newline unless the case says otherwise
    lines = case["lines"] if case.get("raw") else [line if line.endswith("\n") else line + "\n" for line in case["lines"]]
    try:
        program.process(lines)
        out["process"] = "ok"
    except BaseException as error:
        out["process"] = describe_error(error)
    out["binary"] = attempt(program.get_binary_array)
    out["listing"] = attempt(program.get_statements)
    out["symbols"] = attempt(program.get_symbol_table)
    out["origin"] = dump(program.origin)
    out["name"] = dump(program.name)
    out["symbol_table"] = attempt(lambda: {k: v for k, v in program.symbol_table.items()})
    if case.get("deep"):
        out["statements"] = attempt(lambda: list(program.statements))
    return out


def run_cli(case):
    tool = case.get("tool", "assembler.py")
    with tempfile.TemporaryDirectory() as work:
        for name, content in case.get("files", {}).items():
            path = os.path.join(work, name)
            if isinstance(content, list):
                with open(path, "wb") as handle:
                    handle.write(bytes(content))
            else:
                with open(path, "w") as handle:
                    handle.write(content)
        env = dict(os.environ)
        env["PYTHONPATH"] = tree
        env["PYTHONDONTWRITEBYTECODE"] = "1"
        env["COLUMNS"] = "80"
        done = subprocess.run([sys.executable, os.path.join(tree, tool)] + case["args"], cwd=work, env=env,
                              capture_output=True, text=True)
        produced = {}
        for name in sorted(os.listdir(work)):
            with open(os.path.join(work, name), "rb") as handle:
                produced[name] = handle.read().hex()
        stderr_lines = done.stderr.strip().splitlines()
        return {"rc": done.returncode, "stdout": done.stdout.replace(tree, "<tree>"),
                "stderr_tail": stderr_lines[-1].replace(tree, "<tree>") if stderr_lines else "",
                "stderr_is_traceback": done.stderr.startswith("Traceback"),
                "files": produced}


def run_operand(case):
    out = {}
    instruction = instr(case["mnemonic"])
    table = {}
    for name, spec in case.get("symbols", {}).items():
        kind, number = spec
        table[name] = AddressValue(number) if kind == "addr" else NumericValue(number)
    try:
        operand = Operand.create_from_str(case["operand"], instruction)
    except BaseException as error:
        return {"create": describe_error(error)}
    out["create"] = dump(operand)
    if case.get("resolve", True):
        try:
            operand = operand.resolve_symbols(table)
            out["resolve"] = dump(operand)
        except BaseException as error:
            out["resolve"] = describe_error(error)
            return out
    try:
        out["translate"] = dump(operand.translate())
        out["after_translate"] = dump(operand)
    except BaseException as error:
        out["translate"] = describe_error(error)
    return out


def run_value(case):
    try:
        value = Value.create_from_str(case["text"], instr(case.get("mnemonic")), case.get("default_mode_extended", True))
    except BaseException as error:
        return {"create": describe_error(error)}
    out = {"create": dump(value)}
    if "symbols" in case:
        table = {}
        for name, spec in case["symbols"].items():
            kind, number = spec
            table[name] = AddressValue(number) if kind == "addr" else NumericValue(number)
        try:
            out["resolve"] = dump(value.resolve(table))
            out["after_resolve"] = dump(value)
        except BaseException as error:
            out["resolve"] = describe_error(error)
    return out


def run_statement(case):
    line = case["line"] if case.get("raw") or case["line"].endswith("\n") else case["line"] + "\n"
    try:
        statement = Statement(line)
    except BaseException as error:
        return {"parse": describe_error(error)}
    return {"parse": dump(statement)}


def run_eval(case):
    scope = dict(globals())
    try:
        exec(case.get("setup", ""), scope)
        return {"result": dump(eval(case["expr"], scope))}
    except BaseException as error:
        return {"raised": describe_error(error)}


RUNNERS = {"prog": run_prog, "cli": run_cli, "operand": run_operand, "value": run_value,
           "statement": run_statement, "eval": run_eval}

cases = json.load(sys.stdin)
results = []
for case in cases:
    captured = io.StringIO()
    with contextlib.redirect_stdout(captured):
        try:
            result = RUNNERS[case["kind"]](case)
        except BaseException as error:
            result = {"harness_error": describe_error(error)}
    results.append({"result": result, "printed": captured.getvalue()})
sys.__stdout__.write(json.dumps(results, sort_keys=True))
'''


def run_tree(tree, cases):
    import json
    import os
    import subprocess
    import sys
    env = dict(os.environ)
    env.pop("PYTHONPATH", None)
    env["PYTHONDONTWRITEBYTECODE"] = "1"
    done = subprocess.run([sys.executable, "-c", WORKER, tree], input=json.dumps(cases), cwd=tree, env=env,
                          capture_output=True, text=True)
    if done.returncode != 0:
        print("worker failed for", tree)
        print(done.stderr)
        sys.exit(1)
    return json.loads(done.stdout)


def main():
    import json
    import os
    import sys
    if len(sys.argv) != 3:
        print("usage: equiv.py <treeA> <treeB>")
        sys.exit(2)
    tree_a, tree_b = (os.path.abspath(p) for p in sys.argv[1:3])
    cases = build_cases()
    results_a = run_tree(tree_a, cases)
    results_b = run_tree(tree_b, cases)
    differences = 0
    errors = 0
    for case, a, b in zip(cases, results_a, results_b):
        text = json.dumps(a, sort_keys=True)
        if '"exception"' in text:
            errors += 1
        if "harness_error" in a["result"] or "harness_error" in b["result"]:
            differences += 1
            print("HARNESS ERROR in case", json.dumps(case)[:200])
            print("  A:", json.dumps(a)[:600])
            print("  B:", json.dumps(b)[:600])
        elif a != b:
            differences += 1
            print("DIFFERENCE in case", json.dumps(case)[:300])
            print("  A:", json.dumps(a, sort_keys=True)[:1500])
            print("  B:", json.dumps(b, sort_keys=True)[:1500])
    print("{} cases ({} involving an error/diagnostic), {} differences".format(len(cases), errors, differences))
    sys.exit(1 if differences or len(results_a) != len(cases) or len(results_b) != len(cases) else 0)


if __name__ == "__main__":
    main()
